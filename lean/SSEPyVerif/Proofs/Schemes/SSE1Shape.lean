/-
  SSE-1: the SHAPE of the index is a function of the configuration only (the scheme's leakage names no size parameter):
  the array has `param_s` cells, all of the length of one encrypted node — written cells because every node is
  `id ‖ key ‖ address` of fixed widths, the others because they are filled with random strings of exactly that length —
  and the look-up table has `param_dictionary_size` entries of one shape.
-/
import SSEPyVerif.Proofs.Schemes.SSE1
import SSEPyVerif.Proofs.Schemes.ANSS16Shape
namespace SSEPy.Sch.SSE1
open SSEPy.Sch

variable (cfg : SSE1Cfg) (lv : Leaves)

/-- length of one encrypted node -/
def nodeLen : Nat := 16 + 16 * ((cfg.idSize.toNat + cfg.k.toNat + cfg.log2sBytes) / 16 + 1)

/-- every cell is still the placeholder or has the length of an encrypted node -/
def CellsOK (A : List Bytes) : Prop := ∀ c ∈ A, c = [0] ∨ c.length = nodeLen cfg

theorem setCell_cells {A A' : List Bytes} {i : Nat} {v : Bytes} (h : setCell A i v = .ok A') (hA : CellsOK cfg A)
    (hv : v.length = nodeLen cfg) : A'.length = A.length ∧ CellsOK cfg A' := by
  obtain ⟨_, rfl⟩ := setCell_ok h
  refine ⟨by simp, ?_⟩
  intro c hc
  rcases List.mem_or_eq_of_mem_set hc with hc | rfl
  · exact hA c hc
  · exact Or.inr hv

variable (hE : ∀ key x : Bytes, x.length = 16 → (lv.E key x).length = 16)
include hE

theorem ske_len (key msg : Bytes) (t t' : Tape) (c : Bytes) (h : skeEncrypt cfg.ske1 lv key msg t = .ok (c, t')) :
    c.length = 16 + 16 * (msg.length / 16 + 1) := by
  obtain ⟨iv, hr, hc⟩ := skeEncrypt_ok h
  exact C14.enc_len cfg.ske1 lv.E key iv msg c (hE key) (Chain.takeBytes_len hr) hc

variable (hlb : cfg.log2sBytes = (cfg.log2s + 7) / 8)
include hlb

theorem innerNodes_cells (K1 : Bytes) (hpl : PsiLen cfg lv K1) (ids : List Bytes) (prevKey : Bytes) (ctr : Nat)
    (first : Option Bitset) (A : List Bytes) (t : Tape) (lastKey : Bytes) (ctr1 : Nat) (first' : Option Bitset)
    (A1 : List Bytes) (t1 : Tape) (h : innerNodes cfg lv K1 ids prevKey ctr first A t = .ok (lastKey, ctr1, first', A1, t1))
    (hidl : ∀ x ∈ ids, x.length = cfg.idSize.toNat) (hA : CellsOK cfg A) :
    A1.length = A.length ∧ CellsOK cfg A1 ∧ Suffix t1 t ∧
    ∀ a, first' = some a → first = some a ∨ ∃ c, psi cfg lv K1 c = .ok a := by
  induction ids generalizing prevKey ctr first A t with
  | nil => simp only [innerNodes] at h; cases h; exact ⟨rfl, hA, Suffix.refl _, fun a ha => Or.inl ha⟩
  | cons id rest ih =>
    cases rest with
    | nil => simp only [innerNodes] at h; cases h; exact ⟨rfl, hA, Suffix.refl _, fun a ha => Or.inl ha⟩
    | cons id2 rest2 =>
      simp only [innerNodes, bind, Except.bind] at h
      split at h
      · cases h
      · rename_i r hr
        obtain ⟨kj, tk⟩ := r
        simp only at h
        split at h
        · cases h
        · rename_i nxt hnxt
          split at h
          · cases h
          · rename_i nb hnb
            split at h
            · cases h
            · rename_i addr haddr
              split at h
              · cases h
              · rename_i r2 hr2
                obtain ⟨c, t2⟩ := r2
                simp only at h
                split at h
                · cases h
                · rename_i A' hset
                  obtain ⟨_, nl⟩ := toBytes_spec nxt nb hnb
                  have hcl : c.length = nodeLen cfg := by
                    rw [ske_len cfg lv hE _ _ _ _ _ hr2]
                    simp only [List.length_append, hidl id (by simp), Chain.takeBytes_len hr, nl, hpl _ _ hnxt, ← hlb]
                    rfl
                  obtain ⟨s1, s2⟩ := setCell_cells cfg hset hA hcl
                  obtain ⟨i1, i2, i3, i4⟩ := ih kj (ctr + 1) _ A' t2 h (fun x hx => hidl x (by simp [hx])) s2
                  refine ⟨by rw [i1, s1], i2, i3.trans ((cipher_suffix hr2).trans (takeBytes_suffix hr)), ?_⟩
                  intro a ha
                  rcases i4 a ha with hf | hc
                  · cases first with
                    | none => simp at hf; subst hf; exact Or.inr ⟨ctr, haddr⟩
                    | some x => simp at hf; subst hf; exact Or.inl rfl
                  · exact Or.inr hc

/-- entries of the look-up table: label of `l` bytes, value of `⌈log2 s / 8⌉ + k` bytes -/
def TOK (T : Table) : Prop := ANSS16.EntLens T cfg.l.toNat (cfg.log2sBytes + cfg.k.toNat)

omit hE hlb in
theorem tinsert_mem (T : Table) (k v : Bytes) (e : Bytes × Bytes) (h : e ∈ tinsert T k v) : e ∈ T ∨ e = (k, v) := by
  induction T with
  | nil => simp [tinsert] at h; exact Or.inr h
  | cons p rest ih =>
    obtain ⟨a, b⟩ := p
    simp only [tinsert] at h
    split at h
    · simp only [List.mem_cons] at h
      rcases h with rfl | h
      · rename_i hak; subst hak; exact Or.inr rfl
      · exact Or.inl (by simp [h])
    · simp only [List.mem_cons] at h
      rcases h with rfl | h
      · exact Or.inl (by simp)
      · rcases ih h with h | h
        · exact Or.inl (by simp [h])
        · exact Or.inr h

omit hE hlb in
theorem tinsert_length (T : Table) (k v : Bytes) : (tinsert T k v).length = if k ∈ T.map (·.1) then T.length else T.length + 1 := by
  have := congrArg List.length (keys_tinsert T k v)
  simp only [List.length_map] at this
  rw [this]
  split <;> simp

theorem encDb_cells (K1 K2 K3 : Bytes) (hpl : PsiLen cfg lv K1)
    (hpi : ∀ w g, piBytes cfg lv K3 w = .ok g → g.length = cfg.l.toNat)
    (db : DB) (ctr : Nat) (A : List Bytes) (T : Table) (t : Tape) (A' : List Bytes) (T' : Table) (t' : Tape)
    (h : encDb cfg lv K1 K2 K3 db ctr A T t = .ok (A', T', t'))
    (hidl : ∀ p ∈ db, ∀ x ∈ p.2, x.length = cfg.idSize.toNat) (hA : CellsOK cfg A) (hT : TOK cfg T) :
    A'.length = A.length ∧ CellsOK cfg A' ∧ TOK cfg T' ∧ Suffix t' t ∧
    ((db.map (·.1)).Nodup → GammaInj cfg lv K3 db →
      (∀ p ∈ db, ∀ g, piBytes cfg lv K3 p.1 = .ok g → g ∉ T.map (·.1)) → T'.length = T.length + db.length) ∧
    ∀ g ∈ T'.map (·.1), g ∈ T.map (·.1) ∨ ∃ p ∈ db, piBytes cfg lv K3 p.1 = .ok g := by
  induction db generalizing ctr A T t with
  | nil =>
    simp [encDb] at h
    obtain ⟨rfl, rfl, rfl⟩ := h
    exact ⟨rfl, hA, hT, Suffix.refl _, fun _ _ _ => by simp, fun g hg => Or.inl hg⟩
  | cons p rest ih =>
    obtain ⟨w0, ids0⟩ := p
    simp only [encDb, bind, Except.bind] at h
    split at h
    · cases h
    · rename_i r hr
      obtain ⟨k0, t1⟩ := r
      simp only at h
      split at h
      · cases h
      · rename_i r2 hr2
        obtain ⟨lastKey, ctr1, first, A1, t2⟩ := r2
        simp only at h
        split at h
        · cases h
        · rename_i lastId hlast
          have hlast' : ids0.getLast? = some lastId := by
            cases hx : ids0.getLast? with
            | none => rw [hx] at hlast; cases hlast
            | some x => rw [hx] at hlast; cases hlast; rfl
          split at h
          · cases h
          · rename_i lastAddr hla
            split at h
            · cases h
            · rename_i r3 hr3
              obtain ⟨c, t3⟩ := r3
              simp only at h
              split at h
              · cases h
              · rename_i A2 hset
                split at h
                · cases h
                · rename_i gamma hgam
                  split at h
                  · cases h
                  · rename_i eta heta
                    split at h
                    · cases h
                    · rename_i fb hfb
                      split at h
                      · cases h
                      · rename_i theta hth
                        obtain ⟨n1, n2, n3, n4⟩ := innerNodes_cells cfg lv hE hlb K1 hpl ids0 k0 ctr none A t1 lastKey ctr1 first A1 t2 hr2
                          (hidl (w0, ids0) (by simp)) hA
                        have hcl : c.length = nodeLen cfg := by
                          rw [ske_len cfg lv hE _ _ _ _ _ hr3]
                          simp only [List.length_append, hidl (w0, ids0) (by simp) lastId (List.mem_of_getLast? hlast'), zeros,
                            List.length_replicate]
                          rfl
                        obtain ⟨s1, s2⟩ := setCell_cells cfg hset n2 hcl
                        -- the new table entry
                        have hfbl : fb.length = cfg.log2sBytes := by
                          obtain ⟨_, nl⟩ := toBytes_spec _ fb hfb
                          rw [nl, hlb]
                          have : (first.getD lastAddr).length = cfg.log2s := by
                            cases first with
                            | none => exact hpl _ _ hla
                            | some a =>
                              rcases n4 a rfl with hf | ⟨c', hc'⟩
                              · cases hf
                              · exact hpl _ _ hc'
                          rw [this]
                        have hthl : theta.length = cfg.log2sBytes + cfg.k.toNat := by
                          have hle : eta.length ≤ (fb ++ k0).length := by
                            unfold bytesXor at hth
                            split at hth
                            · cases hth
                            · omega
                          obtain ⟨x, hx1, hx2, _⟩ := C17.xor_involution (fb ++ k0) eta hle
                          rw [hth] at hx1; cases hx1
                          rw [hx2, List.length_append, hfbl, Chain.takeBytes_len hr]
                        have hT1 : TOK cfg (tinsert T gamma theta) := by
                          intro e he
                          rcases tinsert_mem T gamma theta e he with he | rfl
                          · exact hT e he
                          · exact ⟨hpi w0 gamma hgam, hthl⟩
                        obtain ⟨i1, i2, i3, i4, i5, i6⟩ := ih (ctr1 + 1) A2 (tinsert T gamma theta) t3 h
                          (fun p hp => hidl p (by simp [hp])) s2 hT1
                        refine ⟨by rw [i1, s1, n1], i2, i3,
                          i4.trans ((cipher_suffix hr3).trans (n3.trans (takeBytes_suffix hr))), ?_, ?_⟩
                        · intro hkeys hg hfr
                          simp only [List.map_cons, List.nodup_cons] at hkeys
                          have hgT : gamma ∉ T.map (·.1) := hfr (w0, ids0) (by simp) gamma hgam
                          have hlen1 : (tinsert T gamma theta).length = T.length + 1 := by
                            rw [tinsert_length]; simp [hgT]
                          rw [i5 hkeys.2 (fun w ids w' ids' g hm hm' => hg w ids w' ids' g (by simp [hm]) (by simp [hm']))
                            (fun p hp g hpg => by
                              rw [keys_tinsert]
                              simp only [hgT, if_false, List.mem_append, List.mem_singleton, not_or]
                              refine ⟨hfr p (by simp [hp]) g hpg, ?_⟩
                              intro e; subst e
                              have := hg p.1 p.2 w0 ids0 g (by simp [hp]) (by simp) hpg hgam
                              exact hkeys.1 (List.mem_map.mpr ⟨p, hp, this⟩)), hlen1]
                          simp; omega
                        · intro g hg'
                          rcases i6 g hg' with hin | ⟨p, hp, hpg⟩
                          · rw [keys_tinsert] at hin
                            split at hin
                            · exact Or.inl hin
                            · simp only [List.mem_append, List.mem_singleton] at hin
                              rcases hin with hin | rfl
                              · exact Or.inl hin
                              · exact Or.inr ⟨(w0, ids0), by simp, hgam⟩
                          · exact Or.inr ⟨p, by simp [hp], hpg⟩

omit hE hlb in
/-- table labels are `param_l` bytes: π is the C15 bit PRP on `8·l`-bit keywords -/
theorem pi_len (hl : ∀ k m, (lv.hmac k m).length = 20) (hl8 : 2 ≤ (cfg.l * 8).toNat) (K3 w g : Bytes)
    (h : piBytes cfg lv K3 w = .ok g) : g.length = cfg.l.toNat := by
  simp only [piBytes, bind, Except.bind] at h
  split at h
  · cases h
  · rename_i key hkey
    obtain ⟨hkw, _, _⟩ := mk'_spec _ _ key hkey
    split at h
    · cases h
    · rename_i m hm
      split at h
      · cases h
      · rename_i out hout
        obtain ⟨m1, m2, m3⟩ := mk'_spec _ _ m hm
        have hml := m3 (by omega)
        obtain ⟨kb, o, hkb, ho, how, hol, hd⟩ := C15.bit_prp_is_ffx lv.hmac 20 hl (by decide) key m hkw m1 (by omega)
        have hk8 : (key.length : Int) = cfg.k * 8 := by
          by_cases hne : (key.length : Int) = cfg.k * 8
          · exact hne
          · rw [(C15.bit_prp_contracts lv.hmac 20 _ _ key m).1 hne] at hout; cases hout
        have hm8 : (m.length : Int) = cfg.l * 8 := by
          by_cases hne : (m.length : Int) = cfg.l * 8
          · exact hne
          · rw [(C15.bit_prp_contracts lv.hmac 20 _ _ key m).2 hk8 hne] at hout; cases hout
        rw [← hk8, ← hm8, ho] at hout
        cases hout
        obtain ⟨_, l1⟩ := toBytes_spec out g h
        rw [l1, hol, hml]
        omega

omit hE hlb in
theorem fillA_cells (size : Nat) (A : List Bytes) (t : Tape) (A' : List Bytes) (t' : Tape) (h : fillA size A t = .ok (A', t'))
    (hs : size = nodeLen cfg) (hA : CellsOK cfg A) : A'.length = A.length ∧ (∀ c ∈ A', c.length = nodeLen cfg) ∧ Suffix t' t := by
  induction A generalizing t A' with
  | nil => simp [fillA] at h; obtain ⟨rfl, rfl⟩ := h; exact ⟨rfl, (fun c hc => by cases hc), Suffix.refl _⟩
  | cons c rest ih =>
    have hrest : CellsOK cfg rest := fun x hx => hA x (by simp [hx])
    simp only [fillA] at h
    split at h
    · simp only [bind, Except.bind] at h
      split at h
      · cases h
      · rename_i r hr
        obtain ⟨x, t1⟩ := r
        simp only at h
        split at h
        · cases h
        · rename_i r2 hr2
          obtain ⟨more, t2⟩ := r2
          simp only [pure, Except.pure] at h
          cases h
          obtain ⟨i1, i2, i3⟩ := ih _ _ hr2 hrest
          refine ⟨by simp [i1], ?_, i3.trans (takeBytes_suffix hr)⟩
          intro y hy
          simp only [List.mem_cons] at hy
          rcases hy with rfl | hy
          · rw [Chain.takeBytes_len hr, hs]
          · exact i2 y hy
    · rename_i hne
      simp only [bind, Except.bind] at h
      split at h
      · cases h
      · rename_i r2 hr2
        obtain ⟨more, t2⟩ := r2
        simp only [pure, Except.pure] at h
        cases h
        obtain ⟨i1, i2, i3⟩ := ih _ _ hr2 hrest
        refine ⟨by simp [i1], ?_, i3⟩
        intro y hy
        simp only [List.mem_cons] at hy
        rcases hy with rfl | hy
        · rcases hA y (by simp) with h0 | h0
          · exact absurd h0 hne
          · exact h0
        · exact i2 y hy

omit hE hlb in
theorem drawsLen_suffix (n : Nat) {t t' : Tape} (h : Suffix t' t) : (drawsLen n t').Sublist (drawsLen n t) := by
  obtain ⟨pre, rfl⟩ := h
  unfold drawsLen
  rw [List.filterMap_append]
  exact List.sublist_append_right _ _

omit hE hlb in
/-- the random fillers of the table: `n` more entries of the table's shape, when no filler label repeats a label -/
theorem fillT_shape (l out n : Nat) (T : Table) (t : Tape) (T' : Table) (t' : Tape) (h : fillT l out n T t = .ok (T', t'))
    (hT : ANSS16.EntLens T l out) :
    ANSS16.EntLens T' l out ∧
    ((drawsLen l t).Nodup → (∀ g ∈ T.map (·.1), g ∉ drawsLen l t) → T'.length = T.length + n) := by
  induction n generalizing T t with
  | zero => simp [fillT] at h; obtain ⟨rfl, rfl⟩ := h; exact ⟨hT, fun _ _ => rfl⟩
  | succ m ih =>
    simp only [fillT, bind, Except.bind] at h
    split at h
    · cases h
    · rename_i r hr
      obtain ⟨v, t1⟩ := r
      simp only at h
      split at h
      · cases h
      · rename_i r2 hr2
        obtain ⟨k, t2⟩ := r2
        simp only at h
        have hkl := Chain.takeBytes_len hr2
        have hT1 : ANSS16.EntLens (tinsert T k v) l out := by
          intro e he
          rcases tinsert_mem T k v e he with he | rfl
          · exact hT e he
          · exact ⟨hkl, Chain.takeBytes_len hr⟩
        obtain ⟨i1, i2⟩ := ih _ _ h hT1
        refine ⟨i1, ?_⟩
        intro hnd hfr
        have ht1 : t1 = Draw.bytes k :: t2 := takeBytes_cons hr2
        have hs1 : Suffix t1 t := takeBytes_suffix hr
        have hd1 : drawsLen l t1 = k :: drawsLen l t2 := by rw [ht1]; simp [drawsLen, hkl]
        have hsub := drawsLen_suffix l hs1
        rw [hd1] at hsub
        have hnd1 : (k :: drawsLen l t2).Nodup := List.Nodup.sublist hsub hnd
        have hkin : k ∈ drawsLen l t := hsub.subset (by simp)
        have hkT : k ∉ T.map (·.1) := fun hm => hfr k hm hkin
        have hlen1 : (tinsert T k v).length = T.length + 1 := by rw [tinsert_length]; simp [hkT]
        rw [i2 (List.nodup_cons.mp hnd1).2 (fun g hg => by
          rw [keys_tinsert] at hg
          simp only [hkT, if_false, List.mem_append, List.mem_singleton] at hg
          rcases hg with hg | rfl
          · exact fun hin => hfr g hg (hsub.subset (List.mem_cons_of_mem _ hin))
          · exact (List.nodup_cons.mp hnd1).1), hlen1]
        omega

/-- SSE-1: THE INDEX SHAPE IS A FUNCTION OF THE CONFIGURATION ONLY -/
theorem setup_shape (hl : ∀ k m, (lv.hmac k m).length = 20) (h2 : 2 ≤ cfg.log2s) (hl8 : 2 ≤ (cfg.l * 8).toNat)
    (hk0 : 0 ≤ cfg.k) (hid0 : 0 ≤ cfg.idSize) (hout : cfg.prfF.outputLength.toNat = cfg.log2sBytes + cfg.k.toNat)
    (K1 K2 K3 K4 : Bytes) (db : DB) (t t' : Tape) (edb : SSE1EDB)
    (hs : setup cfg lv [K1, K2, K3, K4] db t = .ok (edb, t'))
    (hidl : ∀ p ∈ db, ∀ x ∈ p.2, x.length = cfg.idSize.toNat) :
    edb.A.length = cfg.s.toNat ∧ (∀ c ∈ edb.A, c.length = nodeLen cfg) ∧
    ANSS16.EntLens edb.T cfg.l.toNat (cfg.log2sBytes + cfg.k.toNat) ∧
    ((db.map (·.1)).Nodup → GammaInj cfg lv K3 db → db.length ≤ cfg.dictSize.toNat → (drawsLen cfg.l.toNat t).Nodup →
      (∀ p ∈ db, ∀ g, piBytes cfg lv K3 p.1 = .ok g → g ∉ drawsLen cfg.l.toNat t) → edb.T.length = cfg.dictSize.toNat) := by
  simp only [setup, bind, Except.bind] at hs
  split at hs
  · cases hs
  · rename_i r hr
    obtain ⟨A, T, t1⟩ := r
    simp only at hs
    split at hs
    · cases hs
    · rename_i r2 hr2
      obtain ⟨probe, t2⟩ := r2
      simp only at hs
      split at hs
      · cases hs
      · rename_i r3 hr3
        obtain ⟨A', t3⟩ := r3
        simp only at hs
        split at hs
        · cases hs
        · rename_i r4 hr4
          obtain ⟨T', t4⟩ := r4
          simp only [pure, Except.pure] at hs
          cases hs
          have hpl := psiLen_of_leaves cfg lv hl h2 K1
          obtain ⟨e1, e2, e3, e4, e5, e6⟩ := encDb_cells cfg lv hE hlb K1 K2 K3 hpl (pi_len cfg lv hl hl8 K3) db 1 _ [] t A T t1 hr
            hidl (fun c hc => Or.inl (List.eq_of_mem_replicate hc)) (fun e he => by cases he)
          have hprobe : probe.length = nodeLen cfg := by
            rw [ske_len cfg lv hE _ _ _ _ _ hr2]
            simp only [zeros, List.length_replicate, nodeLen]
            have : (cfg.idSize + cfg.k + (cfg.log2sBytes : Int)).toNat = cfg.idSize.toNat + cfg.k.toNat + cfg.log2sBytes := by omega
            rw [this]
          obtain ⟨f1, f2, f3⟩ := fillA_cells cfg _ A t2 A' t3 hr3 hprobe e2
          rw [hout] at hr4
          obtain ⟨g1, g2⟩ := fillT_shape _ _ _ T t3 T' _ hr4 e3
          refine ⟨by rw [f1, e1]; simp, f2, g1, ?_⟩
          intro hkeys hg hle hnd hfr
          have hTl : T.length = db.length := by
            have := e5 hkeys hg (fun p hp g hpg => by simp)
            simpa using this
          have hs3 : Suffix t3 t := f3.trans ((cipher_suffix hr2).trans e4)
          have hsub := drawsLen_suffix cfg.l.toNat hs3
          rw [g2 (List.Nodup.sublist hsub hnd) (fun g hgm hin => by
            rcases e6 g hgm with h0 | ⟨p, hp, hpg⟩
            · simp at h0
            · exact hfr p hp g hpg (hsub.subset hin)), hTl]
          omega

omit hE hlb in
theorem cfgBuild_shape (raw : RawCfg) (h : SSE1.cfgBuild raw = .ok cfg) :
    0 ≤ cfg.k ∧ 0 ≤ cfg.idSize ∧ cfg.prfF.outputLength.toNat = cfg.log2sBytes + cfg.k.toNat := by
  unfold SSE1.cfgBuild at h
  simp only [bind, Except.bind] at h
  repeat (split at h; (try cases h))
  all_goals (try (simp only [pure, Except.pure] at h))
  all_goals (try cases h)
  all_goals (
    have hk : ∀ k, getInt raw "param_k" = .ok k → 0 < k := fun k hg =>
      param_pos _ raw "param_k" k ‹checkParamPositive raw = Except.ok _› ‹checkParamExist _ raw = Except.ok _›
        (by decide +kernel) (by simp) hg
    have hi : ∀ k, getInt raw "param_identifier_size" = .ok k → 0 < k := fun k hg =>
      param_pos _ raw "param_identifier_size" k ‹checkParamPositive raw = Except.ok _› ‹checkParamExist _ raw = Except.ok _›
        (by decide +kernel) (by simp) hg
    have hk' := hk _ ‹getInt raw "param_k" = Except.ok _›
    have hi' := hi _ ‹getInt raw "param_identifier_size" = Except.ok _›
    refine ⟨by simp only; omega, by simp only; omega, ?_⟩
    simp only [HmacPRF.new]
    split
    · rename_i h0; simp [LENGTH_NOT_GIVEN] at h0; omega
    · omega)

end SSEPy.Sch.SSE1
