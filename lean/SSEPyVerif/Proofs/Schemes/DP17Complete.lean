/-
  DP17: `Setup` never raises, for keys of λ bytes, an accepted configuration, a level list that ascends without negative
  levels and whose last level holds every list, and field widths that hold the level numbers and bucket indices: the only
  failure left in the model is `.miss` (recorded randomness exhausted or of the wrong kind).
-/
import SSEPyVerif.Proofs.Schemes.DP17Room
namespace SSEPy.Sch.DP17
open SSEPy.Sch

variable (cfg : DP17Cfg) (lv : Leaves)

structure Usable : Prop where
  plain : PlainSke cfg.rnd
  rndKey : cfg.rnd.keyLength = cfg.lambda
  fKey : cfg.prfF.keyLength = cfg.lambda
  fMsg : cfg.prfF.messageLength = LENGTH_UNLIMITED
  fOut : cfg.prfF.outputLength = cfg.lambda
  fHash : cfg.prfF.hashLen = 20
  lpos : 0 < cfg.lambda

variable (hl : LeafLaws lv) (hu : Usable cfg)
variable (d : Nat) (hd0 : 0 < d) (hsha : ∀ m, (lv.sha m).length = d)
include hl hu hd0 hsha

omit hd0 hsha in
theorem prf_call (key msg : Bytes) (hk : (key.length : Int) = cfg.lambda) :
    ∃ out, cfg.prfF.call lv.hmac key msg = .ok out ∧ (out.length : Int) = cfg.lambda := by
  have hcall : cfg.prfF.call lv.hmac key msg = .ok (tlsPHash lv.hmac cfg.prfF.hashLen key msg cfg.prfF.outputLength) := by
    unfold HmacPRF.call
    simp [hu.fKey, hu.fMsg, hk]
  have hlen := (prf_ok cfg.prfF lv.hmac (by rw [hu.fHash]; exact hl.hmac_len) (by rw [hu.fHash]; decide) key msg _ hcall).1
  refine ⟨_, hcall, ?_⟩
  rw [hlen, hu.fOut]
  have := hu.lpos
  omega

/-- the hash-table update succeeds when the level number and the bucket index fit their fields -/
theorem htInsert_ok (k1 k2 w : Bytes) (h1 : (k1.length : Int) = cfg.lambda) (h2 : (k2.length : Int) = cfg.lambda)
    (count i x : Nat) (c : List Bytes) (HT : Table) (hi : i < 256 ^ (cfg.dsz / 2)) (hx : x < 256 ^ (cfg.dsz - cfg.dsz / 2)) :
    ∃ HT', htInsert cfg lv k1 k2 w count i x c HT = .ok HT' := by
  unfold htInsert
  split
  · exact ⟨HT, rfl⟩
  · obtain ⟨tag, htag, _⟩ := prf_call cfg lv hl hu k1 w h1
    obtain ⟨vtag, hvtag, _⟩ := prf_call cfg lv hl hu k2 w h2
    obtain ⟨key, hkey, _⟩ := C16.ctr_expand_len lv.sha d hsha hd0 (tag ++ natToBytesMin count) cfg.dsz
    obtain ⟨mask, hmask, hml⟩ := C16.ctr_expand_len lv.sha d hsha hd0 (vtag ++ natToBytesMin count) cfg.dsz
    have hib : ∃ ib, intToBytesNat i (cfg.dsz / 2) = .ok ib := by
      unfold intToBytesNat; have : ¬ i ≥ 256 ^ (cfg.dsz / 2) := by omega
      simp [this]
    have hxb : ∃ xb, intToBytesNat x (cfg.dsz - cfg.dsz / 2) = .ok xb := by
      unfold intToBytesNat; have : ¬ x ≥ 256 ^ (cfg.dsz - cfg.dsz / 2) := by omega
      simp [this]
    obtain ⟨ib, hib⟩ := hib
    obtain ⟨xb, hxb⟩ := hxb
    have l1 := (C17.int_roundtrip _ _ _ hib).2
    have l2 := (C17.int_roundtrip _ _ _ hxb).2
    have hxor : ∃ v, bytesXor (ib ++ xb) mask = .ok v := by
      unfold bytesXor
      have hle : ¬ mask.length > (ib ++ xb).length := by
        rw [List.length_append, l1, l2, hml]
        have : (cfg.dsz : Int).toNat = cfg.dsz := by omega
        omega
      rw [if_neg hle]
      exact ⟨_, rfl⟩
    obtain ⟨v, hv⟩ := hxor
    exact ⟨tinsert HT key v, by
      simp [htKey, htVal, hashH, htag, hvtag, hkey, hmask, hib, hxb, hv, bind, Except.bind, pure, Except.pure]⟩

/-- placing the chunks of one keyword can only fail for want of recorded randomness -/
theorem placeChunks_onlyMiss (N : Nat) (k1 k2 w : Bytes) (h1 : (k1.length : Int) = cfg.lambda)
    (h2 : (k2.length : Int) = cfg.lambda) (i : Nat) (cw : List (List Bytes)) (count placed : Nat) (lvl : Level)
    (HT : Table) (t : Tape) (hlev : lvl.lev = (i : Int)) (hinv : LInv N placed lvl)
    (hN : placed + (cw.map List.length).sum ≤ N) (hcl : ∀ c ∈ cw, c.length ≤ 2 ^ i)
    (hi : i < 256 ^ (cfg.dsz / 2)) (hx : (sizesOf N (i : Int)).length ≤ 256 ^ (cfg.dsz - cfg.dsz / 2)) :
    OnlyMiss (placeChunks cfg lv k1 k2 w i cw count lvl HT t) := by
  induction cw generalizing count placed lvl HT t with
  | nil => exact OnlyMiss.pure _
  | cons c rest ih =>
    have hne := cands_nonempty N placed lvl i hlev hinv (by simp at hN; omega)
    have hemp : ((lvl.remaining.zipIdx.filter fun p => p.1 ≥ 2 ^ i).map (·.2)).isEmpty = false := by
      cases hc : ((lvl.remaining.zipIdx.filter fun p => p.1 ≥ 2 ^ i).map (·.2)) with
      | nil => exact absurd hc hne
      | cons _ _ => rfl
    intro e h
    simp only [placeChunks, hemp, Bool.false_eq_true, if_false, bind, Except.bind, pure, Except.pure] at h
    cases hr : takeNat t with
    | error e0 =>
      rw [hr] at h
      simp only at h
      cases h
      exact takeNat_onlyMiss t _ hr
    | ok r =>
      obtain ⟨x, t1⟩ := r
      rw [hr] at h
      simp only at h
      by_cases hcont : ((lvl.remaining.zipIdx.filter fun p => p.1 ≥ 2 ^ i).map (·.2)).contains x = true
      · have hxc : x ∈ (lvl.remaining.zipIdx.filter fun p => p.1 ≥ 2 ^ i).map (·.2) := by simpa using hcont
        obtain ⟨rx, hrx, hroom⟩ := cands_room _ _ _ hxc
        have hcl0 : c.length ≤ 2 ^ i := hcl c (by simp)
        obtain ⟨i1, i2, i3, i4⟩ := hinv
        have hxr : x < lvl.remaining.length := by
          rcases Nat.lt_or_ge x lvl.remaining.length with h' | h'
          · exact h'
          · rw [List.getElem?_eq_none h'] at hrx; cases hrx
        have hxlt : x < lvl.buckets.length := by rw [i2, ← i1]; exact hxr
        have hxw : x < 256 ^ (cfg.dsz - cfg.dsz / 2) := by
          have : lvl.remaining.length = (sizesOf N (i : Int)).length := by rw [i1, hlev]
          omega
        simp only [hcont, Bool.not_true, Bool.false_eq_true, if_false] at h
        obtain ⟨HT1, hins⟩ := htInsert_ok cfg lv hl hu d hd0 hsha k1 k2 w h1 h2 (count + 1) i x c HT hi hxw
        rw [hins] at h
        simp only at h
        have hinv2 : LInv N (placed + c.length)
            { lev := lvl.lev, remaining := (lvl.remaining.mapIdx fun j r => if j = x then r - c.length else r),
              buckets := addTo lvl.buckets x (c.map fun id => some (w, id)) } := by
          refine ⟨by simp [i1], by simp [addTo, i2], ?_, ?_⟩
          · have s1 := sum_mapIdx_sub lvl.remaining x rx c.length hrx (by omega)
            have s2 := sum_addTo lvl.buckets x (c.map fun id => some (w, id)) hxlt
            simp only [stored] at i3 ⊢
            simp only [List.length_map] at s2
            omega
          · have s2 := sum_addTo lvl.buckets x (c.map fun id => some (w, id)) hxlt
            simp only [stored] at i4 ⊢
            simp only [List.length_map] at s2
            omega
        exact ih (count + 1) (placed + c.length)
          { lev := lvl.lev, remaining := (lvl.remaining.mapIdx fun j r => if j = x then r - c.length else r),
            buckets := addTo lvl.buckets x (c.map fun id => some (w, id)) } HT1 t1 hlev hinv2
          (by simp only [List.map_cons, List.sum_cons] at hN; omega) (fun c' hc' => hcl c' (by simp [hc'])) e h
      · simp only [hcont, Bool.not_false, if_true] at h
        simp [throw, throwThe, MonadExceptOf.throw] at h
        exact h.symm

/-! ### every level of the list has its bucket array -/

omit hl hu hd0 hsha in
theorem getLevel_append_self (acc : List Level) (lvl : Level) (h : getLevel acc lvl.lev = none) :
    getLevel (acc ++ [lvl]) lvl.lev = some lvl := by
  unfold getLevel at h ⊢
  rw [List.find?_append, h]
  simp [List.find?_cons]

omit hl hu hd0 hsha in
theorem getLevel_append_ne (acc : List Level) (lvl : Level) (j : Int) (l : Level) (h : getLevel acc j = some l) :
    getLevel (acc ++ [lvl]) j = some l := by
  unfold getLevel at h ⊢
  rw [List.find?_append, h]; rfl

omit hl hu hd0 hsha in
theorem initLevels_has (N : Nat) (levels : List Int) (acc ls : List Level) (h : initLevels N levels acc = .ok ls) :
    (∀ j l, getLevel acc j = some l → ∃ l', getLevel ls j = some l') ∧ ∀ i ∈ levels, ∃ l, getLevel ls i = some l := by
  induction levels generalizing acc with
  | nil => simp [initLevels] at h; subst h; exact ⟨fun j l hl => ⟨l, hl⟩, fun i hi => by cases hi⟩
  | cons i rest ih =>
    simp only [initLevels] at h
    split at h
    · cases h
    · generalize hlv : ({ lev := i, remaining := (divideToBuckets (2 * N + 2 ^ (i + 1).toNat) (2 ^ (i + 1).toNat)).1,
                          buckets := (divideToBuckets (2 * N + 2 ^ (i + 1).toNat) (2 ^ (i + 1).toNat)).2 } : Level) = lvl at h
      have hlev : lvl.lev = i := by rw [← hlv]
      obtain ⟨r1, r2⟩ := ih _ h
      -- after this step level `i` exists, and every level that existed still does
      have hstep : (∃ l, getLevel (if (getLevel acc i).isSome then setLevel acc lvl else acc ++ [lvl]) i = some l) ∧
          ∀ j l, getLevel acc j = some l → ∃ l', getLevel (if (getLevel acc i).isSome then setLevel acc lvl else acc ++ [lvl]) j = some l' := by
        cases hg : getLevel acc i with
        | some l0 =>
          simp only [Option.isSome_some, if_true]
          refine ⟨⟨lvl, by rw [← hlev]; exact getLevel_setLevel_eq acc lvl (by rw [hlev]; exact hg)⟩, ?_⟩
          intro j l hl'
          by_cases hj : j = lvl.lev
          · subst hj; exact ⟨lvl, getLevel_setLevel_eq acc lvl hl'⟩
          · exact ⟨l, by rw [getLevel_setLevel_ne acc lvl j hj]; exact hl'⟩
        | none =>
          simp only [Option.isSome_none, Bool.false_eq_true, if_false]
          refine ⟨⟨lvl, by rw [← hlev]; exact getLevel_append_self acc lvl (by rw [hlev]; exact hg)⟩, ?_⟩
          intro j l hl'
          exact ⟨l, getLevel_append_ne acc lvl j l hl'⟩
      refine ⟨fun j l hl' => ?_, fun i' hi' => ?_⟩
      · obtain ⟨l', hl''⟩ := hstep.2 j l hl'
        exact r1 j l' hl''
      · simp only [List.mem_cons] at hi'
        rcases hi' with rfl | hi'
        · obtain ⟨l, hl'⟩ := hstep.1
          exact r1 _ l hl'
        · exact r2 i' hi'

omit hl hu hd0 hsha in
theorem setLevel_keeps (ls : List Level) (lvl : Level) (j : Int) (l : Level) (h : getLevel ls j = some l) :
    ∃ l', getLevel (setLevel ls lvl) j = some l' := by
  by_cases hj : j = lvl.lev
  · subst hj; exact ⟨lvl, getLevel_setLevel_eq ls lvl h⟩
  · exact ⟨l, by rw [getLevel_setLevel_ne ls lvl j hj]; exact h⟩

/-! ### `_Enc` -/

theorem encDb_onlyMiss (N : Nat) (k1 k2 : Bytes) (h1 : (k1.length : Int) = cfg.lambda) (h2 : (k2.length : Int) = cfg.lambda)
    (levels : List Int) (db : DB) (placed : Nat) (ls : List Level) (HT : Table) (t : Tape)
    (hinv : ∀ l ∈ ls, LInv N placed l) (hN : placed + db.total ≤ N)
    (hhas : ∀ i ∈ levels, ∃ l, getLevel ls i = some l)
    (hfa : ∀ p ∈ db, ∃ i : Nat, findAdjacent cfg levels p.2.length = .ok (i : Int))
    (hw : ∀ i : Nat, (i : Int) ∈ levels → i < 256 ^ (cfg.dsz / 2) ∧ (sizesOf N (i : Int)).length ≤ 256 ^ (cfg.dsz - cfg.dsz / 2)) :
    OnlyMiss (encDb cfg lv k1 k2 levels db ls HT t) ∧
    ∀ ls' HT' t', encDb cfg lv k1 k2 levels db ls HT t = .ok (ls', HT', t') →
      (∀ l ∈ ls', LInv N (placed + db.total) l) ∧ ∀ i ∈ levels, ∃ l, getLevel ls' i = some l := by
  induction db generalizing placed ls HT t with
  | nil =>
    refine ⟨OnlyMiss.pure _, ?_⟩
    intro ls' HT' t' h
    simp [encDb] at h
    obtain ⟨rfl, _, _⟩ := h
    exact ⟨by simpa [DB.total] using hinv, hhas⟩
  | cons q rest ih =>
    obtain ⟨w0, ids0⟩ := q
    obtain ⟨i, hi⟩ := hfa (w0, ids0) (by simp)
    simp only at hi
    have himem : (i : Int) ∈ levels := findLoop_mem cfg levels _ _ _ _ _ hi
    obtain ⟨lvl, hget⟩ := hhas _ himem
    have hmem := getLevel_mem ls _ lvl hget
    have hlev := getLevel_lev ls _ lvl hget
    have hgE : getLevelE ls (i : Int) = .ok lvl := by simp [getLevelE, hget]
    have hch : ∃ cw, chunks ids0 (2 ^ i) = .ok cw := by
      unfold chunks
      have : ((2 : Nat) ^ i == 0) = false := by simp
      simp [this]
    obtain ⟨cw, hc⟩ := hch
    obtain ⟨hflat, _, _, _⟩ := chunks_spec ids0 _ cw hc
    have hcl : ∀ c ∈ cw, c.length ≤ 2 ^ i := by
      intro c hcm
      unfold chunks at hc
      split at hc
      · cases hc
      · cases hc
        exact (chunksFuel_mem_length _ (Nat.two_pow_pos _) _ _ (Nat.le_refl _) c hcm).2
    have hsum : (cw.map List.length).sum = ids0.length := by rw [sum_flatten_length, hflat]
    have htot : DB.total ((w0, ids0) :: rest) = ids0.length + DB.total rest := by simp [DB.total]
    obtain ⟨wi, wx⟩ := hw i himem
    have hpm := placeChunks_onlyMiss cfg lv hl hu d hd0 hsha N k1 k2 w0 h1 h2 i cw 0 placed lvl HT t hlev (hinv lvl hmem)
      (by rw [hsum]; rw [htot] at hN; omega) hcl wi wx
    obtain ⟨_, r2⟩ := placeChunks_room cfg lv N k1 k2 w0 i cw 0 placed lvl HT t hlev (hinv lvl hmem)
      (by rw [hsum]; rw [htot] at hN; omega) hcl
      (fun count x c HT e => htInsert_noIndexError cfg lv d hd0 hsha k1 k2 w0 count i x c HT e)
    have hnn : ¬ ((i : Int) < 0) := by omega
    have hstep : ∀ lvl1 HT1 t1, placeChunks cfg lv k1 k2 w0 i cw 0 lvl HT t = .ok (lvl1, HT1, t1) →
        (∀ l ∈ setLevel ls lvl1, LInv N (placed + ids0.length) l) ∧ ∀ j ∈ levels, ∃ l, getLevel (setLevel ls lvl1) j = some l := by
      intro lvl1 HT1 t1 hp
      obtain ⟨a1, a2⟩ := r2 lvl1 HT1 t1 hp
      rw [hsum] at a2
      refine ⟨?_, fun j hj => by obtain ⟨l, hl'⟩ := hhas j hj; exact setLevel_keeps ls lvl1 j l hl'⟩
      intro l hl'
      unfold setLevel at hl'
      simp only [List.mem_map] at hl'
      obtain ⟨a, ha, rfl⟩ := hl'
      split
      · exact a2
      · exact (hinv a ha).mono (by omega)
    refine ⟨?_, ?_⟩
    · intro e h
      simp only [encDb, hi, bind, Except.bind, hnn, if_false, pure, Except.pure, Int.toNat_natCast, hgE, hc] at h
      cases hp : placeChunks cfg lv k1 k2 w0 i cw 0 lvl HT t with
      | error e0 =>
        rw [hp] at h; simp only at h; cases h
        exact hpm _ hp
      | ok r =>
        obtain ⟨lvl1, HT1, t1⟩ := r
        rw [hp] at h; simp only at h
        obtain ⟨b1, b2⟩ := hstep lvl1 HT1 t1 hp
        exact (ih (placed + ids0.length) (setLevel ls lvl1) HT1 t1 b1 (by rw [htot] at hN; omega) b2
          (fun p hp' => hfa p (by simp [hp']))).1 e h
    · intro ls' HT' t' h
      simp only [encDb, hi, bind, Except.bind, hnn, if_false, pure, Except.pure, Int.toNat_natCast, hgE, hc] at h
      cases hp : placeChunks cfg lv k1 k2 w0 i cw 0 lvl HT t with
      | error e0 => rw [hp] at h; simp only at h; cases h
      | ok r =>
        obtain ⟨lvl1, HT1, t1⟩ := r
        rw [hp] at h; simp only at h
        obtain ⟨b1, b2⟩ := hstep lvl1 HT1 t1 hp
        have := (ih (placed + ids0.length) (setLevel ls lvl1) HT1 t1 b1 (by rw [htot] at hN; omega) b2
          (fun p hp' => hfa p (by simp [hp']))).2 ls' HT' t' h
        rw [htot]
        have e : placed + (ids0.length + DB.total rest) = placed + ids0.length + DB.total rest := by omega
        rw [e]; exact this

/-! ### fillers, shuffling, encryption -/

omit hl hu hd0 hsha in
theorem fillHT_onlyMiss (dd n : Nat) (T : Table) (t : Tape) : OnlyMiss (fillHT dd n T t) := by
  induction n generalizing T t with
  | zero => exact OnlyMiss.pure _
  | succ m ih =>
    unfold fillHT
    apply OnlyMiss.bind (takeBytes_onlyMiss dd t)
    intro ⟨v, t1⟩ _
    apply OnlyMiss.bind (takeBytes_onlyMiss dd t1)
    intro ⟨k, t2⟩ _
    exact ih _ t2

omit hd0 hsha in
theorem encBucket_onlyMiss (k3 : Bytes) (h3 : (k3.length : Int) = cfg.lambda) (es : List Entry) (t : Tape) :
    OnlyMiss (encBucket cfg lv k3 es t) := by
  induction es generalizing t with
  | nil => exact OnlyMiss.pure _
  | cons e rest ih =>
    cases e with
    | none =>
      unfold encBucket
      apply OnlyMiss.bind (takeBytes_onlyMiss _ t)
      intro ⟨r, t1⟩ _
      apply OnlyMiss.bind (ih t1)
      intro ⟨more, t2⟩ _
      exact OnlyMiss.pure _
    | some p =>
      obtain ⟨w, id⟩ := p
      unfold encBucket
      obtain ⟨etag, het, hel⟩ := prf_call cfg lv hl hu k3 w h3
      apply OnlyMiss.bind (by rw [het]; exact OnlyMiss.pure _)
      intro etag' het'
      rw [het] at het'; cases het'
      apply OnlyMiss.bind (skeEncrypt_onlyMiss cfg.rnd lv hu.plain etag _ t (by rw [hel, hu.rndKey]))
      intro ⟨c, t1⟩ _
      apply OnlyMiss.bind (ih t1)
      intro ⟨more, t2⟩ _
      exact OnlyMiss.pure _

omit hl hu hd0 hsha in
theorem mapM_onlyMiss {α β : Type} (f : α → Except Err β) (hf : ∀ a, OnlyMiss (f a)) (l : List α) : OnlyMiss (l.mapM f) := by
  induction l with
  | nil => exact OnlyMiss.pure _
  | cons p ps ih =>
    rw [List.mapM_cons]
    apply OnlyMiss.bind (hf p)
    intro y _
    apply OnlyMiss.bind ih
    intro ys _
    exact OnlyMiss.pure _

omit hl hu hd0 hsha in
theorem permute_onlyMiss {α : Type} (l : List α) (perm : List Nat) : OnlyMiss (permute l perm) := by
  unfold permute
  split
  · intro e h; cases h; rfl
  · apply mapM_onlyMiss
    intro i e h
    cases hi : l[i]? with
    | none => rw [hi] at h; cases h; rfl
    | some x => rw [hi] at h; cases h

omit hd0 hsha in
theorem finishBuckets_onlyMiss (k3 : Bytes) (h3 : (k3.length : Int) = cfg.lambda) (bks : List (List Entry)) (rems : List Nat)
    (t : Tape) : OnlyMiss (finishBuckets cfg lv k3 bks rems t) := by
  induction bks generalizing rems t with
  | nil => exact OnlyMiss.pure _
  | cons b rest ih =>
    unfold finishBuckets
    dsimp only
    intro e h
    cases hs : takeNats t with
    | error e' =>
      rw [hs] at h
      simp only [bind, Except.bind] at h
      cases h
      unfold takeNats at hs
      split at hs <;> cases hs; rfl
    | ok r =>
      obtain ⟨perm, t1⟩ := r
      rw [hs] at h
      simp only [bind, Except.bind] at h
      cases hp : permute (b ++ List.replicate (rems.headD 0) none) perm with
      | error e' =>
        rw [hp] at h; simp only at h; cases h
        exact permute_onlyMiss _ _ _ hp
      | ok shuffled =>
        rw [hp] at h; simp only at h
        cases he : encBucket cfg lv k3 shuffled t1 with
        | error e' =>
          rw [he] at h; simp only at h; cases h
          exact encBucket_onlyMiss cfg lv hl hu k3 h3 shuffled t1 _ he
        | ok r2 =>
          obtain ⟨cs, t2⟩ := r2
          rw [he] at h; simp only at h
          cases hr : finishBuckets cfg lv k3 rest rems.tail t2 with
          | error e' =>
            rw [hr] at h; simp only at h; cases h
            exact ih rems.tail t2 _ hr
          | ok r3 =>
            rw [hr] at h
            simp only [pure, Except.pure] at h
            cases h

omit hd0 hsha in
theorem finishLevels_onlyMiss (k3 : Bytes) (h3 : (k3.length : Int) = cfg.lambda) (lvls : List Int) (ls : List Level)
    (A : List (Int × List Bytes)) (t : Tape) (hhas : ∀ i ∈ lvls, ∃ l, getLevel ls i = some l) :
    OnlyMiss (finishLevels cfg lv k3 lvls ls A t) := by
  induction lvls generalizing ls A t with
  | nil => exact OnlyMiss.pure _
  | cons i rest ih =>
    obtain ⟨lvl, hget⟩ := hhas i (by simp)
    have hgE : getLevelE ls i = .ok lvl := by simp [getLevelE, hget]
    unfold finishLevels
    apply OnlyMiss.bind (by rw [hgE]; exact OnlyMiss.pure _)
    intro lvl' hl'
    rw [hgE] at hl'; cases hl'
    apply OnlyMiss.bind (finishBuckets_onlyMiss cfg lv hl hu k3 h3 lvl.buckets lvl.remaining t)
    intro ⟨bs, arr, t1⟩ _
    apply ih
    intro j hj
    obtain ⟨l, hl''⟩ := hhas j (by simp [hj])
    exact setLevel_keeps ls _ j l hl''

/-- DP17: `EDBSetup` can only fail by exhausting the recorded randomness -/
theorem setup_onlyMiss (k1 k2 k3 : Bytes) (h1 : (k1.length : Int) = cfg.lambda) (h2 : (k2.length : Int) = cfg.lambda)
    (h3 : (k3.length : Int) = cfg.lambda) (db : DB) (t : Tape) (hN : db.total ≠ 0)
    (hlv : ∀ levels, levelsOf cfg db.total = .ok levels →
      (∀ i ∈ levels, 0 ≤ i) ∧
      (∀ p ∈ db, ∃ i : Nat, findAdjacent cfg levels p.2.length = .ok (i : Int)) ∧
      ∀ i : Nat, (i : Int) ∈ levels → i < 256 ^ (cfg.dsz / 2) ∧ (sizesOf db.total (i : Int)).length ≤ 256 ^ (cfg.dsz - cfg.dsz / 2)) :
    OnlyMiss (setup cfg lv [k1, k2, k3] db t) := by
  unfold setup
  dsimp only
  split
  · rename_i h0; exact absurd h0 hN
  · cases hlevels : levelsOf cfg db.total with
    | error e0 => simp [levelsOf, pure, Except.pure] at hlevels
    | ok levels =>
      obtain ⟨hnn, hfa, hw⟩ := hlv levels hlevels
      simp only [bind, Except.bind]
      intro e h
      cases hinit : initLevels db.total levels [] with
      | error e0 =>
        -- initLevels fails only for a level below -1
        exfalso
        have : ∀ (lv' : List Int) (acc : List Level), (∀ i ∈ lv', 0 ≤ i) → ∀ e, initLevels db.total lv' acc ≠ .error e := by
          intro lv'
          induction lv' with
          | nil => intro acc _ e h; simp [initLevels] at h
          | cons i rest ih =>
            intro acc hnn' e h
            simp only [initLevels] at h
            have : ¬ i + 1 < 0 := by have := hnn' i (by simp); omega
            simp only [this, if_false] at h
            exact ih _ (fun j hj => hnn' j (by simp [hj])) e h
        exact this levels [] hnn e0 hinit
      | ok ls0 =>
        rw [hinit] at h; simp only at h
        have hinv0 := initLevels_linv db.total levels [] ls0 hinit (fun l hl' => by cases hl')
        have hhas0 := (initLevels_has db.total levels [] ls0 hinit).2
        obtain ⟨e1, e2⟩ := encDb_onlyMiss cfg lv hl hu d hd0 hsha db.total k1 k2 h1 h2 levels db 0 ls0 [] t hinv0 (by omega)
          hhas0 hfa hw
        cases henc : encDb cfg lv k1 k2 levels db ls0 [] t with
        | error e0 =>
          rw [henc] at h; simp only at h; cases h
          exact e1 _ henc
        | ok r =>
          obtain ⟨ls1, HT, t1⟩ := r
          rw [henc] at h; simp only at h
          obtain ⟨_, hhas1⟩ := e2 ls1 HT t1 henc
          cases hfill : fillHT cfg.dsz (db.total - HT.length) HT t1 with
          | error e0 =>
            rw [hfill] at h; simp only at h; cases h
            exact fillHT_onlyMiss _ _ _ _ _ hfill
          | ok r2 =>
            obtain ⟨HT', t2⟩ := r2
            rw [hfill] at h; simp only at h
            cases hfin : finishLevels cfg lv k3 levels ls1 [] t2 with
            | error e0 =>
              rw [hfin] at h; simp only at h; cases h
              exact finishLevels_onlyMiss cfg lv hl hu k3 h3 levels ls1 [] t2 hhas1 _ hfin
            | ok r3 =>
              rw [hfin] at h
              simp only [pure, Except.pure] at h
              cases h

omit hl hu hd0 hsha in
/-- every accepted configuration is usable, and `param_L` is positive -/
theorem cfgBuild_usable (raw : RawCfg) (h : DP17.cfgBuild raw = .ok cfg) : Usable cfg ∧ 0 < cfg.L := by
  obtain ⟨hplain, hlam, _⟩ := cfgBuild_ok cfg raw h
  unfold DP17.cfgBuild at h
  simp only [bind, Except.bind] at h
  repeat' (split at h)
  all_goals (try (cases h; done))
  all_goals (try (simp only [pure, Except.pure] at h))
  all_goals (try (simp [throw, throwThe, MonadExceptOf.throw] at h; done))
  all_goals (
    have hpL : ∀ L, getInt raw "param_L" = .ok L → 0 < L := fun L hg =>
      param_pos _ raw "param_L" L ‹checkParamPositive raw = Except.ok _› ‹checkParamExist _ raw = Except.ok _›
        (by decide +kernel) (by simp) hg
    have hL := hpL _ ‹getInt raw "param_L" = Except.ok _›
    have hske := ‹AESxCBC.new _ = Except.ok _›
    cases h
    simp only at hlam hL ⊢
    have hk := new_keyLength _ _ hske
    refine ⟨⟨hplain, (new_plain _ _ hske).2, rfl, rfl, ?_, rfl, by simp only; omega⟩, hL⟩
    simp only [HmacPRF.new]
    split
    · rename_i h0; simp [LENGTH_NOT_GIVEN] at h0; omega
    · rfl)

end SSEPy.Sch.DP17
