/-
  CT14: the SHAPE of the index is a function of t = ⌈log2 N⌉ only.
  Level j of the padded index has exactly 2^(t-j) entries: a keyword puts at most one chunk of 2^j identifiers on level j,
  2^j ≤ its list length, and there are 2^t identifiers in all; every entry of level j has the same label length and the
  same value length (2^j ciphertexts of one identifier).
-/
import SSEPyVerif.Proofs.Schemes.CT14
import SSEPyVerif.Proofs.Schemes.ANSS16Shape
namespace SSEPy.Sch.CT14
open SSEPy.Sch SSEPy.Sch.ANSS16

variable (cfg : CT14Cfg) (lv : Leaves)

/-- one keyword adds, on every level it has not passed yet, at most one chunk, and the chunk fits into what is left of
    the list -/
theorem chunkLoop_levelLen (Kw0 Kw1 : Bytes) (ids : List Bytes) (j1 c : Nat) (Ls : List (List (Bytes × Bytes))) (t : Tape)
    (Ls' : List (List (Bytes × Bytes))) (t' : Tape) (h : chunkLoop cfg lv Kw0 Kw1 ids j1 c Ls t = .ok (Ls', t')) :
    Ls'.length = Ls.length ∧
    ∀ p, levelLen Ls' p * 2 ^ p ≤ levelLen Ls p * 2 ^ p + (if p < j1 then ids.length - c else 0) := by
  induction j1 generalizing c Ls t with
  | zero =>
    simp [chunkLoop] at h
    obtain ⟨rfl, _⟩ := h
    exact ⟨rfl, fun p => by simp⟩
  | succ j ih =>
    simp only [chunkLoop] at h
    split at h
    · obtain ⟨i1, i2⟩ := ih _ _ _ h
      refine ⟨i1, fun p => ?_⟩
      have := i2 p
      by_cases hp : p < j
      · have : p < j + 1 := by omega
        simp_all
      · simp only [hp, if_false] at this
        split <;> omega
    · rename_i hfit
      simp only [bind, Except.bind] at h
      split at h
      · cases h
      · rename_i r1 hr1
        obtain ⟨cs, t1⟩ := r1
        simp only at h
        split at h
        · cases h
        · rename_i l hl
          split at h
          · cases h
          · rename_i Ls1 hpush
            obtain ⟨i1, i2⟩ := ih _ _ _ h
            refine ⟨by rw [i1, pushAt_length _ _ _ _ hpush], fun p => ?_⟩
            have := i2 p
            rw [pushAt_levelLen Ls j _ Ls1 hpush p] at this
            have hle : 2 ^ j ≤ ids.length - c := by omega
            by_cases hp : p = j
            · subst hp
              simp only [Nat.lt_irrefl, if_false, if_true, Nat.add_mul, Nat.one_mul, Nat.add_zero] at this
              have : p < p + 1 := by omega
              simp only [this, if_true]
              omega
            · simp only [hp, if_false, Nat.add_zero] at this
              by_cases hpj : p < j
              · have h1 : p < j + 1 := by omega
                simp only [hpj, if_true] at this
                simp only [h1, if_true]
                have hmono : ids.length - (c + 2 ^ j) ≤ ids.length - c := Nat.sub_le_sub_left (Nat.le_add_right _ _) _
                omega
              · have h1 : ¬ p < j + 1 := by omega
                simp only [hpj, if_false] at this
                simp only [h1, if_false]
                exact this

theorem encDb_levelLen (K : Bytes) (db : DB) (Ls : List (List (Bytes × Bytes))) (t : Tape)
    (Ls' : List (List (Bytes × Bytes))) (t' : Tape) (h : encDb cfg lv K db Ls t = .ok (Ls', t')) :
    Ls'.length = Ls.length ∧ ∀ p, levelLen Ls' p * 2 ^ p ≤ levelLen Ls p * 2 ^ p + db.total := by
  induction db generalizing Ls t with
  | nil =>
    simp [encDb] at h
    obtain ⟨rfl, _⟩ := h
    exact ⟨rfl, fun p => by simp [DB.total]⟩
  | cons q rest ih =>
    obtain ⟨w0, ids0⟩ := q
    simp only [encDb, bind, Except.bind] at h
    split at h
    · cases h
    · rename_i tk htk
      obtain ⟨Kw0, Kw1⟩ := tk
      simp only at h
      split at h
      · simp [throw, throwThe, MonadExceptOf.throw] at h
      · try simp only [pure, Except.pure] at h
        split at h
        · cases h
        · rename_i r hr
          obtain ⟨Ls1, t1⟩ := r
          simp only at h
          obtain ⟨c1, c2⟩ := chunkLoop_levelLen cfg lv _ _ _ _ _ _ _ _ _ hr
          obtain ⟨i1, i2⟩ := ih _ _ h
          refine ⟨by rw [i1, c1], fun p => ?_⟩
          have a := i2 p
          have b := c2 p
          simp only [DB.total, List.map_cons, List.sum_cons] at a ⊢
          have : (if p < Nat.log2 ids0.length + 1 then ids0.length - 0 else 0) ≤ ids0.length := by split <;> omega
          omega

/-! ### lengths of the entries -/

variable (hE : ∀ key x : Bytes, x.length = 16 → (lv.E key x).length = 16)
include hE

theorem ske_len (key msg : Bytes) (t t' : Tape) (c : Bytes) (h : skeEncrypt cfg.ske lv key msg t = .ok (c, t')) :
    c.length = 16 + 16 * (msg.length / 16 + 1) := by
  obtain ⟨iv, hr, hc⟩ := skeEncrypt_ok h
  exact C14.enc_len cfg.ske lv.E key iv msg c (hE key) (Chain.takeBytes_len hr) hc

/-- ciphertext length of one identifier -/
def clen : Nat := 16 + 16 * (cfg.idSize.toNat / 16 + 1)

theorem cipherLen_spec (keyLen idSize : Int) (t t' : Tape) (n : Nat)
    (h : CT14.cipherLen cfg.ske lv keyLen idSize t = .ok (n, t')) : n = 16 + 16 * (idSize.toNat / 16 + 1) := by
  simp only [CT14.cipherLen, bind, Except.bind] at h
  split at h
  · cases h
  · rename_i r hr
    obtain ⟨c, t1⟩ := r
    simp only [pure, Except.pure] at h
    cases h
    have := ske_len cfg lv hE _ _ _ _ _ hr
    simpa [zeros] using this

variable (hd : ∀ k m, (lv.hmac k m).length = 20) (hlpos : 0 < cfg.l) (hprf : cfg.prfFPrime.outputLength = cfg.l)
  (hhash : cfg.prfFPrime.hashLen = 20)
include hd hlpos hprf hhash

theorem chunkLoop_lens (Kw0 Kw1 : Bytes) (ids : List Bytes) (j1 c : Nat) (Ls : List (List (Bytes × Bytes))) (t : Tape)
    (Ls' : List (List (Bytes × Bytes))) (t' : Tape) (h : chunkLoop cfg lv Kw0 Kw1 ids j1 c Ls t = .ok (Ls', t'))
    (hids : ∀ x ∈ ids, x.length = cfg.idSize.toNat)
    (h0 : ∀ p L, Ls[p]? = some L → EntLens L cfg.l.toNat (2 ^ p * clen cfg)) :
    ∀ p L, Ls'[p]? = some L → EntLens L cfg.l.toNat (2 ^ p * clen cfg) := by
  induction j1 generalizing c Ls t with
  | zero =>
    simp [chunkLoop] at h
    obtain ⟨rfl, _⟩ := h
    exact h0
  | succ j ih =>
    simp only [chunkLoop] at h
    split at h
    · exact ih _ _ _ h h0
    · rename_i hfit
      simp only [bind, Except.bind] at h
      split at h
      · cases h
      · rename_i r1 hr1
        obtain ⟨cs, t1⟩ := r1
        simp only at h
        split at h
        · cases h
        · rename_i l hl
          split at h
          · cases h
          · rename_i Ls1 hpush
            apply ih _ _ _ h
            have hsub : ∀ x ∈ (ids.drop c).take (2 ^ j), x.length = cfg.idSize.toNat :=
              fun x hx => hids x (List.mem_of_mem_drop (List.mem_of_mem_take hx))
            have hcl := encAll_lens cfg.ske lv hE Kw1 _ _ _ _ hr1 _ hsub
            have hcn : cs.length = 2 ^ j := by
              rw [encAll_len lv cfg.ske Kw1 _ _ _ _ hr1, List.length_take, List.length_drop]
              omega
            have hflat : cs.flatten.length = 2 ^ j * clen cfg := by
              rw [flatten_length_of_all _ cs hcl, hcn]; rfl
            have hll : l.length = cfg.l.toNat := by
              have := (prf_ok cfg.prfFPrime lv.hmac (by rw [hhash]; exact hd) (by rw [hhash]; decide) Kw0 _ l hl).1
              rw [this, hprf]
            intro p L hL
            unfold pushAt at hpush
            split at hpush
            · cases hpush
            · rename_i l0 hl0
              cases hpush
              by_cases hp : p = j
              · subst hp
                have hlt : p < Ls.length := by
                  rcases Nat.lt_or_ge p Ls.length with h | h
                  · exact h
                  · rw [List.getElem?_eq_none h] at hl0; cases hl0
                rw [List.getElem?_set_self hlt] at hL
                cases hL
                intro e he
                simp only [List.mem_append, List.mem_singleton] at he
                rcases he with he | rfl
                · exact h0 _ l0 hl0 e he
                · exact ⟨hll, hflat⟩
              · rw [List.getElem?_set_ne (fun e => hp e.symm)] at hL
                exact h0 p L hL

theorem encDb_lens (K : Bytes) (db : DB) (Ls : List (List (Bytes × Bytes))) (t : Tape)
    (Ls' : List (List (Bytes × Bytes))) (t' : Tape) (h : encDb cfg lv K db Ls t = .ok (Ls', t'))
    (hids : ∀ p ∈ db, ∀ x ∈ p.2, x.length = cfg.idSize.toNat)
    (h0 : ∀ p L, Ls[p]? = some L → EntLens L cfg.l.toNat (2 ^ p * clen cfg)) :
    ∀ p L, Ls'[p]? = some L → EntLens L cfg.l.toNat (2 ^ p * clen cfg) := by
  induction db generalizing Ls t with
  | nil =>
    simp [encDb] at h
    obtain ⟨rfl, _⟩ := h
    exact h0
  | cons q rest ih =>
    obtain ⟨w0, ids0⟩ := q
    simp only [encDb, bind, Except.bind] at h
    split at h
    · cases h
    · rename_i tk htk
      obtain ⟨Kw0, Kw1⟩ := tk
      simp only at h
      split at h
      · simp [throw, throwThe, MonadExceptOf.throw] at h
      · try simp only [pure, Except.pure] at h
        split at h
        · cases h
        · rename_i r hr
          obtain ⟨Ls1, t1⟩ := r
          simp only at h
          exact ih _ _ h (fun p hp => hids p (by simp [hp]))
            (chunkLoop_lens cfg lv hE hd hlpos hprf hhash _ _ _ _ _ _ _ _ _ hr (hids (w0, ids0) (by simp)) h0)

omit hd hlpos hprf hhash in
/-- padding a level that is within its capacity fills it exactly, with entries of the level's lengths -/
theorem padLevels_shape (tt i : Nat) (Ts : List (List (Bytes × Bytes))) (t : Tape) (Ts' : List (List (Bytes × Bytes)))
    (t' : Tape) (h : padLevels cfg lv tt i Ts t = .ok (Ts', t'))
    (hb : ∀ j L, Ts[j]? = some L → L.length ≤ 2 ^ (tt - (i + j)) ∧ EntLens L cfg.l.toNat (2 ^ (i + j) * clen cfg)) :
    ∀ j L', Ts'[j]? = some L' → L'.length = 2 ^ (tt - (i + j)) ∧ EntLens L' cfg.l.toNat (2 ^ (i + j) * clen cfg) := by
  induction Ts generalizing i t Ts' with
  | nil => simp [padLevels] at h; cases h.1; intro j L' hj; simp at hj
  | cons L rest ih =>
    simp only [padLevels, bind, Except.bind] at h
    split at h
    · cases h
    · rename_i r hr
      obtain ⟨cl, t1⟩ := r
      simp only at h
      split at h
      · cases h
      · rename_i r2 hr2
        obtain ⟨fs, t2⟩ := r2
        simp only at h
        split at h
        · cases h
        · rename_i r3 hr3
          obtain ⟨more, t3⟩ := r3
          simp only [pure, Except.pure] at h
          cases h
          have hcl : cl = clen cfg := cipherLen_spec cfg lv hE _ _ _ _ _ hr
          subst hcl
          obtain ⟨f1, f2⟩ := fillers_spec _ _ _ _ _ _ hr2
          obtain ⟨b1, b2⟩ := hb 0 L (by simp)
          have hrest := ih (i + 1) t2 more hr3 (fun j L0 hj => by
            have := hb (j + 1) L0 (by simpa using hj)
            have e : i + (j + 1) = i + 1 + j := by omega
            rw [e] at this; exact this)
          intro j L' hj
          cases j with
          | zero =>
            simp only [List.getElem?_cons_zero, Option.some.injEq] at hj
            subst hj
            simp only [Nat.add_zero] at b1 b2 ⊢
            refine ⟨by rw [List.length_append, f1]; omega, ?_⟩
            intro e he
            simp only [List.mem_append] at he
            rcases he with he | he
            · exact b2 e he
            · exact f2 e he
          | succ j' =>
            simp only [List.getElem?_cons_succ] at hj
            have := hrest j' L' hj
            have e : i + (j' + 1) = i + 1 + j' := by omega
            rw [e]; exact this

/-- the padded level lists of `_Enc`: `t+1` levels, level `j` with exactly `2^(t-j)` entries of one shape -/
theorem setupLists_shape (K : Bytes) (db : DB) (t : Tape) (TL : List (List (Bytes × Bytes))) (t' : Tape)
    (h : setupLists cfg lv K db t = .ok (TL, t'))
    (hids : ∀ p ∈ db, ∀ x ∈ p.2, x.length = cfg.idSize.toNat) (hfresh : (db.map (·.1) ++ draws32 t).Nodup) :
    TL.length = clog2 db.total + 1 ∧
    ∀ j L, TL[j]? = some L → L.length = 2 ^ (clog2 db.total - j) ∧ EntLens L cfg.l.toNat (2 ^ j * clen cfg) := by
  simp only [setupLists] at h
  split at h
  · simp [throw, throwThe, MonadExceptOf.throw, bind, Except.bind] at h
  · simp only [bind, Except.bind, pure, Except.pure] at h
    split at h
    · cases h
    · rename_i r1 h1
      obtain ⟨pdb, t1⟩ := r1
      simp only at h
      split at h
      · cases h
      · rename_i r2 h2
        obtain ⟨Ls, t2⟩ := r2
        simp only at h
        generalize htt : clog2 db.total = tt at *
        obtain ⟨p1, p2⟩ := padLoop_spec _ _ _ _ _ _ _ _ h1 rfl (by rw [← htt]; exact le_two_pow_clog2 _) hfresh hids
        obtain ⟨c1, c3⟩ := encDb_levelLen cfg lv K pdb _ t1 Ls t2 h2
        have l1 := encDb_lens cfg lv hE hd hlpos hprf hhash K pdb _ t1 Ls t2 h2 p2
          (fun p L hL => by
            rw [List.getElem?_replicate] at hL
            split at hL
            · cases hL; intro e he; cases he
            · cases hL)
        have hLsLen : Ls.length = tt + 1 := by simpa using c1
        have hTLLen := (padLevels_spec cfg lv tt 0 Ls t2 TL t' h).1
        have hshape := padLevels_shape cfg lv hE tt 0 Ls t2 TL t' h (fun j L hL => by
          simp only [Nat.zero_add]
          refine ⟨?_, l1 j L hL⟩
          have hj : j < tt + 1 := by
            rw [← hLsLen]
            rcases Nat.lt_or_ge j Ls.length with h | h
            · exact h
            · rw [List.getElem?_eq_none h] at hL; cases hL
          have := c3 j
          rw [levelLen_replicate, p1] at this
          have hl : levelLen Ls j = L.length := by simp [levelLen, hL]
          rw [hl] at this
          have e : 2 ^ tt = 2 ^ (tt - j) * 2 ^ j := by
            rw [← Nat.pow_add]
            have : tt - j + j = tt := by omega
            rw [this]
          simp only [Nat.zero_mul, Nat.zero_add] at this
          rw [e] at this
          exact Nat.le_of_mul_le_mul_right this (Nat.two_pow_pos j))
        refine ⟨by rw [hTLLen, hLsLen], ?_⟩
        intro j L hL
        have := hshape j L hL
        simpa using this

omit hE hd hlpos hprf hhash in
/-- what the configuration builder guarantees about the label PRF -/
theorem cfgBuild_prf (raw : RawCfg) (h : CT14.cfgBuild raw = .ok cfg) :
    0 < cfg.l ∧ cfg.prfFPrime.outputLength = cfg.l ∧ cfg.prfFPrime.hashLen = 20 := by
  unfold CT14.cfgBuild at h
  simp only [bind, Except.bind] at h
  repeat (split at h; (try cases h))
  all_goals (try (simp only [pure, Except.pure] at h))
  rename_i hp _ _ hx _ k _ _ kp _ _ l hgl _ ids _ _ _ _ _ ske _
  cases h
  have hlp : 0 < l := param_pos _ raw "param_l" l hp hx (by decide +kernel) (by simp) hgl
  refine ⟨hlp, ?_, rfl⟩
  simp only [HmacPRF.new, LENGTH_NOT_GIVEN]
  have : (l == 0) = false := by simp; omega
  simp [this]

end SSEPy.Sch.CT14
