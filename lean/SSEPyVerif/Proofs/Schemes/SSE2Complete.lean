/-
  SSE-2: `EDBSetup` and `TokenGen` always return (SSE-2 draws no randomness): for a key of `param_k` bytes, keywords of at
  most `param_l` bytes and counters below `2^bits(n + max)` every address `π(w ‖ j)` is defined — the keyword fits its
  `8·l`-bit field, the counter its `bits`-bit field, and the PRP is called with exactly the widths it was declared with.
-/
import SSEPyVerif.Proofs.Schemes.SSE2
import SSEPyVerif.Proofs.Schemes.ANSS16
import SSEPyVerif.Proofs.Schemes.ChainCfg
namespace SSEPy.Sch.SSE2
open SSEPy.Sch

variable (cfg : SSE2Cfg) (lv : Leaves)

theorem mk'_ok (v len : Nat) (hlen : len ≠ 0) (hv : v < 2 ^ len) : Bitset.mk' v len = .ok ⟨v, len⟩ := by
  unfold Bitset.mk'
  have hb := (Bitset.bitLength_le_iff v len).mpr hv
  rw [if_neg (by omega), if_pos hlen]

theorem fromBE_lt_of_len (b : Bytes) (n : Nat) (h : b.length ≤ n) : fromBE b < 2 ^ (8 * n) := by
  have h1 := fromBE_lt b
  have e : (256 : Nat) = 2 ^ 8 := by decide
  rw [e, ← Nat.pow_mul] at h1
  exact Nat.lt_of_lt_of_le h1 (Nat.pow_le_pow_right (by decide) (by omega))

/-- the configuration facts the address computation needs -/
structure Usable : Prop where
  kpos : 0 < cfg.k
  lpos : 0 < cfg.l
  bits : 0 < cfg.bitsNM
  bytes : cfg.bitsNM ≤ 8 * cfg.bytesNM

variable (hl : ∀ k m, (lv.hmac k m).length = 20) (hu : Usable cfg)
include hl hu

/-- every address is defined -/
theorem addr_ok (K1 w : Bytes) (hK : (K1.length : Int) = cfg.k) (hw : (w.length : Int) ≤ cfg.l) (j : Nat)
    (hj : j < 2 ^ cfg.bitsNM) : ∃ a, addr cfg lv K1 w (j : Int) = .ok a := by
  have hk8 : (cfg.k * 8).toNat = 8 * cfg.k.toNat := by have := hu.kpos; omega
  have hl8 : (cfg.l * 8).toNat = 8 * cfg.l.toNat := by have := hu.lpos; omega
  have hkey := mk'_ok (fromBE K1) (cfg.k * 8).toNat (by have := hu.kpos; omega)
    (by rw [hk8]; exact fromBE_lt_of_len K1 _ (by have := hu.kpos; omega))
  have hwb := mk'_ok (fromBE w) (cfg.l * 8).toNat (by have := hu.lpos; omega)
    (by rw [hl8]; exact fromBE_lt_of_len w _ (by have := hu.lpos; omega))
  -- the counter bytes
  have hjw : j < 256 ^ cfg.bytesNM := by
    have e : (256 : Nat) = 2 ^ 8 := by decide
    rw [e, ← Nat.pow_mul]
    exact Nat.lt_of_lt_of_le hj (Nat.pow_le_pow_right (by decide) hu.bytes)
  have hjb : ∃ jb, intToBytes (j : Int) cfg.bytesNM = .ok jb ∧ fromBE jb = j := by
    rw [(C17.int_wrapper_agrees j cfg.bytesNM).1]
    have : ∃ jb, intToBytesNat j cfg.bytesNM = .ok jb := by
      unfold intToBytesNat
      have : ¬ j ≥ 256 ^ cfg.bytesNM := by omega
      simp [this]
    obtain ⟨jb, h⟩ := this
    exact ⟨jb, h, (C17.int_roundtrip j cfg.bytesNM jb h).1⟩
  obtain ⟨jb, hjb, hjv⟩ := hjb
  have hcb := mk'_ok (fromBE jb) cfg.bitsNM (by have := hu.bits; omega) (by rw [hjv]; exact hj)
  -- the message `keyword ‖ counter`
  have hmsg := mk'_ok (fromBE w * 2 ^ cfg.bitsNM + fromBE jb) ((cfg.l * 8).toNat + cfg.bitsNM) (by have := hu.bits; omega)
    (by
      rw [hjv, Nat.pow_add]
      have hwlt : fromBE w < 2 ^ (cfg.l * 8).toNat := by
        rw [hl8]; exact fromBE_lt_of_len w _ (by have := hu.lpos; omega)
      calc fromBE w * 2 ^ cfg.bitsNM + j < fromBE w * 2 ^ cfg.bitsNM + 2 ^ cfg.bitsNM := by omega
        _ = (fromBE w + 1) * 2 ^ cfg.bitsNM := by rw [Nat.add_mul, Nat.one_mul]
        _ ≤ 2 ^ (cfg.l * 8).toNat * 2 ^ cfg.bitsNM := Nat.mul_le_mul_right _ hwlt)
  -- the PRP call with the declared widths
  have hkwf : (⟨fromBE K1, (cfg.k * 8).toNat⟩ : Bitset).WF := by
    unfold Bitset.WF; rw [hk8]; exact fromBE_lt_of_len K1 _ (by have := hu.kpos; omega)
  have hmwf : (⟨fromBE w * 2 ^ cfg.bitsNM + fromBE jb, (cfg.l * 8).toNat + cfg.bitsNM⟩ : Bitset).WF := by
    obtain ⟨m1, _, _⟩ := SSE1.mk'_spec _ _ _ hmsg
    exact m1
  obtain ⟨kb, o, _, ho, _, _, _⟩ := C15.bit_prp_is_ffx lv.hmac 20 hl (by decide)
    ⟨fromBE K1, (cfg.k * 8).toNat⟩ ⟨fromBE w * 2 ^ cfg.bitsNM + fromBE jb, (cfg.l * 8).toNat + cfg.bitsNM⟩ hkwf hmwf
    (by simp only; have := hu.bits; have := hu.lpos; omega)
  simp only at ho
  have e1 : (((cfg.l * 8).toNat + cfg.bitsNM : Nat) : Int) = cfg.l * 8 + cfg.bitsNM := by have := hu.lpos; omega
  have e2 : (((cfg.k * 8).toNat : Nat) : Int) = cfg.k * 8 := by have := hu.kpos; omega
  rw [e1, e2] at ho
  exact ⟨o.value, by
    simp [addr, Bitset.ofBytes, hkey, hwb, hjb, hcb, Bitset.concat, hmsg, ho, bind, Except.bind, pure, Except.pure]⟩


/-- the postings of one keyword: counters `j0 … j0 + |ids| - 1` all fit -/
theorem encList_ok (K1 w : Bytes) (hK : (K1.length : Int) = cfg.k) (hw : (w.length : Int) ≤ cfg.l)
    (ids : List Bytes) (j0 : Nat) (hj : j0 + ids.length ≤ 2 ^ cfg.bitsNM) (I : ITable) (cnt : List (Bytes × Nat)) :
    ∃ r, encList cfg lv K1 w j0 ids I cnt = .ok r := by
  induction ids generalizing j0 I cnt with
  | nil => exact ⟨_, rfl⟩
  | cons id rest ih =>
    obtain ⟨a, ha⟩ := addr_ok cfg lv hl hu K1 w hK hw j0 (by simp at hj; omega)
    simp only [encList, ha, bind, Except.bind]
    exact ih (j0 + 1) (by simp at hj; omega) _ _

theorem encDb_ok (K1 : Bytes) (hK : (K1.length : Int) = cfg.k) (db : DB)
    (hdb : ∀ p ∈ db, (p.1.length : Int) ≤ cfg.l ∧ p.2.length < 2 ^ cfg.bitsNM) (I : ITable) (cnt : List (Bytes × Nat)) :
    ∃ r, encDb cfg lv K1 db I cnt = .ok r := by
  induction db generalizing I cnt with
  | nil => exact ⟨_, rfl⟩
  | cons p rest ih =>
    obtain ⟨w, ids⟩ := p
    have hp := hdb (w, ids) (by simp)
    obtain ⟨⟨I1, c1⟩, h1⟩ := encList_ok cfg lv hl hu K1 w hK hp.1 ids 1 (by have := hp.2; simp only at this; omega) I cnt
    simp only [encDb, h1, bind, Except.bind]
    exact ih (fun q hq => hdb q (by simp [hq])) _ _

/-! the per-identifier counters never exceed the number of postings that name the identifier -/

def CntInv (cnt : List (Bytes × Nat)) (seen : List Bytes) : Prop := ∀ p ∈ cnt, p.2 ≤ seen.count p.1

omit hl hu in
theorem encList_cnt (K1 w : Bytes) (ids : List Bytes) (j0 : Nat) (I : ITable) (cnt : List (Bytes × Nat)) (seen : List Bytes)
    (I' : ITable) (cnt' : List (Bytes × Nat)) (h : encList cfg lv K1 w j0 ids I cnt = .ok (I', cnt'))
    (hinv : CntInv cnt seen) : CntInv cnt' (seen ++ ids) := by
  induction ids generalizing j0 I cnt seen with
  | nil => simp [encList] at h; obtain ⟨_, rfl⟩ := h; simpa using hinv
  | cons id rest ih =>
    simp only [encList, bind, Except.bind] at h
    split at h
    · cases h
    · have := ih _ _ _ (seen ++ [id]) h (by
        intro p hp
        split at hp
        · rename_i c hc
          simp only [List.mem_map] at hp
          obtain ⟨q, hq, rfl⟩ := hp
          split
          · rename_i he
            have hmem : (id, c) ∈ cnt := by
              clear h hinv hq ih
              induction cnt with
              | nil => simp at hc
              | cons x xs ihx =>
                obtain ⟨a, b⟩ := x
                simp only [List.lookup_cons] at hc
                split at hc
                · rename_i he; simp at he; cases hc; simp [he]
                · simp [ihx hc]
            have := hinv (id, c) hmem
            simp only [List.count_append, List.count_singleton] at *
            simp only [he] at *
            simp; omega
          · have := hinv q hq
            simp only [List.count_append]
            omega
        · simp only [List.mem_append, List.mem_singleton] at hp
          rcases hp with hp | rfl
          · have := hinv p hp
            simp only [List.count_append]
            omega
          · simp [List.count_append])
      simpa [List.append_assoc] using this

omit hl hu in
theorem encDb_cnt (K1 : Bytes) (db : DB) (I : ITable) (cnt : List (Bytes × Nat)) (seen : List Bytes)
    (I' : ITable) (cnt' : List (Bytes × Nat)) (h : encDb cfg lv K1 db I cnt = .ok (I', cnt'))
    (hinv : CntInv cnt seen) : CntInv cnt' (seen ++ db.flatMap (·.2)) := by
  induction db generalizing I cnt seen with
  | nil => simp [encDb] at h; obtain ⟨_, rfl⟩ := h; simpa using hinv
  | cons p rest ih =>
    obtain ⟨w, ids⟩ := p
    simp only [encDb, bind, Except.bind] at h
    split at h
    · cases h
    · rename_i r hr
      obtain ⟨I1, c1⟩ := r
      have := ih _ _ (seen ++ ids) h (encList_cnt cfg lv K1 w ids 1 I cnt seen I1 c1 hr hinv)
      simpa [List.append_assoc] using this

/-- `EDBSetup` returns: every keyword fits `param_l` bytes, every list is shorter than `2^bits(n + max)`, and no
    identifier occurs more than `param_max` times (the filler loop is then empty) -/
theorem setup_ok (K1 : Bytes) (hK : (K1.length : Int) = cfg.k) (db : DB)
    (hdb : ∀ p ∈ db, (p.1.length : Int) ≤ cfg.l ∧ p.2.length < 2 ^ cfg.bitsNM)
    (hcap : ∀ I0 cnt, encDb cfg lv K1 db [] [] = .ok (I0, cnt) → ∀ p ∈ cnt, p.2 ≤ cfg.max) :
    ∃ I, setup cfg lv K1 db = .ok I := by
  obtain ⟨⟨I0, cnt⟩, h⟩ := encDb_ok cfg lv hl hu K1 hK db hdb [] []
  simp only [setup, h, bind, Except.bind]
  split
  · exact ⟨I0, fillAll_noop cfg lv K1 cnt _ I0 (hcap I0 cnt h)⟩
  · exact ⟨I0, rfl⟩

/-- the same with the capacity stated on the database: no identifier is posted more than `param_max` times -/
theorem setup_ok' (K1 : Bytes) (hK : (K1.length : Int) = cfg.k) (db : DB)
    (hdb : ∀ p ∈ db, (p.1.length : Int) ≤ cfg.l ∧ p.2.length < 2 ^ cfg.bitsNM)
    (hcap : ∀ id, (db.flatMap (·.2)).count id ≤ cfg.max) : ∃ I, setup cfg lv K1 db = .ok I :=
  setup_ok cfg lv hl hu K1 hK db hdb (fun I0 cnt h p hp => by
    have := encDb_cnt cfg lv K1 db [] [] [] I0 cnt h (fun q hq => by cases hq) p hp
    simp only [List.nil_append] at this
    exact Nat.le_trans this (hcap p.1))

theorem tokenLoop_ok (K1 w : Bytes) (hK : (K1.length : Int) = cfg.k) (hw : (w.length : Int) ≤ cfg.l)
    (m i : Nat) (h : i + m ≤ 2 ^ cfg.bitsNM) : ∃ t, tokenLoop cfg lv K1 w m i = .ok t ∧ t.length = m := by
  induction m generalizing i with
  | zero => exact ⟨[], rfl, rfl⟩
  | succ m ih =>
    obtain ⟨a, ha⟩ := addr_ok cfg lv hl hu K1 w hK hw i (by omega)
    obtain ⟨t, ht, hlen⟩ := ih (i + 1) (by omega)
    refine ⟨a :: t, ?_, by simp [hlen]⟩
    simp only [tokenLoop, ha, ht, bind, Except.bind, pure, Except.pure]

/-- `TokenGen` returns `param_n` addresses for every keyword of at most `param_l` bytes -/
theorem token_ok (K1 w : Bytes) (hK : (K1.length : Int) = cfg.k) (hw : (w.length : Int) ≤ cfg.l)
    (hn : cfg.n.toNat < 2 ^ cfg.bitsNM) : ∃ t, token cfg lv K1 w = .ok t ∧ t.length = cfg.n.toNat :=
  tokenLoop_ok cfg lv hl hu K1 w hK hw cfg.n.toNat 1 (by omega)

end SSEPy.Sch.SSE2

namespace SSEPy.Sch

theorem paramMaxLoop_ge (maxSize fuel result kw doc : Nat) : result ≤ paramMaxLoop maxSize fuel result kw doc := by
  induction fuel generalizing result kw doc with
  | zero => simp [paramMaxLoop]
  | succ f ih =>
    simp only [paramMaxLoop]
    split
    · exact Nat.le_add_right _ _
    · exact Nat.le_trans (Nat.le_add_right _ _) (ih (result + 2 ^ (kw * 8)) (kw + 1) (doc + 2 ^ (kw * 8) * kw))

/-- `determine_param_max` of a positive size is positive -/
theorem determineParamMax_pos (m : Nat) (h : 0 < m) : 0 < determineParamMax m := by
  unfold determineParamMax
  rw [show m + 2 = (m + 1) + 1 from rfl]
  simp only [paramMaxLoop]
  split
  · simp; omega
  · have h1 := paramMaxLoop_ge m (m + 1) (0 + 2 ^ (1 * 8)) (1 + 1) (0 + 2 ^ (1 * 8) * 1)
    have h2 : 0 < 0 + 2 ^ (1 * 8) := by decide
    exact Nat.lt_of_lt_of_le h2 h1

theorem bits_facts (n mfs : Int) (hn : 0 < n) (hm : 0 < mfs) :
    0 < clog2 (n.toNat + determineParamMax mfs.toNat) ∧
    clog2 (n.toNat + determineParamMax mfs.toNat) ≤ 8 * ceilDiv (clog2 (n.toNat + determineParamMax mfs.toNat)) 8 ∧
    n.toNat < 2 ^ clog2 (n.toNat + determineParamMax mfs.toNat) := by
  have hmx := determineParamMax_pos mfs.toNat (by omega)
  have hle := ANSS16.le_two_pow_clog2 (n.toNat + determineParamMax mfs.toNat)
  refine ⟨?_, ?_, by omega⟩
  · unfold clog2
    split
    · omega
    · omega
  · unfold ceilDiv
    omega

/-- a configuration that was accepted is usable, and `param_n` fits the counter field -/
theorem SSE2.cfgBuild_usable (raw : RawCfg) (cfg : SSE2Cfg) (h : SSE2.cfgBuild raw = .ok cfg) :
    SSE2.Usable cfg ∧ cfg.n.toNat < 2 ^ cfg.bitsNM ∧ 0 < cfg.n := by
  unfold SSE2.cfgBuild at h
  simp only [bind, Except.bind] at h
  repeat (split at h; (try cases h))
  all_goals (try (simp only [pure, Except.pure] at h))
  all_goals (try cases h)
  all_goals (
    have hp : ∀ f k, f.startsWith "param_" = true → f ∈ ["param_k", "param_l", "param_n", "param_max_file_size"] →
        getInt raw f = .ok k → 0 < k := fun f k h1 h2 hg =>
      param_pos _ raw f k ‹checkParamPositive raw = Except.ok _› ‹checkParamExist _ raw = Except.ok _› h1 h2 hg
    have hk := hp "param_k" _ (by decide +kernel) (by simp) ‹getInt raw "param_k" = Except.ok _›
    have hll := hp "param_l" _ (by decide +kernel) (by simp) ‹getInt raw "param_l" = Except.ok _›
    have hn := hp "param_n" _ (by decide +kernel) (by simp) ‹getInt raw "param_n" = Except.ok _›
    have hm := hp "param_max_file_size" _ (by decide +kernel) (by simp) ‹getInt raw "param_max_file_size" = Except.ok _›
    have hb := bits_facts _ _ hn hm
    exact ⟨⟨hk, hll, hb.1, hb.2.1⟩, hb.2.2, hn⟩)

end SSEPy.Sch
