/-
  What the scheme theorems use of the primitives, discharged from the wrapper theorems of C14–C16:
  the only assumptions left are about the LEAVES (AES block function invertible, 16-byte blocks;
  HMAC digest length).
-/
import SSEPyVerif.Model.Schemes.Common
import SSEPyVerif.Props.C14
import SSEPyVerif.Props.C16
import SSEPyVerif.Props.C17
namespace SSEPy.Sch

/-- assumptions on the leaves: `D_k(E_k(x)) = x` and `|E_k(x)| = 16` on 16-byte blocks; HMAC-SHA1 digests have 20 bytes -/
structure LeafLaws (lv : Leaves) : Prop where
  dec_enc : ∀ key x : Bytes, x.length = 16 → lv.D key (lv.E key x) = x
  enc_len : ∀ key x : Bytes, x.length = 16 → (lv.E key x).length = 16
  hmac_len : ∀ k m, (lv.hmac k m).length = 20

/-- an `AESxCBC` object built as the scheme configurations build it: only `key_length` is given -/
def PlainSke (s : AESxCBC) : Prop := s.cipherLength = -1 ∧ s.messageLength = -1

theorem new_plain (kl : Int) (s : AESxCBC) (h : AESxCBC.new kl = .ok s) : PlainSke s ∧ s.keyLength = kl := by
  unfold AESxCBC.new at h
  split at h
  · cases h
  · split at h
    · cases h
    · cases h; exact ⟨⟨rfl, rfl⟩, rfl⟩

theorem new_keyLength (kl : Int) (s : AESxCBC) (h : AESxCBC.new kl = .ok s) : kl = 16 ∨ kl = 24 ∨ kl = 32 := by
  unfold AESxCBC.new at h
  split at h
  · cases h
  · rename_i hk
    simp at hk
    omega

theorem enc_key_len (s : AESxCBC) (E : BlockFn) (key iv msg c : Bytes) (h : s.encrypt E key iv msg = .ok c) :
    (key.length : Int) = s.keyLength := by
  unfold AESxCBC.encrypt at h
  split at h
  · cases h
  · split at h
    · cases h
    · rename_i hk; simpa using hk

/-- what was encrypted (with a 16-byte IV) decrypts to itself -/
theorem ske_dec_enc (lv : Leaves) (hl : LeafLaws lv) (s : AESxCBC) (hs : PlainSke s) (key iv msg c : Bytes)
    (hiv : iv.length = 16) (h : s.encrypt lv.E key iv msg = .ok c) : s.decrypt lv.D key c = .ok msg := by
  have hk := enc_key_len s lv.E key iv msg c h
  obtain ⟨c', h1, h2⟩ := C14.dec_enc s lv.E lv.D key iv msg (hl.dec_enc key) (hl.enc_len key) hiv
    ⟨hk, Or.inl hs.2⟩ (Or.inl hs.1)
  rw [h] at h1; cases h1; exact h2

/-- a successful PRF call: the key had the declared length and the output has the declared length -/
theorem prf_ok (p : HmacPRF) (hmac : Hmac) (hd : ∀ k m, (hmac k m).length = p.hashLen) (h0 : 0 < p.hashLen)
    (key msg out : Bytes) (h : p.call hmac key msg = .ok out) :
    out.length = p.outputLength.toNat ∧ (p.keyLength = -1 ∨ (key.length : Int) = p.keyLength) := by
  unfold HmacPRF.call at h
  by_cases hk : (p.keyLength != LENGTH_UNLIMITED && (key.length : Int) != p.keyLength) = true
  · simp [hk] at h
  · by_cases hm : (p.messageLength != LENGTH_UNLIMITED && (msg.length : Int) != p.messageLength) = true
    · simp [hk, hm] at h
    · simp only [hk, hm, if_false, Bool.false_eq_true] at h
      cases h
      refine ⟨?_, ?_⟩
      · by_cases hpos : p.outputLength ≤ 0
        · simp [tlsPHash, hpos]; omega
        · have := C16.phash_len hmac p.hashLen hd h0 key msg p.outputLength.toNat
          have e : ((p.outputLength.toNat : Nat) : Int) = p.outputLength := by omega
          rw [e] at this; exact this
      · simp [LENGTH_UNLIMITED] at hk
        by_cases h1 : p.keyLength = -1
        · exact Or.inl h1
        · exact Or.inr (hk h1)

theorem flatten_inj_of_lengths : ∀ (a b : List Bytes), a.flatten = b.flatten → a.map (·.length) = b.map (·.length) → a = b
  | [], [], _, _ => rfl
  | [], _ :: _, _, h => by simp at h
  | _ :: _, [], _, h => by simp at h
  | x :: xs, y :: ys, hf, hl => by
    simp only [List.map_cons, List.cons.injEq] at hl
    simp only [List.flatten_cons] at hf
    have hxy : x = y := by
      have := congrArg (List.take x.length) hf
      rw [List.take_left] at this
      rw [hl.1, List.take_left] at this
      exact this
    subst hxy
    have := List.append_cancel_left hf
    rw [flatten_inj_of_lengths xs ys this hl.2]


/-- cutting a concatenation at the lengths of its pieces gives the pieces back -/
theorem split_flatten (widths : List Nat) (parts : List Bytes) (h : parts.map (·.length) = widths) :
    splitBytes parts.flatten widths = .ok parts := by
  have hlen : parts.flatten.length = widths.sum := by
    rw [← h]; clear h
    induction parts with
    | nil => rfl
    | cons a as ih => simp [ih]
  obtain ⟨ps, hps, hl⟩ := C17.split_lengths parts.flatten widths hlen
  have hf := C17.split_concat parts.flatten widths ps hps
  rw [hps, flatten_inj_of_lengths ps parts hf (by rw [hl, h])]

end SSEPy.Sch
