/-
  PiPtr: the shape of the index.  The array has `Σ_w ⌈|DB(w)|/B⌉ + 1` cells and every occupied cell is the ciphertext of a
  full block of `B` identifiers; the dictionary has one entry per pointer block, `Σ_w ⌈⌈|DB(w)|/B⌉ / b⌉` of them, each a PRF
  label and the ciphertext of a full block of `b` pointers.
-/
import SSEPyVerif.Proofs.Schemes.PiPtrPlace
import SSEPyVerif.Proofs.Schemes.ChainShape
import SSEPyVerif.Proofs.Schemes.PiPtrComplete
namespace SSEPy.Sch.PiPtr
open SSEPy.Sch

variable (cfg : PiPtrCfg) (lv : Leaves)

/-- ciphertext length of an `m`-byte plaintext -/
def clen (m : Nat) : Nat := 16 + 16 * (m / 16 + 1)

theorem map_alike (o m : Nat) (xs : List Bytes) (h : ∀ b ∈ xs, b.length = m) :
    xs.map (fun ch => (o, 16 + 16 * (ch.length / 16 + 1))) = List.replicate xs.length (o, clen m) := by
  induction xs with
  | nil => rfl
  | cons x xs ih =>
    simp only [List.map_cons, List.length_cons, List.replicate_succ]
    rw [h x (by simp), ih (fun b hb => h b (by simp [hb]))]
    rfl

variable (hE : ∀ key x : Bytes, x.length = 16 → (lv.E key x).length = 16)
include hE

theorem placeBlocks_shape (K2 : Bytes) (idx : Nat) (blocks : List Bytes) (avail : List Nat) (A : List (Option Bytes)) (t : Tape)
    (ptrs : List Bytes) (avail' : List Nat) (A' : List (Option Bytes)) (t' : Tape)
    (h : placeBlocks cfg lv K2 idx blocks avail A t = .ok (ptrs, avail', A', t')) (m : Nat)
    (hm : ∀ b ∈ blocks, b.length = m) :
    A'.length = A.length ∧ (∀ c, some c ∈ A' → some c ∈ A ∨ c.length = clen m) ∧
    ptrs.length = blocks.length ∧ ∀ p ∈ ptrs, p.length = idx := by
  induction blocks generalizing avail A t ptrs with
  | nil =>
    simp [placeBlocks] at h
    obtain ⟨rfl, _, rfl, _⟩ := h
    exact ⟨rfl, fun c hc => Or.inl hc, rfl, fun p hp => by cases hp⟩
  | cons blk rest ih =>
    unfold placeBlocks at h
    split at h
    · cases h
    · rename_i pos hpos
      simp only [bind, Except.bind] at h
      split at h
      · cases h
      · rename_i ptr hptr
        split at h
        · cases h
        · rename_i r hr
          obtain ⟨d, t1⟩ := r
          simp only at h
          split at h
          · cases h
          · split at h
            · cases h
            · rename_i r2 hr2
              obtain ⟨ptrs', av2, A2, t2⟩ := r2
              simp only [pure, Except.pure] at h
              cases h
              obtain ⟨iv, hiv, hc⟩ := skeEncrypt_ok hr
              have hdl : d.length = clen m := by
                have := C14.enc_len cfg.ske lv.E K2 iv blk d (hE K2) (Chain.takeBytes_len hiv) hc
                rw [this, hm blk (by simp)]; rfl
              obtain ⟨i1, i2, i3, i4⟩ := ih _ _ _ _ hr2 (fun b hb => hm b (by simp [hb]))
              refine ⟨by rw [i1]; simp, ?_, by simp [i3], ?_⟩
              · intro c hc'
                rcases i2 c hc' with hmem | hl
                · rcases List.mem_or_eq_of_mem_set hmem with hmem | he
                  · exact Or.inl hmem
                  · cases he; exact Or.inr hdl
                · exact Or.inr hl
              · intro p hp
                simp only [List.mem_cons] at hp
                rcases hp with rfl | hp
                · exact (C17.int_roundtrip pos idx _ hptr).2
                · exact i4 p hp

/-- pointer blocks of one keyword -/
def kwPtrBlocks (ids : List Bytes) : Nat := ceilDiv (ceilDiv ids.length cfg.B.toNat) cfg.b.toNat

/-- the dictionary's size parameter: the number of pointer blocks -/
def nPtrBlocks (db : DB) : Nat := (db.map fun p => kwPtrBlocks cfg p.2).sum

theorem encDb_shape (hd : ∀ k m, (lv.hmac k m).length = cfg.prfF.hashLen) (h0 : 0 < cfg.prfF.hashLen)
    (hB : 0 < cfg.B) (hb : 0 < cfg.b) (hI : 0 < cfg.idSize)
    (K : Bytes) (idx : Nat) (db : DB) (avail : List Nat) (A : List (Option Bytes)) (t : Tape)
    (L : List (Bytes × Bytes)) (A' : List (Option Bytes)) (t' : Tape)
    (h : encDb cfg lv K idx db avail A t = .ok (L, A', t'))
    (hids : ∀ p ∈ db, ∀ id ∈ p.2, id.length = cfg.idSize.toNat) :
    A'.length = A.length ∧ (∀ c, some c ∈ A' → some c ∈ A ∨ c.length = clen (cfg.B.toNat * cfg.idSize.toNat)) ∧
    L.map (fun p => (p.1.length, p.2.length)) =
      List.replicate (nPtrBlocks cfg db) (cfg.prfF.outputLength.toNat, clen (cfg.b.toNat * idx)) := by
  induction db generalizing avail A t L with
  | nil =>
    simp [encDb] at h
    obtain ⟨rfl, rfl, _⟩ := h
    exact ⟨rfl, fun c hc => Or.inl hc, rfl⟩
  | cons q rest ih =>
    obtain ⟨w, ids⟩ := q
    simp only [encDb, bind, Except.bind] at h
    split at h
    · cases h
    · rename_i tk _
      obtain ⟨K1, K2⟩ := tk
      simp only at h
      split at h
      · cases h
      · rename_i blocks hbl
        split at h
        · cases h
        · rename_i r hr
          obtain ⟨ptrs, avail1, A1, t1⟩ := r
          simp only at h
          split at h
          · cases h
          · rename_i pblocks hpb
            split at h
            · cases h
            · rename_i r2 hr2
              obtain ⟨ps, t2⟩ := r2
              simp only at h
              split at h
              · cases h
              · rename_i r3 hr3
                obtain ⟨qs, A2, t3⟩ := r3
                simp only [pure, Except.pure] at h
                cases h
                -- the identifier blocks
                have e1 : partitionBlocks ids cfg.B cfg.idSize = partitionBlocksNat ids cfg.B.toNat cfg.idSize.toNat 0 := by
                  unfold partitionBlocks
                  have : (0 ≤ cfg.B ∧ 0 ≤ cfg.idSize ∧ (0 : Int) ≤ 0) := ⟨by omega, by omega, by omega⟩
                  simp [this]
                rw [e1] at hbl
                have hbc := C17.partition_count ids cfg.B.toNat cfg.idSize.toNat 0 (by omega) blocks hbl
                have hbl' := C17.partition_block_len ids cfg.B.toNat cfg.idSize.toNat 0 (by omega) (hids (w, ids) (by simp)) blocks hbl
                simp only [C17.effBs, if_true] at hbl'
                obtain ⟨p1, p2, p3, p4⟩ := placeBlocks_shape cfg lv hE K2 idx blocks avail A t ptrs avail1 A1 t1 hr _ hbl'
                -- the pointer blocks
                have e2 : partitionBlocks ptrs cfg.b (idx : Int) = partitionBlocksNat ptrs cfg.b.toNat idx 0 := by
                  unfold partitionBlocks
                  have : (0 ≤ cfg.b ∧ (0 : Int) ≤ (idx : Int) ∧ (0 : Int) ≤ 0) := ⟨by omega, by omega, by omega⟩
                  simp [this]
                rw [e2] at hpb
                have hpc := C17.partition_count ptrs cfg.b.toNat idx 0 (by omega) pblocks hpb
                have hpl := C17.partition_block_len ptrs cfg.b.toNat idx 0 (by omega) p4 pblocks hpb
                simp only [C17.effBs, if_true] at hpl
                obtain ⟨c1, c2⟩ := Chain.encChunks_shape cfg.chain lv hd h0 hE K1 K2 0 pblocks t1 t2 ps hr2
                obtain ⟨i1, i2, i3⟩ := ih _ _ _ _ hr3 (fun p hp => hids p (by simp [hp]))
                refine ⟨by rw [i1, p1], ?_, ?_⟩
                · intro c hc
                  rcases i2 c hc with hm | hl
                  · exact p2 c hm
                  · exact Or.inr hl
                · rw [List.map_append, i3, c2]
                  have : nPtrBlocks cfg ((w, ids) :: rest) = pblocks.length + nPtrBlocks cfg rest := by
                    simp only [nPtrBlocks, List.map_cons, List.sum_cons, kwPtrBlocks]
                    rw [hpc, p3, hbc]
                  rw [this, ← List.replicate_append_replicate]
                  congr 1
                  exact map_alike _ _ pblocks hpl

theorem setup_shape (hd : ∀ k m, (lv.hmac k m).length = cfg.prfF.hashLen) (h0 : 0 < cfg.prfF.hashLen)
    (hB : 0 < cfg.B) (hb : 0 < cfg.b) (hI : 0 < cfg.idSize)
    (K : Bytes) (db : DB) (t t' : Tape) (edb : PiPtrEDB) (h : setup cfg lv K db t = .ok (edb, t'))
    (hids : ∀ p ∈ db, ∀ id ∈ p.2, id.length = cfg.idSize.toNat)
    (hn : ∀ sample t0 L A t1, takeNats t = .ok (sample, t0) →
      encDb cfg lv K (bytesFor (arrayLen cfg db)) db sample (List.replicate (arrayLen cfg db) none) t0 = .ok (L, A, t1) →
      (L.map (·.1)).Nodup) :
    edb.A.length = arrayLen cfg db ∧
    (∀ c, some c ∈ edb.A → c.length = clen (cfg.B.toNat * cfg.idSize.toNat)) ∧
    (edb.D.map fun p => (p.1.length, p.2.length)).Perm
      (List.replicate (nPtrBlocks cfg db) (cfg.prfF.outputLength.toNat, clen (cfg.b.toNat * bytesFor (arrayLen cfg db)))) := by
  simp only [setup, bind, Except.bind] at h
  split at h
  · cases h
  · rename_i r hr
    obtain ⟨avail, t0⟩ := r
    simp only at h
    split at h
    · cases h
    · split at h
      · cases h
      · rename_i r2 hr2
        obtain ⟨L, A, t1⟩ := r2
        simp only [pure, Except.pure] at h
        cases h
        obtain ⟨e1, e2, e3⟩ := encDb_shape cfg lv hE hd h0 hB hb hI K _ db avail _ t0 L A _ hr2 hids
        refine ⟨by rw [e1]; simp, ?_, ?_⟩
        · intro c hc
          rcases e2 c hc with hm | hl
          · simp [List.mem_replicate] at hm
          · exact hl
        · have hp := SSEPy.Sch.buildTable_perm L (hn avail t0 L A _ hr hr2)
          exact (hp.map _).trans (List.Perm.of_eq e3)

end SSEPy.Sch.PiPtr
