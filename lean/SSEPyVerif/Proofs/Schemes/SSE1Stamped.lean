/-
  SSE-1: WHAT every cell of the array is.  After `Setup` every cell of `A` is either the ciphertext of a node — it starts
  with the 16 random bytes drawn for it in this run — or a random filler drawn in this run.  Identifiers, node keys and
  node addresses enter the array only as plaintexts of the randomized cipher.
-/
import SSEPyVerif.Proofs.Schemes.SSE1
import SSEPyVerif.Proofs.Schemes.StampedLevels
namespace SSEPy.Sch.SSE1
open SSEPy.Sch

variable (cfg : SSE1Cfg) (lv : Leaves)

/-- every cell is still the placeholder `b'\x00'` or a ciphertext stamped with a draw of the run -/
def CellsStamped (t : Tape) (A : List Bytes) : Prop := ∀ c ∈ A, c = [0] ∨ Stamped t c

theorem CellsStamped.mono {t t' : Tape} {A : List Bytes} (hs : Suffix t' t) (h : CellsStamped t' A) : CellsStamped t A :=
  fun c hc => (h c hc).imp id (Stamped.mono hs)

theorem setCell_stamped {t : Tape} {A A' : List Bytes} {i : Nat} {v : Bytes} (h : setCell A i v = .ok A')
    (hA : CellsStamped t A) (hv : Stamped t v) : CellsStamped t A' := by
  obtain ⟨_, rfl⟩ := setCell_ok h
  intro c hc
  rcases List.mem_or_eq_of_mem_set hc with h1 | h1
  · exact hA c h1
  · subst h1; exact Or.inr hv

theorem innerNodes_stamped (K1 : Bytes) (ids : List Bytes) (prevKey : Bytes) (ctr : Nat) (first : Option Bitset) (A : List Bytes)
    (t : Tape) (lastKey : Bytes) (ctr1 : Nat) (first' : Option Bitset) (A1 : List Bytes) (t1 : Tape)
    (h : innerNodes cfg lv K1 ids prevKey ctr first A t = .ok (lastKey, ctr1, first', A1, t1))
    (t0 : Tape) (hs : Suffix t t0) (hA : CellsStamped t0 A) : CellsStamped t0 A1 ∧ Suffix t1 t0 := by
  induction ids generalizing prevKey ctr first A t with
  | nil => simp [innerNodes] at h; obtain ⟨_, _, _, rfl, rfl⟩ := h; exact ⟨hA, hs⟩
  | cons id rest ih =>
    cases rest with
    | nil => simp [innerNodes] at h; obtain ⟨_, _, _, rfl, rfl⟩ := h; exact ⟨hA, hs⟩
    | cons id2 rest2 =>
      simp only [innerNodes, bind, Except.bind] at h
      split at h
      · cases h
      · rename_i r hr
        obtain ⟨kj, ta⟩ := r
        simp only at h
        split at h
        · cases h
        · split at h
          · cases h
          · split at h
            · cases h
            · split at h
              · cases h
              · rename_i r2 hr2
                obtain ⟨c, tb⟩ := r2
                simp only at h
                split at h
                · cases h
                · rename_i A2 hset
                  obtain ⟨hst, hsf⟩ := skeEncrypt_stamped hr2
                  have hs1 : Suffix ta t0 := (takeBytes_suffix hr).trans hs
                  exact ih _ _ _ _ _ h (hsf.trans hs1) (setCell_stamped hset hA (Stamped.mono hs1 hst))

theorem encDb_stamped (K1 K2 K3 : Bytes) (db : DB) (ctr : Nat) (A : List Bytes) (T : Table) (t : Tape)
    (A' : List Bytes) (T' : Table) (t' : Tape) (h : encDb cfg lv K1 K2 K3 db ctr A T t = .ok (A', T', t'))
    (t0 : Tape) (hs : Suffix t t0) (hA : CellsStamped t0 A) : CellsStamped t0 A' ∧ Suffix t' t0 := by
  induction db generalizing ctr A T t with
  | nil => simp [encDb] at h; obtain ⟨rfl, _, rfl⟩ := h; exact ⟨hA, hs⟩
  | cons p rest ih =>
    obtain ⟨w0, ids0⟩ := p
    simp only [encDb, bind, Except.bind] at h
    split at h
    · cases h
    · rename_i r hr
      obtain ⟨k0, t1⟩ := r
      simp only at h
      split at h
      · cases h
      · rename_i r2 hr2
        obtain ⟨lastKey, ctr1, first, A1, t2⟩ := r2
        simp only at h
        split at h
        · cases h
        · split at h
          · cases h
          · split at h
            · cases h
            · rename_i r3 hr3
              obtain ⟨c, t3⟩ := r3
              simp only at h
              split at h
              · cases h
              · rename_i A2 hset
                split at h
                · cases h
                · split at h
                  · cases h
                  · split at h
                    · cases h
                    · split at h
                      · cases h
                      · obtain ⟨n1, n2⟩ := innerNodes_stamped cfg lv K1 ids0 k0 ctr none A t1 lastKey ctr1 first A1 t2 hr2 t0
                          ((takeBytes_suffix hr).trans hs) hA
                        obtain ⟨hst, hsf⟩ := skeEncrypt_stamped hr3
                        exact ih _ _ _ _ h (hsf.trans n2) (setCell_stamped hset n1 (Stamped.mono n2 hst))

theorem fillA_from (size : Nat) (A : List Bytes) (t : Tape) (A' : List Bytes) (t' : Tape)
    (h : fillA size A t = .ok (A', t')) (t0 : Tape) (hs : Suffix t t0) (hA : CellsStamped t0 A) :
    ∀ c ∈ A', FromTape t0 c := by
  induction A generalizing t A' with
  | nil => simp [fillA] at h; obtain ⟨rfl, _⟩ := h; intro c hc; cases hc
  | cons c0 rest ih =>
    have hrest : CellsStamped t0 rest := fun c hc => hA c (List.mem_cons_of_mem _ hc)
    simp only [fillA] at h
    split at h
    · simp only [bind, Except.bind] at h
      split at h
      · cases h
      · rename_i r hr
        obtain ⟨rb, t1⟩ := r
        simp only at h
        split at h
        · cases h
        · rename_i r2 hr2
          obtain ⟨more, t2⟩ := r2
          simp only [pure, Except.pure] at h
          cases h
          intro c hc
          simp only [List.mem_cons] at hc
          rcases hc with rfl | hc
          · right
            obtain ⟨pre, rfl⟩ := hs
            rw [takeBytes_cons hr]
            simp
          · exact ih _ _ hr2 ((takeBytes_suffix hr).trans hs) hrest c hc
    · rename_i hne
      simp only [bind, Except.bind] at h
      split at h
      · cases h
      · rename_i r2 hr2
        obtain ⟨more, t2⟩ := r2
        simp only [pure, Except.pure] at h
        cases h
        intro c hc
        simp only [List.mem_cons] at hc
        rcases hc with rfl | hc
        · rcases hA c (by simp) with h1 | h1
          · exact absurd h1 hne
          · exact Or.inl h1
        · exact ih _ _ hr2 hs hrest c hc

/-- SSE-1: every cell of the array of the index `Setup` returns is a node ciphertext stamped with a draw of the run, or a
    random filler drawn in the run -/
theorem setup_cells_from (K1 K2 K3 K4 : Bytes) (db : DB) (t t' : Tape) (edb : SSE1EDB)
    (hs : setup cfg lv [K1, K2, K3, K4] db t = .ok (edb, t')) : ∀ c ∈ edb.A, FromTape t c := by
  simp only [setup, bind, Except.bind] at hs
  split at hs
  · cases hs
  · rename_i r hr
    obtain ⟨A, T, t1⟩ := r
    simp only at hs
    split at hs
    · cases hs
    · rename_i r2 hr2
      obtain ⟨probe, t2⟩ := r2
      simp only at hs
      split at hs
      · cases hs
      · rename_i r3 hr3
        obtain ⟨A', t3⟩ := r3
        simp only at hs
        split at hs
        · cases hs
        · rename_i r4 hr4
          obtain ⟨T', t4⟩ := r4
          simp only [pure, Except.pure] at hs
          cases hs
          have h0 : CellsStamped t (List.replicate cfg.s.toNat ([0] : Bytes)) := by
            intro c hc
            exact Or.inl (List.eq_of_mem_replicate hc)
          obtain ⟨e1, e2⟩ := encDb_stamped cfg lv K1 K2 K3 db 1 _ [] t A T t1 hr t (Suffix.refl _) h0
          exact fillA_from _ A t2 A' t3 hr3 t ((cipher_suffix hr2).trans e2) e1


/-! ### the look-up table `T` -/

/-- an entry of `T`: the label is π_K3 of a stored keyword and the value is `(address ‖ key)` masked with the PRF output
    `F_K2(keyword)` — or both are random draws of the run (a filler) -/
def TEntry (K2 K3 : Bytes) (db : DB) (t : Tape) (p : Bytes × Bytes) : Prop :=
  (∃ w ids x eta, (w, ids) ∈ db ∧ piBytes cfg lv K3 w = .ok p.1 ∧
      cfg.prfF.call lv.hmac K2 (addLeadingZeros w cfg.l) = .ok eta ∧ bytesXor x eta = .ok p.2) ∨
  (Draw.bytes p.1 ∈ t ∧ Draw.bytes p.2 ∈ t)

theorem encDb_table (K1 K2 K3 : Bytes) (db0 db : DB) (hsub : ∀ q ∈ db, q ∈ db0) (ctr : Nat) (A : List Bytes) (T : Table) (t : Tape)
    (A' : List Bytes) (T' : Table) (t' : Tape) (h : encDb cfg lv K1 K2 K3 db ctr A T t = .ok (A', T', t'))
    (t0 : Tape) (hT : ∀ p ∈ T, TEntry cfg lv K2 K3 db0 t0 p) : ∀ p ∈ T', TEntry cfg lv K2 K3 db0 t0 p := by
  induction db generalizing ctr A T t with
  | nil => simp [encDb] at h; obtain ⟨_, rfl, _⟩ := h; exact hT
  | cons q rest ih =>
    obtain ⟨w0, ids0⟩ := q
    simp only [encDb, bind, Except.bind] at h
    split at h
    · cases h
    · rename_i r hr
      obtain ⟨k0, t1⟩ := r
      simp only at h
      split at h
      · cases h
      · rename_i r2 hr2
        obtain ⟨lastKey, ctr1, first, A1, t2⟩ := r2
        simp only at h
        split at h
        · cases h
        · split at h
          · cases h
          · split at h
            · cases h
            · rename_i r3 hr3
              obtain ⟨c, t3⟩ := r3
              simp only at h
              split at h
              · cases h
              · split at h
                · cases h
                · rename_i gamma hgam
                  split at h
                  · cases h
                  · rename_i eta heta
                    split at h
                    · cases h
                    · rename_i fb hfb
                      split at h
                      · cases h
                      · rename_i theta hth
                        refine ih (fun q hq => hsub q (List.mem_cons_of_mem _ hq)) _ _ _ _ h ?_
                        intro p hp
                        rcases mem_tinsert T gamma theta p hp with h1 | h1
                        · exact hT p h1
                        · subst h1
                          exact Or.inl ⟨w0, ids0, _, eta, hsub _ (by simp), hgam, heta, hth⟩

theorem fillT_table (K2 K3 : Bytes) (db : DB) (l out n : Nat) (T : Table) (t : Tape) (T' : Table) (t' : Tape)
    (h : fillT l out n T t = .ok (T', t')) (t0 : Tape) (hs : Suffix t t0) (hT : ∀ p ∈ T, TEntry cfg lv K2 K3 db t0 p) :
    ∀ p ∈ T', TEntry cfg lv K2 K3 db t0 p := by
  induction n generalizing T t with
  | zero => simp [fillT] at h; obtain ⟨rfl, _⟩ := h; exact hT
  | succ m ih =>
    simp only [fillT, bind, Except.bind] at h
    split at h
    · cases h
    · rename_i r hr
      obtain ⟨v, t1⟩ := r
      simp only at h
      split at h
      · cases h
      · rename_i r2 hr2
        obtain ⟨k, t2⟩ := r2
        simp only at h
        have hs1 : Suffix t1 t0 := (takeBytes_suffix hr).trans hs
        refine ih _ _ h ((takeBytes_suffix hr2).trans hs1) ?_
        intro p hp
        rcases mem_tinsert T k v p hp with h1 | h1
        · exact hT p h1
        · subst h1
          right
          obtain ⟨pre, rfl⟩ := hs
          obtain ⟨pre1, e1⟩ := takeBytes_suffix hr
          refine ⟨?_, ?_⟩
          · have : Draw.bytes k ∈ t1 := by rw [takeBytes_cons hr2]; simp
            rw [e1]; simp [this]
          · rw [takeBytes_cons hr]; simp

/-- SSE-1: every entry of the look-up table of the index `Setup` returns is `(π_K3(w), (first address ‖ first key) ⊕ F_K2(w))`
    for a stored keyword `w`, or a pair of random draws of the run -/
theorem setup_table_from (K1 K2 K3 K4 : Bytes) (db : DB) (t t' : Tape) (edb : SSE1EDB)
    (hs : setup cfg lv [K1, K2, K3, K4] db t = .ok (edb, t')) : ∀ p ∈ edb.T, TEntry cfg lv K2 K3 db t p := by
  simp only [setup, bind, Except.bind] at hs
  split at hs
  · cases hs
  · rename_i r hr
    obtain ⟨A, T, t1⟩ := r
    simp only at hs
    split at hs
    · cases hs
    · rename_i r2 hr2
      obtain ⟨probe, t2⟩ := r2
      simp only at hs
      split at hs
      · cases hs
      · rename_i r3 hr3
        obtain ⟨A', t3⟩ := r3
        simp only at hs
        split at hs
        · cases hs
        · rename_i r4 hr4
          obtain ⟨T', t4⟩ := r4
          simp only [pure, Except.pure] at hs
          cases hs
          have h0 : CellsStamped t (List.replicate cfg.s.toNat ([0] : Bytes)) := fun c hc => Or.inl (List.eq_of_mem_replicate hc)
          obtain ⟨_, e2⟩ := encDb_stamped cfg lv K1 K2 K3 db 1 _ [] t A T t1 hr t (Suffix.refl _) h0
          have hT := encDb_table cfg lv K1 K2 K3 db db (fun q hq => hq) 1 _ [] t A T t1 hr t (fun p hp => by cases hp)
          obtain ⟨_, s3⟩ := fillA_ext _ A t2 A' t3 hr3
          exact fillT_table cfg lv K2 K3 db _ _ _ T t3 T' _ hr4 t (s3.trans ((cipher_suffix hr2).trans e2)) hT

end SSEPy.Sch.SSE1
