/-
  DP17: WHERE the chunks of a keyword go.  `Setup` consumes one recorded `random.choice` per chunk, in order, and chunk `k` of a
  keyword is put into exactly the bucket its draw names (one of the buckets of the keyword's level that still have room for a
  full chunk).  The assignment of chunks to buckets is a function of the recorded choices — a different sequence of choices
  moves the chunks — not of keyword bytes or identifier bytes.
-/
import SSEPyVerif.Proofs.Schemes.DP17
namespace SSEPy.Sch.DP17
open SSEPy.Sch

variable (cfg : DP17Cfg) (lv : Leaves)

theorem takeNat_cons {t t' : Tape} {x : Nat} (h : takeNat t = .ok (x, t')) : t = Draw.nat x :: t' := by
  cases t with
  | nil => simp [takeNat] at h
  | cons d rest =>
    cases d <;> simp [takeNat] at h
    obtain ⟨rfl, rfl⟩ := h
    rfl

/-- one keyword: the tape prefix consumed is the list of bucket choices, one per chunk, each a bucket with room, and chunk
    `k` is in bucket `xs[k]` afterwards -/
theorem placeChunks_choices (k1 k2 w : Bytes) (i : Nat) (cw : List (List Bytes)) (count : Nat) (lvl : Level) (HT : Table)
    (t : Tape) (lvl' : Level) (HT' : Table) (t' : Tape)
    (h : placeChunks cfg lv k1 k2 w i cw count lvl HT t = .ok (lvl', HT', t')) (hwf : WFL lvl) :
    WFL lvl' ∧ (∀ x e, InBucket lvl x e → InBucket lvl' x e) ∧
    ∃ xs : List Nat, t = xs.map Draw.nat ++ t' ∧ xs.length = cw.length ∧
      ∀ k, k < cw.length → ∀ id ∈ cw[k]!, InBucket lvl' xs[k]! (some (w, id)) := by
  induction cw generalizing count lvl HT t with
  | nil =>
    simp [placeChunks] at h
    obtain ⟨rfl, rfl, rfl⟩ := h
    exact ⟨hwf, fun x e he => he, [], by simp, rfl, fun k hk => absurd hk (by simp)⟩
  | cons c rest ih =>
    simp only [placeChunks] at h
    split at h
    · simp [throw, throwThe, MonadExceptOf.throw, bind, Except.bind] at h
    · simp only [bind, Except.bind, pure, Except.pure] at h
      split at h
      · cases h
      · rename_i r hr
        obtain ⟨x, t1⟩ := r
        simp only at h
        split at h
        · simp [throw, throwThe, MonadExceptOf.throw] at h
        · rename_i hcontains
          have hxc : x ∈ (lvl.remaining.zipIdx.filter fun p => p.1 ≥ 2 ^ i).map (·.2) := by
            simpa using hcontains
          have hxlt : x < lvl.buckets.length := by rw [← hwf]; exact cands_lt _ _ _ hxc
          split at h
          · cases h
          · rename_i HT1 hHT1
            generalize hl2 : ({ lev := lvl.lev, remaining := (lvl.remaining.mapIdx fun j r => if j = x then r - c.length else r),
                                 buckets := addTo lvl.buckets x (c.map fun id => some (w, id)) } : Level) = lvl2 at h
            have hwf2 : WFL lvl2 := by
              rw [← hl2]; unfold WFL at hwf ⊢; simp [addTo]; exact hwf
            have hmono2 : ∀ y e, InBucket lvl y e → InBucket lvl2 y e := by
              intro y e ⟨b, hb, he⟩
              obtain ⟨b', hb', hsub⟩ := addTo_mono lvl.buckets x (c.map fun id => some (w, id)) y b hb
              exact ⟨b', by rw [← hl2]; exact hb', hsub e he⟩
            obtain ⟨r1, r2, xs, r3, r4, r5⟩ := ih (count + 1) lvl2 HT1 t1 h hwf2
            refine ⟨r1, fun y e he => r2 y e (hmono2 y e he), x :: xs, ?_, by simp [r4], ?_⟩
            · rw [takeNat_cons hr, r3]; simp
            · intro k hk id hid
              cases k with
              | zero =>
                simp only [List.getElem!_cons_zero] at hid ⊢
                obtain ⟨b', hb', hsub⟩ := addTo_new lvl.buckets x (c.map fun id => some (w, id)) hxlt
                exact r2 x _ ⟨b', by rw [← hl2]; exact hb', hsub _ (List.mem_map.mpr ⟨id, hid, rfl⟩)⟩
              | succ k' =>
                simp only [List.getElem!_cons_succ] at hid ⊢
                exact r5 k' (by simp at hk; omega) id hid

end SSEPy.Sch.DP17
