/-
  DP17: THERE IS ALWAYS ROOM.  Level i is an array of 2N + 2^(i+1) cells cut into buckets of 2^(i+1); as long as fewer than N
  postings are stored on the level, some bucket has at least 2^i free cells — so `random.choice` of the buckets with
  enough room never sees an empty list.  This is what the constant `2N + 2^(i+1)` is for.
-/
import SSEPyVerif.Proofs.Schemes.DP17Shape
import SSEPyVerif.Proofs.Schemes.ANSS16Complete
import SSEPyVerif.Props.C16
namespace SSEPy.Sch.DP17
open SSEPy.Sch

/-- the bucket sizes add up to the array size -/
theorem divide_sum (bs : Nat) : ∀ (m size : Nat), size ≤ m * bs →
    ((List.range m).map fun j => min bs (size - j * bs)).sum = size := by
  intro m
  induction m with
  | zero => intro size h; simp at h; simp [h]
  | succ k ih =>
    intro size h
    rw [List.range_succ_eq_map, List.map_cons, List.map_map, List.sum_cons]
    have hrest : (List.map ((fun j => min bs (size - j * bs)) ∘ Nat.succ) (List.range k))
        = (List.range k).map fun j => min bs ((size - bs) - j * bs) := by
      apply List.map_congr_left
      intro j _
      simp only [Function.comp, Nat.succ_eq_add_one, Nat.add_mul, Nat.one_mul]
      congr 1
      omega
    rw [hrest, ih (size - bs) (by rw [Nat.succ_mul] at h; omega)]
    simp only [Nat.zero_mul, Nat.sub_zero]
    omega

theorem sizesOf_sum (N : Nat) (i : Int) :
    (sizesOf N i).sum = 2 * N + 2 ^ (i + 1).toNat ∧
    (sizesOf N i).length = ceilDiv (2 * N + 2 ^ (i + 1).toNat) (2 ^ (i + 1).toNat) := by
  generalize hbsd : 2 ^ (i + 1).toNat = bs
  have hbs : 0 < bs := by rw [← hbsd]; exact Nat.two_pow_pos _
  generalize hsz : 2 * N + bs = size
  have hm : size ≤ ceilDiv size bs * bs := by
    unfold ceilDiv
    have h2 := Nat.div_add_mod (size + bs - 1) bs
    have h3 := Nat.mod_lt (size + bs - 1) hbs
    rw [Nat.mul_comm] at h2
    omega
  have := divide_sum bs (ceilDiv size bs) size hm
  unfold sizesOf divideToBuckets
  simp only [hbsd, hsz, List.map_map, List.length_map, List.length_range, and_true]
  exact this

theorem sum_lt_of_all_lt (l : List Nat) (h : Nat) (hall : ∀ r ∈ l, r < h) : l.sum + l.length ≤ l.length * h := by
  induction l with
  | nil => simp
  | cons a rest ih =>
    have ha := hall a (by simp)
    have := ih (fun r hr => hall r (by simp [hr]))
    simp only [List.sum_cons, List.length_cons, Nat.add_mul, Nat.one_mul]
    omega

/-- the counting argument -/
theorem room_exists (N i : Nat) (rem : List Nat) (stored : Nat)
    (hlen : rem.length = ceilDiv (2 * N + 2 ^ (i + 1)) (2 ^ (i + 1)))
    (hsum : rem.sum + stored = 2 * N + 2 ^ (i + 1)) (hst : stored ≤ N) : ∃ r ∈ rem, 2 ^ i ≤ r := by
  apply Classical.byContradiction
  intro hno
  have hall : ∀ r ∈ rem, r < 2 ^ i := by
    intro r hr
    rcases Nat.lt_or_ge r (2 ^ i) with h | h
    · exact h
    · exact absurd ⟨r, hr, h⟩ hno
  have h1 := sum_lt_of_all_lt rem (2 ^ i) hall
  have hp : 2 ^ (i + 1) = 2 * 2 ^ i := by rw [Nat.pow_succ]; omega
  have hh : 0 < 2 ^ i := Nat.two_pow_pos i
  -- m * 2h ≤ 2N + 4h - 1
  have hm : rem.length * (2 * 2 ^ i) ≤ 2 * N + 2 * 2 ^ i + 2 * 2 ^ i - 1 := by
    rw [hlen, hp]
    unfold ceilDiv
    exact Nat.div_mul_le_self _ _
  have hmh : rem.length * (2 * 2 ^ i) = 2 * (rem.length * 2 ^ i) := by
    rw [Nat.mul_comm 2 (2 ^ i), ← Nat.mul_assoc]; omega
  rw [hp] at hsum
  omega

/-! ### the sum invariant of a level -/

theorem sum_zero_of_all (l : List Nat) (h : ∀ x ∈ l, x = 0) : l.sum = 0 := by
  induction l with
  | nil => rfl
  | cons a rest ih =>
    simp only [List.sum_cons, h a (by simp), ih (fun x hx => h x (by simp [hx]))]

theorem mapIdx_snd {α : Type} (l : List α) : l.mapIdx (fun _ v => v) = l := by
  rw [List.mapIdx_eq_iff]
  intro i
  cases l[i]? <;> rfl

/-- postings stored on the level -/
def stored (lvl : Level) : Nat := (lvl.buckets.map List.length).sum

theorem sum_mapIdx_sub (l : List Nat) (x r d : Nat) (hx : l[x]? = some r) (hd : d ≤ r) :
    (l.mapIdx fun j v => if j = x then v - d else v).sum + d = l.sum := by
  induction l generalizing x with
  | nil => simp at hx
  | cons a rest ih =>
    rw [List.mapIdx_cons]
    cases x with
    | zero =>
      simp only [List.getElem?_cons_zero, Option.some.injEq] at hx
      subst hx
      have : (List.mapIdx (fun i v => if i + 1 = 0 then v - d else v) rest) = rest := by
        have : (fun (i : Nat) (v : Nat) => if i + 1 = 0 then v - d else v) = fun _ v => v := by
          funext i v; simp
        rw [this]; exact mapIdx_snd rest
      simp only [if_true, List.sum_cons, this]
      omega
    | succ x' =>
      simp only [List.getElem?_cons_succ] at hx
      have e : (fun (i : Nat) (v : Nat) => if i + 1 = x' + 1 then v - d else v) = fun i v => if i = x' then v - d else v := by
        funext i v; simp
      have := ih x' hx
      simp only [Nat.zero_ne_add_one, if_false, List.sum_cons, e]
      omega

theorem sum_addTo (l : List (List Entry)) (x : Nat) (es : List Entry) (hx : x < l.length) :
    ((addTo l x es).map List.length).sum = (l.map List.length).sum + es.length := by
  unfold addTo
  induction l generalizing x with
  | nil => simp at hx
  | cons a rest ih =>
    rw [List.mapIdx_cons]
    cases x with
    | zero =>
      have : (List.mapIdx (fun i (b : List Entry) => if i + 1 = 0 then b ++ es else b) rest) = rest := by
        have : (fun (i : Nat) (b : List Entry) => if i + 1 = 0 then b ++ es else b) = fun _ b => b := by
          funext i b; simp
        rw [this]; exact mapIdx_snd rest
      simp only [if_true, List.map_cons, List.sum_cons, List.length_append, this]
      omega
    | succ x' =>
      have e : (fun (i : Nat) (b : List Entry) => if i + 1 = x' + 1 then b ++ es else b) = fun i b => if i = x' then b ++ es else b := by
        funext i b; simp
      have := ih x' (by simpa using hx)
      simp only [Nat.zero_ne_add_one, if_false, List.map_cons, List.sum_cons, e]
      omega

/-- the level invariant: as many buckets as the array was cut into, free + stored = cells, stored ≤ postings placed -/
def LInv (N : Nat) (placed : Nat) (lvl : Level) : Prop :=
  lvl.remaining.length = (sizesOf N lvl.lev).length ∧ lvl.buckets.length = (sizesOf N lvl.lev).length ∧
  lvl.remaining.sum + stored lvl = (sizesOf N lvl.lev).sum ∧ stored lvl ≤ placed

theorem fresh_linv (N : Nat) (i : Int) :
    LInv N 0 { lev := i, remaining := (divideToBuckets (2 * N + 2 ^ (i + 1).toNat) (2 ^ (i + 1).toNat)).1,
               buckets := (divideToBuckets (2 * N + 2 ^ (i + 1).toNat) (2 ^ (i + 1).toNat)).2 } := by
  unfold LInv stored sizesOf divideToBuckets
  refine ⟨rfl, by simp, ?_, ?_⟩
  · simp only [List.map_map]
    have : (List.map (List.length ∘ (fun _ => ([] : List Entry)) ∘ fun x => x * 2 ^ (i + 1).toNat)
        (List.range (ceilDiv (2 * N + 2 ^ (i + 1).toNat) (2 ^ (i + 1).toNat)))).sum = 0 := by
      apply sum_zero_of_all _
      intro x hx
      simp only [List.mem_map] at hx
      obtain ⟨_, _, rfl⟩ := hx
      rfl
    simp only [this, Nat.add_zero]
  · simp only [List.map_map]
    apply Nat.le_of_eq
    apply sum_zero_of_all _
    intro x hx
    simp only [List.mem_map] at hx
    obtain ⟨_, _, rfl⟩ := hx
    rfl

/-- with the invariant and fewer than N postings stored, some bucket has room for a chunk of level `i` -/
theorem cands_nonempty (N placed : Nat) (lvl : Level) (i : Nat) (hlev : lvl.lev = (i : Int)) (hinv : LInv N placed lvl)
    (hN : placed ≤ N) : ((lvl.remaining.zipIdx.filter fun p => p.1 ≥ 2 ^ i).map (·.2)) ≠ [] := by
  obtain ⟨h1, _, h3, h4⟩ := hinv
  obtain ⟨s1, s2⟩ := sizesOf_sum N lvl.lev
  have e : (lvl.lev + 1).toNat = i + 1 := by rw [hlev]; omega
  rw [e] at s1 s2
  obtain ⟨r, hr, hge⟩ := room_exists N i lvl.remaining (stored lvl) (by rw [h1, s2]) (by rw [h3, s1]) (by omega)
  obtain ⟨x, hx⟩ := List.mem_iff_getElem?.mp hr
  intro hemp
  have : x ∈ (lvl.remaining.zipIdx.filter fun p => p.1 ≥ 2 ^ i).map (·.2) := by
    simp only [List.mem_map, List.mem_filter]
    exact ⟨(r, x), ⟨List.mk_mem_zipIdx_iff_getElem?.mpr hx, by simpa using hge⟩, rfl⟩
  rw [hemp] at this
  cases this

variable (cfg : DP17Cfg) (lv : Leaves)

/-- placing the chunks of one keyword on its level: `random.choice` never sees an empty list (an IndexError can only come
    out of the hash-table update), and the level invariant is kept -/
theorem placeChunks_room (N : Nat) (k1 k2 w : Bytes) (i : Nat) (cw : List (List Bytes)) (count placed : Nat) (lvl : Level)
    (HT : Table) (t : Tape) (hlev : lvl.lev = (i : Int)) (hinv : LInv N placed lvl)
    (hN : placed + (cw.map List.length).sum ≤ N) (hcl : ∀ c ∈ cw, c.length ≤ 2 ^ i)
    (hht : ∀ count x c HT e, htInsert cfg lv k1 k2 w count i x c HT = .error e → e ≠ .indexError) :
    (∀ e, placeChunks cfg lv k1 k2 w i cw count lvl HT t = .error e → e ≠ .indexError) ∧
    ∀ lvl' HT' t', placeChunks cfg lv k1 k2 w i cw count lvl HT t = .ok (lvl', HT', t') →
      lvl'.lev = lvl.lev ∧ LInv N (placed + (cw.map List.length).sum) lvl' := by
  induction cw generalizing count placed lvl HT t with
  | nil =>
    refine ⟨fun e h => by simp [placeChunks] at h, ?_⟩
    intro lvl' HT' t' h
    simp [placeChunks] at h
    obtain ⟨rfl, _, _⟩ := h
    exact ⟨rfl, by simpa using hinv⟩
  | cons c rest ih =>
    have hne := cands_nonempty N placed lvl i hlev hinv (by simp at hN; omega)
    have hemp : ((lvl.remaining.zipIdx.filter fun p => p.1 ≥ 2 ^ i).map (·.2)).isEmpty = false := by
      cases hc : ((lvl.remaining.zipIdx.filter fun p => p.1 ≥ 2 ^ i).map (·.2)) with
      | nil => exact absurd hc hne
      | cons _ _ => rfl
    simp only [placeChunks, hemp, Bool.false_eq_true, if_false, bind, Except.bind, pure, Except.pure]
    cases hr : takeNat t with
    | error e0 =>
      refine ⟨fun e h => ?_, fun _ _ _ h => by cases h⟩
      simp only at h
      cases h
      have := takeNat_onlyMiss t e0 hr
      rw [this]; decide
    | ok r =>
      obtain ⟨x, t1⟩ := r
      simp only
      by_cases hcont : ((lvl.remaining.zipIdx.filter fun p => p.1 ≥ 2 ^ i).map (·.2)).contains x = true
      · have hxc : x ∈ (lvl.remaining.zipIdx.filter fun p => p.1 ≥ 2 ^ i).map (·.2) := by simpa using hcont
        obtain ⟨rx, hrx, hroom⟩ := cands_room _ _ _ hxc
        have hcl0 : c.length ≤ 2 ^ i := hcl c (by simp)
        obtain ⟨i1, i2, i3, i4⟩ := hinv
        have hxlt : x < lvl.buckets.length := by
          rw [i2, ← i1]
          rcases Nat.lt_or_ge x lvl.remaining.length with h | h
          · exact h
          · rw [List.getElem?_eq_none h] at hrx; cases hrx
        simp only [hcont, Bool.not_true, Bool.false_eq_true, if_false]
        cases hins : htInsert cfg lv k1 k2 w (count + 1) i x c HT with
        | error e0 =>
          refine ⟨fun e h => ?_, fun _ _ _ h => by cases h⟩
          simp only at h
          cases h
          exact hht _ _ _ _ _ hins
        | ok HT1 =>
          simp only
          -- the level after this chunk
          have hinv2 : LInv N (placed + c.length)
              { lev := lvl.lev, remaining := (lvl.remaining.mapIdx fun j r => if j = x then r - c.length else r),
                buckets := addTo lvl.buckets x (c.map fun id => some (w, id)) } := by
            refine ⟨by simp [i1], by simp [addTo, i2], ?_, ?_⟩
            · have s1 := sum_mapIdx_sub lvl.remaining x rx c.length hrx (by omega)
              have s2 := sum_addTo lvl.buckets x (c.map fun id => some (w, id)) hxlt
              simp only [stored] at i3 ⊢
              simp only [List.length_map] at s2
              omega
            · have s2 := sum_addTo lvl.buckets x (c.map fun id => some (w, id)) hxlt
              simp only [stored] at i4 ⊢
              simp only [List.length_map] at s2
              omega
          obtain ⟨r1, r2⟩ := ih (count + 1) (placed + c.length)
            { lev := lvl.lev, remaining := (lvl.remaining.mapIdx fun j r => if j = x then r - c.length else r),
              buckets := addTo lvl.buckets x (c.map fun id => some (w, id)) } HT1 t1 hlev hinv2
            (by simp only [List.map_cons, List.sum_cons] at hN; omega) (fun c' hc' => hcl c' (by simp [hc']))
          refine ⟨r1, ?_⟩
          intro lvl' HT' t' h
          obtain ⟨a1, a2⟩ := r2 lvl' HT' t' h
          refine ⟨a1, ?_⟩
          simp only [List.map_cons, List.sum_cons]
          have : placed + (c.length + (List.map List.length rest).sum) = placed + c.length + (List.map List.length rest).sum := by omega
          rw [this]; exact a2
      · simp only [hcont, Bool.not_false, if_true]
        refine ⟨fun e h => ?_, fun _ _ _ h => by simp [throw, throwThe, MonadExceptOf.throw] at h⟩
        simp [throw, throwThe, MonadExceptOf.throw] at h
        rw [← h]; decide

theorem LInv.mono {N p p' : Nat} {l : Level} (h : LInv N p l) (hp : p ≤ p') : LInv N p' l :=
  ⟨h.1, h.2.1, h.2.2.1, Nat.le_trans h.2.2.2 hp⟩

theorem sum_flatten_length {α : Type} (l : List (List α)) : (l.map List.length).sum = l.flatten.length := by
  induction l with
  | nil => rfl
  | cons a rest ih => rw [List.map_cons, List.sum_cons, List.flatten_cons, List.length_append, ih]

/-- `_Enc`, all keywords: no IndexError from `random.choice` — the only IndexErrors left are a failing level search or
    a failing hash-table update, excluded here by hypothesis -/
theorem encDb_room (N : Nat) (k1 k2 : Bytes) (levels : List Int) (db : DB) (placed : Nat) (ls : List Level) (HT : Table)
    (t : Tape) (hinv : ∀ l ∈ ls, LInv N placed l) (hN : placed + db.total ≤ N)
    (hfa : ∀ p ∈ db, ∃ i : Nat, findAdjacent cfg levels p.2.length = .ok (i : Int))
    (hht : ∀ w count i x c HT e, htInsert cfg lv k1 k2 w count i x c HT = .error e → e ≠ .indexError) :
    ∀ e, encDb cfg lv k1 k2 levels db ls HT t = .error e → e ≠ .indexError := by
  induction db generalizing placed ls HT t with
  | nil => intro e h; simp [encDb] at h
  | cons q rest ih =>
    obtain ⟨w0, ids0⟩ := q
    obtain ⟨i, hi⟩ := hfa (w0, ids0) (by simp)
    simp only at hi
    intro e h
    simp only [encDb, hi, bind, Except.bind] at h
    have hnn : ¬ ((i : Int) < 0) := by omega
    simp only [hnn, if_false, pure, Except.pure, Int.toNat_natCast] at h
    cases hg : getLevelE ls (i : Int) with
    | error e0 =>
      rw [hg] at h
      simp only at h
      cases h
      unfold getLevelE at hg
      split at hg
      · cases hg
      · cases hg; decide
    | ok lvl =>
      rw [hg] at h
      simp only at h
      have hget : getLevel ls (i : Int) = some lvl := by
        unfold getLevelE at hg
        split at hg
        · rename_i l hl; cases hg; exact hl
        · cases hg
      have hmem := getLevel_mem ls _ lvl hget
      have hlev := getLevel_lev ls _ lvl hget
      cases hc : chunks ids0 (2 ^ i) with
      | error e0 =>
        rw [hc] at h
        simp only at h
        cases h
        unfold chunks at hc
        split at hc
        · cases hc; decide
        · cases hc
      | ok cw =>
        rw [hc] at h
        simp only at h
        obtain ⟨hflat, _, _, hpos⟩ := chunks_spec ids0 _ cw hc
        have hcl : ∀ c ∈ cw, c.length ≤ 2 ^ i := by
          intro c hcm
          unfold chunks at hc
          split at hc
          · cases hc
          · cases hc
            exact (chunksFuel_mem_length _ (Nat.two_pow_pos _) _ _ (Nat.le_refl _) c hcm).2
        have hsum : (cw.map List.length).sum = ids0.length := by rw [sum_flatten_length, hflat]
        have htot : DB.total ((w0, ids0) :: rest) = ids0.length + DB.total rest := by simp [DB.total]
        obtain ⟨r1, r2⟩ := placeChunks_room cfg lv N k1 k2 w0 i cw 0 placed lvl HT t hlev (hinv lvl hmem)
          (by rw [hsum]; rw [htot] at hN; omega) hcl (fun count x c HT e => hht w0 count i x c HT e)
        cases hp : placeChunks cfg lv k1 k2 w0 i cw 0 lvl HT t with
        | error e0 =>
          rw [hp] at h
          simp only at h
          cases h
          exact r1 _ hp
        | ok r =>
          obtain ⟨lvl1, HT1, t1⟩ := r
          rw [hp] at h
          simp only at h
          obtain ⟨a1, a2⟩ := r2 lvl1 HT1 t1 hp
          rw [hsum] at a2
          refine ih (placed + ids0.length) (setLevel ls lvl1) HT1 t1 ?_ (by rw [htot] at hN; omega)
            (fun p hp' => hfa p (by simp [hp'])) e h
          intro l hl
          unfold setLevel at hl
          simp only [List.mem_map] at hl
          obtain ⟨a, ha, rfl⟩ := hl
          split
          · exact a2
          · exact (hinv a ha).mono (by omega)

theorem initLevels_linv (N : Nat) (levels : List Int) (acc ls : List Level) (h : initLevels N levels acc = .ok ls)
    (hacc : ∀ l ∈ acc, LInv N 0 l) : ∀ l ∈ ls, LInv N 0 l := by
  induction levels generalizing acc with
  | nil => simp [initLevels] at h; subst h; exact hacc
  | cons i rest ih =>
    simp only [initLevels] at h
    split at h
    · cases h
    · refine ih _ h ?_
      have hf := fresh_linv N i
      intro l hl
      split at hl
      · unfold setLevel at hl
        simp only [List.mem_map] at hl
        obtain ⟨a, ha, rfl⟩ := hl
        split
        · exact hf
        · exact hacc a ha
      · simp only [List.mem_append, List.mem_singleton] at hl
        rcases hl with hl | rfl
        · exact hacc l hl
        · exact hf

/-- the hash-table update cannot raise an IndexError: the mask `H(F_k2(w) ‖ count)` has exactly as many bytes as the
    `level ‖ bucket` field it is xor-ed with (the digest function returns digests of one positive length) -/
theorem htInsert_noIndexError (d : Nat) (hd0 : 0 < d) (hsha : ∀ m, (lv.sha m).length = d)
    (k1 k2 w : Bytes) (count i x : Nat) (c : List Bytes) (HT : Table) (e : Err)
    (h : htInsert cfg lv k1 k2 w count i x c HT = .error e) : e ≠ .indexError := by
  unfold htInsert at h
  split at h
  · cases h
  · simp only [bind, Except.bind] at h
    split at h
    · -- htKey failed
      rename_i e0 hk
      cases h
      simp only [htKey, bind, Except.bind] at hk
      split at hk
      · rename_i e1 hp
        cases hk
        unfold HmacPRF.call at hp
        split at hp
        · cases hp; decide
        · split at hp
          · cases hp; decide
          · cases hp
      · rename_i tag _
        obtain ⟨r, hr, _⟩ := C16.ctr_expand_len lv.sha d hsha hd0 (tag ++ natToBytesMin count) cfg.dsz
        unfold hashH at hk
        rw [hr] at hk; cases hk
    · split at h
      · rename_i key _ e0 hv
        cases h
        simp only [htVal, bind, Except.bind] at hv
        split at hv
        · rename_i e1 hib
          cases hv
          unfold intToBytesNat at hib
          split at hib
          · cases hib; decide
          · cases hib
        · rename_i ib hib
          split at hv
          · rename_i e1 hxb
            cases hv
            unfold intToBytesNat at hxb
            split at hxb
            · cases hxb; decide
            · cases hxb
          · rename_i xb hxb
            split at hv
            · rename_i e1 hp
              cases hv
              unfold HmacPRF.call at hp
              split at hp
              · cases hp; decide
              · split at hp
                · cases hp; decide
                · cases hp
            · rename_i vtag _
              obtain ⟨r, hr, hrl⟩ := C16.ctr_expand_len lv.sha d hsha hd0 (vtag ++ natToBytesMin count) cfg.dsz
              unfold hashH at hv
              rw [hr] at hv
              simp only at hv
              have l1 := (C17.int_roundtrip _ _ _ hib).2
              have l2 := (C17.int_roundtrip _ _ _ hxb).2
              unfold bytesXor at hv
              have hle : ¬ r.length > (ib ++ xb).length := by
                rw [List.length_append, l1, l2, hrl]
                have : (cfg.dsz : Int).toNat = cfg.dsz := by omega
                omega
              rw [if_neg hle] at hv
              cases hv
      · simp only [pure, Except.pure] at h
        cases h

/-! ### the level search -/

/-- a higher level fits whatever a lower one fits -/
theorem fits_mono (a b : Int) (n : Nat) (hab : a ≤ b) (ha0 : 0 ≤ a) (hL : 0 ≤ cfg.L) (h : fits cfg a n = true) :
    fits cfg b n = true := by
  unfold fits at h ⊢
  have hb0 : 0 ≤ b := by omega
  simp only [ha0, hb0, ge_iff_le, if_true, decide_eq_true_eq] at h ⊢
  have hpow : (2 ^ a.toNat : Nat) ≤ 2 ^ b.toNat := Nat.pow_le_pow_right (by decide) (by omega)
  have : cfg.L * ((2 ^ a.toNat : Nat) : Int) ≤ cfg.L * ((2 ^ b.toNat : Nat) : Int) :=
    Int.mul_le_mul_of_nonneg_left (by exact_mod_cast hpow) hL
  omega

/-- the binary search returns the first level that fits: no IndexError when the levels ascend, are non-negative and the
    last one fits -/
theorem findLoop_ok (levels : List Int) (n : Nat) (hL : 0 ≤ cfg.L)
    (hasc : ∀ (i j : Nat) (a b : Int), i ≤ j → levels[i]? = some a → levels[j]? = some b → a ≤ b)
    (hnn : ∀ a ∈ levels, 0 ≤ a)
    (f : Nat) (hf : f < levels.length) (hfit : ∀ a, levels[f]? = some a → fits cfg a n = true)
    (hfirst : ∀ (j : Nat) (a : Int), j < f → levels[j]? = some a → fits cfg a n = false)
    (fuel : Nat) (lo hi : Int) (hlo0 : 0 ≤ lo) (hlo : lo ≤ f) (hhi : (f : Int) - 1 ≤ hi) (hhi2 : hi ≤ levels.length)
    (hfuel : hi + 2 - lo ≤ fuel) : ∃ r, findLoop cfg levels n fuel lo hi = .ok r ∧ levels[f]? = some r := by
  induction fuel generalizing lo hi with
  | zero => omega
  | succ k ih =>
    simp only [findLoop]
    by_cases hle : lo ≤ hi
    · simp only [hle, if_true]
      have hmid0 : 0 ≤ (lo + hi) / 2 := by omega
      have hmidhi : (lo + hi) / 2 ≤ hi := by omega
      have hmidlo : lo ≤ (lo + hi) / 2 := by omega
      -- mid < length: mid = length would need lo = hi = length, but lo ≤ f < length
      have hmlt : ((lo + hi) / 2).toNat < levels.length := by omega
      have hget : levels[((lo + hi) / 2).toNat]? = some levels[((lo + hi) / 2).toNat] := List.getElem?_eq_getElem hmlt
      rw [hget]
      simp only
      by_cases hfm : fits cfg levels[((lo + hi) / 2).toNat] n = true
      · simp only [hfm, if_true]
        -- mid fits, so mid ≥ f
        have hge : f ≤ ((lo + hi) / 2).toNat := by
          rcases Nat.lt_or_ge ((lo + hi) / 2).toNat f with hlt | hge
          · have := hfirst _ _ hlt hget
            rw [hfm] at this; cases this
          · exact hge
        exact ih lo ((lo + hi) / 2 - 1) hlo0 hlo (by omega) (by omega) (by omega)
      · simp only [hfm, Bool.false_eq_true, if_false]
        -- mid does not fit, so mid < f (levels ascend, fits is monotone)
        have hlt : ((lo + hi) / 2).toNat < f := by
          rcases Nat.lt_or_ge ((lo + hi) / 2).toNat f with hlt | hge
          · exact hlt
          · have hfget : levels[f]? = some levels[f] := List.getElem?_eq_getElem hf
            have hab := hasc f _ _ _ hge hfget hget
            have := fits_mono cfg _ _ n hab (hnn _ (List.getElem_mem hf)) hL (hfit _ hfget)
            exact absurd this hfm
        exact ih ((lo + hi) / 2 + 1) hi (by omega) (by omega) hhi hhi2 (by omega)
    · simp only [hle, if_false]
      have hlof : lo = f := by omega
      have hn : ¬ lo < 0 := by omega
      simp only [hn, if_false]
      have : lo.toNat = f := by omega
      rw [this, List.getElem?_eq_getElem hf]
      exact ⟨_, rfl, rfl⟩

/-- `_find_adjacent_i` succeeds and returns a level of the list: ascending non-negative levels whose last one fits -/
theorem findAdjacent_ok (levels : List Int) (n : Nat) (hL : 0 ≤ cfg.L)
    (hasc : ∀ (i j : Nat) (a b : Int), i ≤ j → levels[i]? = some a → levels[j]? = some b → a ≤ b)
    (hnn : ∀ a ∈ levels, 0 ≤ a) (hlast : ∃ a ∈ levels, fits cfg a n = true) :
    ∃ i : Nat, findAdjacent cfg levels n = .ok (i : Int) := by
  have hflt := List.findIdx_lt_length_of_exists (p := fun a => fits cfg a n) hlast
  have hfp := List.findIdx_getElem (p := fun a => fits cfg a n) (w := hflt)
  obtain ⟨r, hr, hget⟩ := findLoop_ok cfg levels n hL hasc hnn (levels.findIdx fun a => fits cfg a n) hflt
    (fun a ha => by rw [List.getElem?_eq_getElem hflt] at ha; cases ha; exact hfp)
    (fun j a hj ha => by
      have hjl : j < levels.length := by omega
      rw [List.getElem?_eq_getElem hjl] at ha; cases ha
      have := List.not_of_lt_findIdx hj
      simpa using this)
    (levels.length + 2) 0 levels.length (by omega) (by omega) (by omega) (by omega) (by omega)
  have hr0 : 0 ≤ r := hnn r (List.mem_of_getElem? hget)
  refine ⟨r.toNat, ?_⟩
  unfold findAdjacent
  rw [hr]
  congr 1
  omega

end SSEPy.Sch.DP17
