/-
  Pi2Lev: the shape of the index.  The array has `arrayLen` cells and every occupied cell is the ciphertext of
  `mark ‖ block` with a block of exactly `B · idsize` bytes (identifier blocks and pointer blocks of both levels alike); the
  dictionary has one entry per keyword, each a PRF label and the ciphertext of `mark ‖ content` padded to `b · idsize` bytes —
  small lists, pointer lists and second-level pointer lists all fit that block.
-/
import SSEPyVerif.Proofs.Schemes.Pi2LevComplete
import SSEPyVerif.Proofs.Schemes.PiPtrShape
namespace SSEPy.Sch.Pi2Lev
open SSEPy.Sch

variable (cfg : Pi2LevCfg) (lv : Leaves)

theorem flatten_length_alike (xs : List Bytes) (m : Nat) (h : ∀ x ∈ xs, x.length = m) : xs.flatten.length = xs.length * m := by
  induction xs with
  | nil => simp
  | cons x xs ih =>
    simp only [List.flatten_cons, List.length_append, List.length_cons]
    rw [h x (by simp), ih (fun y hy => h y (by simp [hy])), Nat.succ_mul]
    omega

variable (hE : ∀ key x : Bytes, x.length = 16 → (lv.E key x).length = 16)
include hE

/-- ciphertext length of `mark ‖ blk` -/
theorem placeBlocks_shape (K2 : Bytes) (mark : UInt8) (blocks : List Bytes) (avail : List Nat) (A : List (Option Bytes)) (t : Tape)
    (ptrs : List Bytes) (avail' : List Nat) (A' : List (Option Bytes)) (t' : Tape)
    (h : placeBlocks cfg lv K2 mark blocks avail A t = .ok (ptrs, avail', A', t')) (m : Nat)
    (hm : ∀ b ∈ blocks, b.length = m) (hidx : 0 ≤ cfg.idxSize) :
    A'.length = A.length ∧ (∀ c, some c ∈ A' → some c ∈ A ∨ c.length = PiPtr.clen (1 + m)) ∧
    ptrs.length = blocks.length ∧ ∀ p ∈ ptrs, p.length = cfg.idxSize.toNat := by
  induction blocks generalizing avail A t ptrs with
  | nil =>
    simp [placeBlocks] at h
    obtain ⟨rfl, _, rfl, _⟩ := h
    exact ⟨rfl, fun c hc => Or.inl hc, rfl, fun p hp => by cases hp⟩
  | cons blk rest ih =>
    unfold placeBlocks at h
    split at h
    · cases h
    · rename_i pos hpos
      simp only [bind, Except.bind] at h
      split at h
      · cases h
      · rename_i ptr hptr
        split at h
        · cases h
        · rename_i r hr
          obtain ⟨d, t1⟩ := r
          simp only at h
          split at h
          · cases h
          · split at h
            · cases h
            · rename_i r2 hr2
              obtain ⟨ptrs', av2, A2, t2⟩ := r2
              simp only [pure, Except.pure] at h
              cases h
              obtain ⟨iv, hiv, hc⟩ := skeEncrypt_ok hr
              have hdl : d.length = PiPtr.clen (1 + m) := by
                have := C14.enc_len cfg.ske lv.E K2 iv (mark :: blk) d (hE K2) (Chain.takeBytes_len hiv) hc
                rw [this, List.length_cons, hm blk (by simp), Nat.add_comm m 1]; rfl
              obtain ⟨i1, i2, i3, i4⟩ := ih _ _ _ _ hr2 (fun b hb => hm b (by simp [hb]))
              refine ⟨by rw [i1]; simp, ?_, by simp [i3], ?_⟩
              · intro c hc'
                rcases i2 c hc' with hmem | hl
                · rcases List.mem_or_eq_of_mem_set hmem with hmem | he
                  · exact Or.inl hmem
                  · cases he; exact Or.inr hdl
                · exact Or.inr hl
              · intro p hp
                simp only [List.mem_cons] at hp
                rcases hp with rfl | hp
                · have e : intToBytes (pos : Int) cfg.idxSize = intToBytesNat pos cfg.idxSize.toNat := by
                    have : cfg.idxSize = ((cfg.idxSize.toNat : Nat) : Int) := by omega
                    rw [this]; exact (C17.int_wrapper_agrees pos cfg.idxSize.toNat).1
                  rw [e] at hptr
                  exact (C17.int_roundtrip pos _ _ hptr).2
                · exact i4 p hp

theorem dictEntry_shape (hd : ∀ k m, (lv.hmac k m).length = cfg.prfF.hashLen) (h0 : 0 < cfg.prfF.hashLen)
    (K1 K2 : Bytes) (mark : UInt8) (content : Bytes) (t t' : Tape) (e : Bytes × Bytes)
    (h : dictEntry cfg lv K1 K2 mark content t = .ok (e, t')) (hc : content.length ≤ (cfg.b * cfg.idSize).toNat) :
    e.1.length = cfg.prfF.outputLength.toNat ∧ e.2.length = PiPtr.clen (1 + (cfg.b * cfg.idSize).toNat) := by
  simp only [dictEntry, bind, Except.bind] at h
  split at h
  · cases h
  · rename_i l hl
    split at h
    · cases h
    · rename_i r hr
      obtain ⟨d, t1⟩ := r
      simp only [pure, Except.pure] at h
      cases h
      obtain ⟨iv, hiv, hce⟩ := skeEncrypt_ok hr
      refine ⟨(prf_ok cfg.prfF lv.hmac hd h0 K1 _ l hl).1, ?_⟩
      have := C14.enc_len cfg.ske lv.E K2 iv _ d (hE K2) (Chain.takeBytes_len hiv) hce
      rw [this]
      simp only [List.length_cons, List.length_append, zeros, List.length_replicate]
      have : content.length + ((cfg.b * cfg.idSize).toNat - content.length) + 1 = 1 + (cfg.b * cfg.idSize).toNat := by omega
      rw [this]; rfl

omit hE in
/-- a successful partition with a positive block size: the number of blocks and their common length -/
theorem part_facts (ids : List Bytes) (cap sz bs : Int) (blocks : List Bytes) (h : partitionBlocks ids cap sz bs = .ok blocks)
    (hcap : 0 < cap) (hsz : 0 ≤ sz) (hbs : 0 < bs) (hv : ∀ id ∈ ids, id.length = sz.toNat) :
    blocks.length = ceilDiv ids.length cap.toNat ∧ ∀ b ∈ blocks, b.length = bs.toNat := by
  have e : partitionBlocks ids cap sz bs = partitionBlocksNat ids cap.toNat sz.toNat bs.toNat := by
    unfold partitionBlocks
    have : (0 ≤ cap ∧ 0 ≤ sz ∧ 0 ≤ bs) := ⟨by omega, hsz, by omega⟩
    simp [this]
  rw [e] at h
  refine ⟨C17.partition_count ids cap.toNat sz.toNat bs.toNat (by omega) blocks h, ?_⟩
  have := C17.partition_block_len ids cap.toNat sz.toNat bs.toNat (by omega) hv blocks h
  have hne : bs.toNat ≠ 0 := by omega
  simpa [C17.effBs, hne] using this

/-- what one keyword contributes: cells of one length, a dictionary entry of one length -/
theorem storeKeyword_shape (hd : ∀ k m, (lv.hmac k m).length = cfg.prfF.hashLen) (h0 : 0 < cfg.prfF.hashLen)
    (hg : GoodCfg cfg) (K1 K2 : Bytes) (ids : List Bytes) (avail : List Nat) (A : List (Option Bytes)) (t : Tape)
    (e : Bytes × Bytes) (avail' : List Nat) (A' : List (Option Bytes)) (t' : Tape)
    (h : storeKeyword cfg lv K1 K2 ids avail A t = .ok (e, avail', A', t'))
    (hids : ∀ id ∈ ids, id.length = cfg.idSize.toNat) :
    A'.length = A.length ∧
    (∀ c, some c ∈ A' → some c ∈ A ∨ c.length = PiPtr.clen (1 + (cfg.B * cfg.idSize).toNat)) ∧
    e.1.length = cfg.prfF.outputLength.toNat ∧ e.2.length = PiPtr.clen (1 + (cfg.b * cfg.idSize).toNat) := by
  have hB := hg.B; have hb := hg.b; have hBp := hg.Bp; have hbp := hg.bp; have hI := hg.ids; have hX := hg.idx
  have ebI := toNat_mul cfg.b cfg.idSize hb hI
  have eBI := toNat_mul cfg.B cfg.idSize hB hI
  have hABpos : 0 < cfg.B * cfg.idSize := Int.mul_pos hB hI
  -- `bp · idx ≤ b · idsize`
  have hbpidx : cfg.bp.toNat * cfg.idxSize.toNat ≤ (cfg.b * cfg.idSize).toNat := by
    rw [← hg.idx1, Nat.mul_comm]; exact Nat.div_mul_le_self _ _
  unfold storeKeyword at h
  simp only [bind, Except.bind] at h
  split at h
  · -- small
    rename_i hsm
    split at h
    · cases h
    · rename_i r hr
      obtain ⟨e0, t1⟩ := r
      simp only [pure, Except.pure] at h
      cases h
      have hc : ids.flatten.length ≤ (cfg.b * cfg.idSize).toNat := by
        rw [flatten_length_alike ids _ hids, ebI]
        exact Nat.mul_le_mul_right _ (by omega)
      obtain ⟨d1, d2⟩ := dictEntry_shape cfg lv hE hd h0 K1 K2 0 _ t _ _ hr hc
      exact ⟨rfl, fun c hc => Or.inl hc, d1, d2⟩
  · split at h
    · -- medium
      rename_i hmed
      split at h
      · cases h
      · rename_i blocks hbl
        split at h
        · cases h
        · rename_i r hr
          obtain ⟨ptrs, avail1, A1, t1⟩ := r
          simp only at h
          split at h
          · cases h
          · rename_i r2 hr2
            obtain ⟨e0, t2⟩ := r2
            simp only [pure, Except.pure] at h
            cases h
            obtain ⟨bc, bl⟩ := part_facts ids cfg.B cfg.idSize _ blocks hbl hB (by omega) hABpos hids
            obtain ⟨p1, p2, p3, p4⟩ := placeBlocks_shape cfg lv hE K2 0 blocks avail A t ptrs _ _ t1 hr _ bl (by omega)
            have hcnt : ptrs.length ≤ cfg.bp.toNat := by
              rw [p3, bc]
              apply ceilDiv_le_of_le_mul _ _ _ (by omega)
              have : ((cfg.B.toNat * cfg.bp.toNat : Nat) : Int) = cfg.B * cfg.bp := by
                rw [Int.natCast_mul]; congr 1 <;> omega
              omega
            have hc : ptrs.flatten.length ≤ (cfg.b * cfg.idSize).toNat := by
              rw [flatten_length_alike ptrs _ p4]
              exact Nat.le_trans (Nat.mul_le_mul_right _ hcnt) hbpidx
            obtain ⟨d1, d2⟩ := dictEntry_shape cfg lv hE hd h0 K1 K2 1 _ t1 _ _ hr2 hc
            exact ⟨p1, p2, d1, d2⟩
    · split at h
      · -- large
        rename_i hlg
        split at h
        · cases h
        · rename_i blocks hbl
          split at h
          · cases h
          · rename_i r hr
            obtain ⟨ptrs, avail1, A1, t1⟩ := r
            simp only at h
            split at h
            · cases h
            · rename_i pblocks hpb
              split at h
              · cases h
              · rename_i r2 hr2
                obtain ⟨ptrs2, avail2, A2, t2⟩ := r2
                simp only at h
                split at h
                · cases h
                · rename_i r3 hr3
                  obtain ⟨e0, t3⟩ := r3
                  simp only [pure, Except.pure] at h
                  cases h
                  obtain ⟨bc, bl⟩ := part_facts ids cfg.B cfg.idSize _ blocks hbl hB (by omega) hABpos hids
                  obtain ⟨p1, p2, p3, p4⟩ := placeBlocks_shape cfg lv hE K2 0 blocks avail A t ptrs avail1 A1 t1 hr _ bl (by omega)
                  obtain ⟨qc, ql⟩ := part_facts ptrs cfg.Bp cfg.idxSize _ pblocks hpb hBp (by omega) hABpos p4
                  obtain ⟨q1, q2, q3, q4⟩ := placeBlocks_shape cfg lv hE K2 1 pblocks avail1 A1 t1 ptrs2 _ _ t2 hr2 _ ql (by omega)
                  have hcnt : ptrs2.length ≤ cfg.bp.toNat := by
                    rw [q3, qc, p3, bc, ceilDiv_ceilDiv _ _ _ (by omega) (by omega)]
                    apply ceilDiv_le_of_le_mul _ _ _ (Nat.mul_pos (by omega) (by omega))
                    have : ((cfg.B.toNat * cfg.Bp.toNat * cfg.bp.toNat : Nat) : Int) = cfg.B * cfg.Bp * cfg.bp := by
                      rw [Int.natCast_mul, Int.natCast_mul]; congr 1
                      · congr 1 <;> omega
                      · omega
                    omega
                  have hc : ptrs2.flatten.length ≤ (cfg.b * cfg.idSize).toNat := by
                    rw [flatten_length_alike ptrs2 _ q4]
                    exact Nat.le_trans (Nat.mul_le_mul_right _ hcnt) hbpidx
                  obtain ⟨d1, d2⟩ := dictEntry_shape cfg lv hE hd h0 K1 K2 1 _ t2 _ _ hr3 hc
                  refine ⟨by rw [q1, p1], ?_, d1, d2⟩
                  intro c hc'
                  rcases q2 c hc' with hm | hl
                  · exact p2 c hm
                  · exact Or.inr hl
      · cases h

theorem encDb_shape (hd : ∀ k m, (lv.hmac k m).length = cfg.prfF.hashLen) (h0 : 0 < cfg.prfF.hashLen)
    (hg : GoodCfg cfg) (K : Bytes) (db : DB) (avail : List Nat) (A : List (Option Bytes)) (t : Tape)
    (L : List (Bytes × Bytes)) (A' : List (Option Bytes)) (t' : Tape)
    (h : encDb cfg lv K db avail A t = .ok (L, A', t'))
    (hids : ∀ p ∈ db, ∀ id ∈ p.2, id.length = cfg.idSize.toNat) :
    A'.length = A.length ∧
    (∀ c, some c ∈ A' → some c ∈ A ∨ c.length = PiPtr.clen (1 + (cfg.B * cfg.idSize).toNat)) ∧
    L.map (fun p => (p.1.length, p.2.length)) =
      List.replicate db.length (cfg.prfF.outputLength.toNat, PiPtr.clen (1 + (cfg.b * cfg.idSize).toNat)) := by
  induction db generalizing avail A t L with
  | nil =>
    simp [encDb] at h
    obtain ⟨rfl, rfl, _⟩ := h
    exact ⟨rfl, fun c hc => Or.inl hc, rfl⟩
  | cons q rest ih =>
    obtain ⟨w, ids⟩ := q
    simp only [encDb, bind, Except.bind] at h
    split at h
    · cases h
    · rename_i tk _
      obtain ⟨K1, K2⟩ := tk
      simp only at h
      split at h
      · cases h
      · rename_i r hr
        obtain ⟨entry, avail1, A1, t1⟩ := r
        simp only at h
        split at h
        · cases h
        · rename_i r3 hr3
          obtain ⟨qs, A2, t3⟩ := r3
          simp only [pure, Except.pure] at h
          cases h
          obtain ⟨s1, s2, s3, s4⟩ := storeKeyword_shape cfg lv hE hd h0 hg K1 K2 ids avail A t entry avail1 A1 t1 hr
            (hids (w, ids) (by simp))
          obtain ⟨i1, i2, i3⟩ := ih _ _ _ _ hr3 (fun p hp => hids p (by simp [hp]))
          refine ⟨by rw [i1, s1], ?_, ?_⟩
          · intro c hc
            rcases i2 c hc with hm | hl
            · exact s2 c hm
            · exact Or.inr hl
          · simp only [List.map_cons, List.length_cons, List.replicate_succ, i3, s3, s4]

theorem setup_shape (hd : ∀ k m, (lv.hmac k m).length = cfg.prfF.hashLen) (h0 : 0 < cfg.prfF.hashLen)
    (hg : GoodCfg cfg) (K : Bytes) (db : DB) (t t' : Tape) (edb : PiPtrEDB) (h : setup cfg lv K db t = .ok (edb, t'))
    (hids : ∀ p ∈ db, ∀ id ∈ p.2, id.length = cfg.idSize.toNat)
    (hn : ∀ sample t0 L A t1, takeNats t = .ok (sample, t0) →
      encDb cfg lv K db sample (List.replicate (arrayLen cfg db) none) t0 = .ok (L, A, t1) → (L.map (·.1)).Nodup) :
    edb.A.length = arrayLen cfg db ∧
    (∀ c, some c ∈ edb.A → c.length = PiPtr.clen (1 + (cfg.B * cfg.idSize).toNat)) ∧
    (edb.D.map fun p => (p.1.length, p.2.length)).Perm
      (List.replicate db.length (cfg.prfF.outputLength.toNat, PiPtr.clen (1 + (cfg.b * cfg.idSize).toNat))) := by
  simp only [setup, bind, Except.bind] at h
  split at h
  · cases h
  · split at h
    · cases h
    · split at h
      · cases h
      · rename_i r hr
        obtain ⟨avail, t0⟩ := r
        simp only at h
        split at h
        · cases h
        · split at h
          · cases h
          · rename_i r2 hr2
            obtain ⟨L, A, t1⟩ := r2
            simp only [pure, Except.pure] at h
            cases h
            obtain ⟨e1, e2, e3⟩ := encDb_shape cfg lv hE hd h0 hg K db avail _ t0 L A _ hr2 hids
            refine ⟨by rw [e1]; simp, ?_, ?_⟩
            · intro c hc
              rcases e2 c hc with hm | hl
              · simp [List.mem_replicate] at hm
              · exact hl
            · have hp := SSEPy.Sch.buildTable_perm L (hn avail t0 L A _ hr hr2)
              exact (hp.map _).trans (List.Perm.of_eq e3)

end SSEPy.Sch.Pi2Lev
