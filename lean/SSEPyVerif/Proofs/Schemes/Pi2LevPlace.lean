/-
  Pi2Lev: WHERE the blocks kept in the array go (identifier blocks and second-level pointer blocks alike) is decided by the
  recorded `random.sample` alone: the array slots occupied after setup are exactly a tail of the sample — one popped slot
  per stored block — whatever the keywords, their order, their contents and their storage class.
-/
import SSEPyVerif.Proofs.Schemes.Pi2Lev
import SSEPyVerif.Proofs.Schemes.PiPtrPlace
namespace SSEPy.Sch.Pi2Lev
open SSEPy.Sch
open SSEPy.Sch.PiPtr (Occupied occupied_set)

variable (cfg : Pi2LevCfg) (lv : Leaves)

/-- the blocks of one placement take the slots popped from the end of the sample, one each -/
theorem placeBlocks_slots (K2 : Bytes) (mark : UInt8) (blocks : List Bytes) (avail : List Nat) (A : List (Option Bytes)) (t : Tape)
    (ptrs : List Bytes) (avail' : List Nat) (A' : List (Option Bytes)) (t' : Tape)
    (h : placeBlocks cfg lv K2 mark blocks avail A t = .ok (ptrs, avail', A', t')) :
    ∃ used, avail = avail' ++ used ∧ used.length = blocks.length ∧ A'.length = A.length ∧
      ∀ i, Occupied A' i ↔ Occupied A i ∨ i ∈ used := by
  induction blocks generalizing avail A t ptrs with
  | nil =>
    simp [placeBlocks] at h
    obtain ⟨_, rfl, rfl, _⟩ := h
    exact ⟨[], by simp, rfl, rfl, fun i => by simp⟩
  | cons blk rest ih =>
    simp only [placeBlocks] at h
    split at h
    · cases h
    · rename_i pos hpos
      simp only [bind, Except.bind] at h
      split at h
      · cases h
      · split at h
        · cases h
        · rename_i r _
          obtain ⟨d, t1⟩ := r
          simp only at h
          split at h
          · simp [throw, throwThe, MonadExceptOf.throw] at h
          · rename_i hlt
            simp only [pure, Except.pure] at h
            split at h
            · cases h
            · rename_i r2 hr2
              obtain ⟨ptrs', av', A2, t2⟩ := r2
              simp only at h
              cases h
              obtain ⟨used, h1, h2, h3, h4⟩ := ih _ _ _ _ hr2
              have hav : avail = avail.dropLast ++ [pos] := by
                have hne : avail ≠ [] := by intro e; simp [e] at hpos
                rw [List.getLast?_eq_some_getLast hne] at hpos
                cases hpos
                exact (List.dropLast_concat_getLast hne).symm
              refine ⟨used ++ [pos], ?_, by simp [h2], by simp [h3], ?_⟩
              · rw [hav, h1]; simp
              · intro i
                rw [h4 i, occupied_set A pos d (by omega) i]
                simp only [List.mem_append, List.mem_singleton]
                constructor
                · rintro ((h | h) | h)
                  · exact Or.inl h
                  · exact Or.inr (Or.inr h)
                  · exact Or.inr (Or.inl h)
                · rintro (h | h | h)
                  · exact Or.inl (Or.inl h)
                  · exact Or.inr h
                  · exact Or.inl (Or.inr h)

/-- one keyword, whatever its storage class: the slots it occupies are a tail of what was still available -/
theorem storeKeyword_slots (K1 K2 : Bytes) (ids : List Bytes) (avail : List Nat) (A : List (Option Bytes)) (t : Tape)
    (e : Bytes × Bytes) (avail' : List Nat) (A' : List (Option Bytes)) (t' : Tape)
    (h : storeKeyword cfg lv K1 K2 ids avail A t = .ok (e, avail', A', t')) :
    ∃ used, avail = avail' ++ used ∧ A'.length = A.length ∧ ∀ i, Occupied A' i ↔ Occupied A i ∨ i ∈ used := by
  unfold storeKeyword at h
  simp only [bind, Except.bind] at h
  split at h
  · -- small: nothing goes to the array
    split at h
    · cases h
    · rename_i r hr
      obtain ⟨e0, t1⟩ := r
      simp only [pure, Except.pure] at h
      cases h
      exact ⟨[], by simp, rfl, fun i => by simp⟩
  · split at h
    · -- medium: the identifier blocks
      split at h
      · cases h
      · rename_i blocks hbl
        split at h
        · cases h
        · rename_i r hr
          obtain ⟨ptrs, avail1, A1, t1⟩ := r
          simp only at h
          split at h
          · cases h
          · rename_i r2 hr2
            obtain ⟨e0, t2⟩ := r2
            simp only [pure, Except.pure] at h
            cases h
            obtain ⟨used, a1, _, a3, a4⟩ := placeBlocks_slots cfg lv K2 0 blocks avail A t ptrs _ _ t1 hr
            exact ⟨used, a1, a3, a4⟩
    · split at h
      · -- large: the identifier blocks, then the blocks of pointers to them
        split at h
        · cases h
        · rename_i blocks hbl
          split at h
          · cases h
          · rename_i r hr
            obtain ⟨ptrs, avail1, A1, t1⟩ := r
            simp only at h
            split at h
            · cases h
            · rename_i pblocks hpb
              split at h
              · cases h
              · rename_i r2 hr2
                obtain ⟨ptrs2, avail2, A2, t2⟩ := r2
                simp only at h
                split at h
                · cases h
                · rename_i r3 hr3
                  obtain ⟨e0, t3⟩ := r3
                  simp only [pure, Except.pure] at h
                  cases h
                  obtain ⟨used1, a1, _, a3, a4⟩ := placeBlocks_slots cfg lv K2 0 blocks avail A t ptrs _ _ t1 hr
                  obtain ⟨used2, b1, _, b3, b4⟩ := placeBlocks_slots cfg lv K2 1 pblocks avail1 A1 t1 ptrs2 _ _ t2 hr2
                  refine ⟨used2 ++ used1, by rw [a1, b1]; simp, by rw [b3, a3], ?_⟩
                  intro i
                  rw [b4 i, a4 i]
                  simp only [List.mem_append]
                  constructor
                  · rintro ((h | h) | h)
                    · exact Or.inl h
                    · exact Or.inr (Or.inr h)
                    · exact Or.inr (Or.inl h)
                  · rintro (h | h | h)
                    · exact Or.inl (Or.inl h)
                    · exact Or.inr h
                    · exact Or.inl (Or.inr h)
      · simp [throw, throwThe, MonadExceptOf.throw] at h

theorem encDb_slots (K : Bytes) (db : DB) (avail : List Nat) (A : List (Option Bytes)) (t : Tape)
    (L : List (Bytes × Bytes)) (A' : List (Option Bytes)) (t' : Tape)
    (h : encDb cfg lv K db avail A t = .ok (L, A', t')) :
    ∃ rest used, avail = rest ++ used ∧ A'.length = A.length ∧ ∀ i, Occupied A' i ↔ Occupied A i ∨ i ∈ used := by
  induction db generalizing avail A t L with
  | nil =>
    simp [encDb] at h
    obtain ⟨_, rfl, _⟩ := h
    exact ⟨avail, [], by simp, rfl, fun i => by simp⟩
  | cons p rest ih =>
    obtain ⟨w0, ids0⟩ := p
    simp only [encDb, bind, Except.bind] at h
    split at h
    · cases h
    · rename_i tk htk
      obtain ⟨K1, K2⟩ := tk
      simp only at h
      split at h
      · cases h
      · rename_i r hr
        obtain ⟨entry, avail1, A1, t1⟩ := r
        simp only at h
        split at h
        · cases h
        · rename_i r2 hr2
          obtain ⟨qs, A2, t2⟩ := r2
          simp only [pure, Except.pure] at h
          cases h
          obtain ⟨used1, a1, a3, a4⟩ := storeKeyword_slots cfg lv K1 K2 ids0 avail A t entry avail1 A1 t1 hr
          obtain ⟨r, used2, b1, b3, b4⟩ := ih avail1 A1 t1 qs hr2
          refine ⟨r, used2 ++ used1, by rw [a1, b1]; simp, by rw [b3, a3], ?_⟩
          intro i
          rw [b4 i, a4 i]
          simp only [List.mem_append]
          constructor
          · rintro ((h | h) | h)
            · exact Or.inl h
            · exact Or.inr (Or.inr h)
            · exact Or.inr (Or.inl h)
          · rintro (h | h | h)
            · exact Or.inl (Or.inl h)
            · exact Or.inr h
            · exact Or.inl (Or.inr h)

/-- Pi2Lev: after setup the occupied array slots are exactly a tail of the recorded `random.sample` -/
theorem setup_slots (K : Bytes) (db : DB) (t t' : Tape) (edb : PiPtrEDB) (h : setup cfg lv K db t = .ok (edb, t'))
    (sample : List Nat) (t0 : Tape) (hs : takeNats t = .ok (sample, t0)) :
    ∃ n, n ≤ sample.length ∧ ∀ i, Occupied edb.A i ↔ i ∈ sample.drop (sample.length - n) := by
  simp only [setup, bind, Except.bind] at h
  split at h
  · cases h
  · split at h
    · cases h
    · split at h
      · cases h
      · rename_i r hr0
        obtain ⟨avail, t00⟩ := r
        rw [hs] at hr0
        cases hr0
        simp only at h
        split at h
        · cases h
        · split at h
          · cases h
          · rename_i r2 hr
            obtain ⟨L, A, t1⟩ := r2
            simp only [pure, Except.pure] at h
            cases h
            obtain ⟨rest, used, b1, _, b4⟩ := encDb_slots cfg lv K db sample _ t0 L A _ hr
            refine ⟨used.length, by rw [b1]; simp, ?_⟩
            intro i
            rw [b4 i]
            have hno : ¬ Occupied (List.replicate (arrayLen cfg db) (none : Option Bytes)) i := by
              rintro ⟨d, hd⟩
              rw [List.getElem?_replicate] at hd
              split at hd <;> cases hd
            have hdrop : sample.drop (sample.length - used.length) = used := by
              rw [b1, List.length_append]
              have : rest.length + used.length - used.length = rest.length := by omega
              rw [this, List.drop_left]
            rw [hdrop]
            simp [hno]

end SSEPy.Sch.Pi2Lev
