/-
  CT14: `Setup` never raises.  The only failure left in the model for a database of non-empty lists, a key of `param_k`
  bytes and an accepted configuration is `.miss` (recorded randomness exhausted).  In particular no IndexError: a chunk of
  2^j identifiers is pushed to level j ≤ ⌊log2 |DB(w)|⌋ ≤ t, and there are t + 1 levels (commit f819d98).
-/
import SSEPyVerif.Proofs.Schemes.ANSS16Complete
import SSEPyVerif.Proofs.Schemes.CT14Shape
namespace SSEPy.Sch.CT14
open SSEPy.Sch

variable (cfg : CT14Cfg) (lv : Leaves)

/-- what the scheme needs of an accepted configuration -/
structure Usable : Prop where
  plain : PlainSke cfg.ske
  skeKey : cfg.ske.keyLength = cfg.kPrime
  fKey : cfg.prfF.keyLength = cfg.k
  fMsg : cfg.prfF.messageLength = LENGTH_UNLIMITED
  fOut : cfg.prfF.outputLength = cfg.k + cfg.kPrime
  fHash : cfg.prfF.hashLen = 20
  pKey : cfg.prfFPrime.keyLength = cfg.k
  pMsg : cfg.prfFPrime.messageLength = LENGTH_UNLIMITED
  pos : 0 < cfg.k ∧ 0 < cfg.kPrime

variable (hl : LeafLaws lv) (hu : Usable cfg)
include hl hu

/-- `_Trap` succeeds for a key of `param_k` bytes; the two halves have `param_k` and `param_k_prime` bytes -/
theorem token_ok (K w : Bytes) (hK : (K.length : Int) = cfg.k) :
    ∃ K0 K1, token cfg lv K w = .ok (K0, K1) ∧ K0.length = cfg.k.toNat ∧ K1.length = cfg.kPrime.toNat := by
  have hcall : cfg.prfF.call lv.hmac K w = .ok (tlsPHash lv.hmac cfg.prfF.hashLen K w cfg.prfF.outputLength) := by
    unfold HmacPRF.call
    simp [hu.fKey, hu.fMsg, hK]
  have hlen := (prf_ok cfg.prfF lv.hmac (by rw [hu.fHash]; exact hl.hmac_len) (by rw [hu.fHash]; decide) K w _ hcall).1
  obtain ⟨p1, p2⟩ := hu.pos
  refine ⟨_, _, by simp [token, hcall, bind, Except.bind, pure, Except.pure]; exact ⟨rfl, rfl⟩, ?_, ?_⟩
  · rw [List.length_take, hlen, hu.fOut]; omega
  · rw [List.length_drop, hlen, hu.fOut]; omega

theorem chunkLoop_onlyMiss (Kw0 Kw1 : Bytes) (ids : List Bytes) (j1 c : Nat) (Ls : List (List (Bytes × Bytes))) (t : Tape)
    (h0 : (Kw0.length : Int) = cfg.k) (h1 : (Kw1.length : Int) = cfg.kPrime) (hj : j1 ≤ Ls.length) :
    OnlyMiss (chunkLoop cfg lv Kw0 Kw1 ids j1 c Ls t) := by
  induction j1 generalizing c Ls t with
  | zero => exact OnlyMiss.pure _
  | succ j ih =>
    unfold chunkLoop
    dsimp only
    split
    · exact ih _ _ _ (by omega)
    · apply OnlyMiss.bind (encAll_onlyMiss cfg.ske lv hu.plain Kw1 _ t (by rw [h1, hu.skeKey]))
      intro ⟨cs, t1⟩ _
      have hcall : ∃ l, cfg.prfFPrime.call lv.hmac Kw0 (natToBytesMin j) = .ok l := by
        unfold HmacPRF.call
        simp [hu.pKey, hu.pMsg, h0]
      obtain ⟨l, hcall⟩ := hcall
      apply OnlyMiss.bind (by rw [hcall]; exact OnlyMiss.pure _)
      intro l' _
      have hpush : ∃ Ls', pushAt Ls j (l', cs.flatten) = .ok Ls' := by
        unfold pushAt
        rw [List.getElem?_eq_getElem (show j < Ls.length by omega)]
        exact ⟨_, rfl⟩
      obtain ⟨Ls', hLs'⟩ := hpush
      apply OnlyMiss.bind (by rw [hLs']; exact OnlyMiss.pure _)
      intro Ls'' hLs''
      rw [hLs'] at hLs''; cases hLs''
      exact ih _ _ _ (by rw [ANSS16.pushAt_length _ _ _ _ hLs']; omega)

theorem encDb_onlyMiss (K : Bytes) (hK : (K.length : Int) = cfg.k) (db : DB) (Ls : List (List (Bytes × Bytes))) (t : Tape)
    (hlen : ∀ p ∈ db, 1 ≤ p.2.length ∧ Nat.log2 p.2.length + 1 ≤ Ls.length) :
    OnlyMiss (encDb cfg lv K db Ls t) := by
  induction db generalizing Ls t with
  | nil => exact OnlyMiss.pure _
  | cons q rest ih =>
    obtain ⟨w, ids⟩ := q
    obtain ⟨h1, h2⟩ := hlen (w, ids) (by simp)
    simp only at h1 h2
    obtain ⟨K0, K1, htk, hk0, hk1⟩ := token_ok cfg lv hl hu K w hK
    unfold encDb
    apply OnlyMiss.bind (by rw [htk]; exact OnlyMiss.pure _)
    intro tk htk'
    rw [htk] at htk'; cases htk'
    dsimp only
    split
    · rename_i h0; omega
    · have p1 := hu.pos.1
      have p2 := hu.pos.2
      apply OnlyMiss.bind (chunkLoop_onlyMiss cfg lv hl hu K0 K1 ids _ 0 Ls t (by rw [hk0]; omega) (by rw [hk1]; omega) h2)
      intro ⟨Ls1, t1⟩ hcl
      apply ih
      intro p hp
      have := hlen p (by simp [hp])
      rw [(chunkLoop_levelLen cfg lv _ _ _ _ _ _ _ _ _ hcl).1]
      exact this

omit hl in
theorem padLevels_onlyMiss (tt i : Nat) (Ts : List (List (Bytes × Bytes))) (t : Tape) :
    OnlyMiss (padLevels cfg lv tt i Ts t) := by
  induction Ts generalizing i t with
  | nil => exact OnlyMiss.pure _
  | cons L rest ih =>
    unfold padLevels
    apply OnlyMiss.bind (cipherLen_onlyMiss cfg.ske lv hu.plain _ _ t (by rw [hu.skeKey]; have := hu.pos.2; omega))
    intro ⟨clen, t1⟩ _
    apply OnlyMiss.bind (fillers_onlyMiss _ _ _ t1)
    intro ⟨fs, t2⟩ _
    apply OnlyMiss.bind (ih (i + 1) t2)
    intro ⟨more, t3⟩ _
    exact OnlyMiss.pure _

omit hl hu in
theorem log2_le (n k : Nat) (h1 : 1 ≤ n) (h : n ≤ 2 ^ k) : Nat.log2 n ≤ k := by
  have hn : n ≠ 0 := by omega
  have : Nat.log2 n < k + 1 := (Nat.log2_lt hn).mpr (by rw [Nat.pow_succ]; have := Nat.two_pow_pos k; omega)
  omega

/-- CT14: building the index of a database whose lists are non-empty can only fail by exhausting the recorded randomness -/
theorem setup_onlyMiss (K : Bytes) (hK : (K.length : Int) = cfg.k) (db : DB) (t : Tape) (hne : db ≠ [])
    (hlists : ∀ p ∈ db, 1 ≤ p.2.length) : OnlyMiss (setup cfg lv K db t) := by
  have htot : db.total ≠ 0 := by
    cases db with
    | nil => exact absurd rfl hne
    | cons q rest =>
      have := hlists q (by simp)
      simp only [DB.total, List.map_cons, List.sum_cons]; omega
  unfold setup
  apply OnlyMiss.bind (x := setupLists cfg lv K db t)
  · unfold setupLists
    dsimp only
    split
    · rename_i h0; exact absurd h0 htot
    · generalize htt : clog2 db.total = tt
      have hcap : db.total ≤ 2 ^ tt := by rw [← htt]; exact ANSS16.le_two_pow_clog2 _
      apply OnlyMiss.bind (padLoop_onlyMiss _ _ _ db db.total t (by omega))
      intro ⟨pdb, t1⟩ hpad
      have hlens := ANSS16.padLoop_lens _ _ _ db db.total t pdb t1 hpad
        (fun p hp => ⟨hlists p hp, Nat.le_trans (ANSS16.mem_len_le_total db p hp) hcap⟩)
      apply OnlyMiss.bind (encDb_onlyMiss cfg lv hl hu K hK pdb _ t1 (fun p hp => by
        obtain ⟨a, b⟩ := hlens p hp
        exact ⟨a, by simp; exact log2_le _ _ a b⟩))
      intro ⟨Ls, t2⟩ _
      exact padLevels_onlyMiss cfg lv hu tt 0 Ls t2
  · intro ⟨TL, t'⟩ _
    exact OnlyMiss.pure _

omit hl hu in
/-- every accepted configuration is usable -/
theorem cfgBuild_usable (raw : RawCfg) (h : CT14.cfgBuild raw = .ok cfg) : Usable cfg := by
  unfold CT14.cfgBuild at h
  simp only [bind, Except.bind] at h
  repeat (split at h; (try cases h))
  all_goals (try (simp only [pure, Except.pure] at h))
  rename_i hp _ _ hx _ k hk _ kp hkp _ l hgl _ ids _ _ _ _ _ ske hske
  cases h
  have pk := param_pos _ raw "param_k" k hp hx (by decide +kernel) (by simp) hk
  have pkp := param_pos _ raw "param_k_prime" kp hp hx (by decide +kernel) (by simp) hkp
  obtain ⟨hplain, hkl⟩ := new_plain kp ske hske
  refine ⟨hplain, hkl, rfl, rfl, ?_, rfl, rfl, rfl, pk, pkp⟩
  simp only [HmacPRF.new]
  have : (k + kp == LENGTH_NOT_GIVEN) = false := by simp [LENGTH_NOT_GIVEN]; omega
  simp [this]

end SSEPy.Sch.CT14
