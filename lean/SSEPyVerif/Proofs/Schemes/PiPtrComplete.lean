/-
  PiPtr: `Setup` never raises (accepted configuration with prf_f_output_length = param_lambda, key of λ bytes, any database,
  a recorded `random.sample` that is a sample of range(1, |A|)): the only failure left in the model is `.miss`.
  No IndexError from popping free slots (there are exactly as many as identifier blocks), none from writing the array, no
  OverflowError from the pointer width `⌈log2 |A| / 8⌉`.
-/
import SSEPyVerif.Proofs.Schemes.ANSS16Complete
import SSEPyVerif.Proofs.Schemes.PiPtrPlace
namespace SSEPy.Sch.PiPtr
open SSEPy.Sch

variable (cfg : PiPtrCfg) (lv : Leaves)

structure Usable : Prop where
  plain : PlainSke cfg.ske
  skeKey : cfg.ske.keyLength = cfg.lambda
  fKey : cfg.prfF.keyLength = cfg.lambda
  fMsg : cfg.prfF.messageLength = LENGTH_UNLIMITED
  fOut : cfg.prfF.outputLength = cfg.lambda
  fHash : cfg.prfF.hashLen = 20
  pos : 0 < cfg.lambda ∧ 0 < cfg.B ∧ 0 < cfg.b ∧ 0 < cfg.idSize

variable (hl : LeafLaws lv) (hu : Usable cfg)
include hl hu

theorem prf_call (key msg : Bytes) (hk : (key.length : Int) = cfg.lambda) :
    ∃ out, cfg.prfF.call lv.hmac key msg = .ok out ∧ (out.length : Int) = cfg.lambda := by
  have hcall : cfg.prfF.call lv.hmac key msg = .ok (tlsPHash lv.hmac cfg.prfF.hashLen key msg cfg.prfF.outputLength) := by
    unfold HmacPRF.call
    simp [hu.fKey, hu.fMsg, hk]
  have hlen := (prf_ok cfg.prfF lv.hmac (by rw [hu.fHash]; exact hl.hmac_len) (by rw [hu.fHash]; decide) key msg _ hcall).1
  refine ⟨_, hcall, ?_⟩
  rw [hlen, hu.fOut]
  have := hu.pos.1
  omega

omit hl hu in
theorem partition_ok (ids : List Bytes) (cap sz : Int) (hcap : 0 < cap) (hsz : 0 ≤ sz) :
    ∃ blocks, partitionBlocks ids cap sz = .ok blocks ∧ blocks.length = ceilDiv ids.length cap.toNat := by
  have e : partitionBlocks ids cap sz = partitionBlocksNat ids cap.toNat sz.toNat 0 := by
    unfold partitionBlocks
    have : (0 ≤ cap ∧ 0 ≤ sz ∧ (0 : Int) ≤ 0) := ⟨by omega, hsz, by omega⟩
    simp [this]
  have hne : cap.toNat ≠ 0 := by omega
  have hok : ∃ blocks, partitionBlocksNat ids cap.toNat sz.toNat 0 = .ok blocks := by
    unfold partitionBlocksNat
    simp [hne]
  obtain ⟨blocks, hb⟩ := hok
  exact ⟨blocks, by rw [e, hb], C17.partition_count ids cap.toNat sz.toNat 0 (by omega) blocks hb⟩

omit hl in
theorem placeBlocks_onlyMiss (K2 : Bytes) (idx : Nat) (blocks : List Bytes) (avail : List Nat) (A : List (Option Bytes)) (t : Tape)
    (hk : (K2.length : Int) = cfg.lambda) (hav : blocks.length ≤ avail.length)
    (hp : ∀ p ∈ avail, p < A.length ∧ p < 256 ^ idx) : OnlyMiss (placeBlocks cfg lv K2 idx blocks avail A t) := by
  induction blocks generalizing avail A t with
  | nil => exact OnlyMiss.pure _
  | cons blk rest ih =>
    unfold placeBlocks
    have hne : avail ≠ [] := by intro e; rw [e] at hav; simp at hav
    rw [List.getLast?_eq_some_getLast hne]
    dsimp only
    have hmem : avail.getLast hne ∈ avail := List.getLast_mem hne
    obtain ⟨q1, q2⟩ := hp _ hmem
    have hptr : ∃ ptr, intToBytesNat (avail.getLast hne) idx = .ok ptr := by
      unfold intToBytesNat
      have : ¬ avail.getLast hne ≥ 256 ^ idx := by omega
      simp [this]
    obtain ⟨ptr, hptr⟩ := hptr
    apply OnlyMiss.bind (by rw [hptr]; exact OnlyMiss.pure _)
    intro ptr' _
    apply OnlyMiss.bind (skeEncrypt_onlyMiss cfg.ske lv hu.plain K2 blk t (by rw [hk, hu.skeKey]))
    intro ⟨d, t1⟩ _
    dsimp only
    split
    · rename_i hge; omega
    · apply OnlyMiss.bind (ih avail.dropLast (A.set (avail.getLast hne) (some d)) t1
        (by simp at hav ⊢; omega)
        (fun p hp' => by
          have := hp p ((List.dropLast_sublist avail).subset hp')
          simpa using this))
      intro ⟨ptrs, avail', A', t2⟩ _
      exact OnlyMiss.pure _

omit hl in
theorem encChunks_onlyMiss (K1 K2 : Bytes) (c : Nat) (chs : List Bytes) (t : Tape)
    (h1 : (K1.length : Int) = cfg.lambda) (h2 : (K2.length : Int) = cfg.lambda) :
    OnlyMiss (Chain.encChunks cfg.chain lv K1 K2 c chs t) := by
  induction chs generalizing c t with
  | nil => exact OnlyMiss.pure _
  | cons ch rest ih =>
    unfold Chain.encChunks
    have hcall : ∃ l, cfg.chain.prfF.call lv.hmac K1 (natToBytesMin c) = .ok l := by
      show ∃ l, cfg.prfF.call lv.hmac K1 (natToBytesMin c) = .ok l
      unfold HmacPRF.call
      simp [hu.fKey, hu.fMsg, h1]
    obtain ⟨l, hcall⟩ := hcall
    apply OnlyMiss.bind (by rw [hcall]; exact OnlyMiss.pure _)
    intro l' _
    apply OnlyMiss.bind (skeEncrypt_onlyMiss cfg.ske lv hu.plain K2 ch t (by rw [h2, hu.skeKey]))
    intro ⟨d, t1⟩ _
    apply OnlyMiss.bind (ih (c + 1) t1)
    intro ⟨ps, t2⟩ _
    exact OnlyMiss.pure _

theorem encDb_onlyMiss (K : Bytes) (hK : (K.length : Int) = cfg.lambda) (idx : Nat) (db : DB) (avail : List Nat)
    (A : List (Option Bytes)) (t : Tape) (hav : nBlocks cfg db ≤ avail.length)
    (hp : ∀ p ∈ avail, p < A.length ∧ p < 256 ^ idx) : OnlyMiss (encDb cfg lv K idx db avail A t) := by
  induction db generalizing avail A t with
  | nil => exact OnlyMiss.pure _
  | cons q rest ih =>
    obtain ⟨w, ids⟩ := q
    obtain ⟨K1, hK1, l1⟩ := prf_call cfg lv hl hu K (1 :: w) hK
    obtain ⟨K2, hK2, l2⟩ := prf_call cfg lv hl hu K (2 :: w) hK
    have htk : token cfg lv K w = .ok (K1, K2) := by simp [token, hK1, hK2, bind, Except.bind, pure, Except.pure]
    obtain ⟨pL, pB, pb, pI⟩ := hu.pos
    obtain ⟨blocks, hbl, hbn⟩ := partition_ok ids cfg.B cfg.idSize pB (by omega)
    have hnb : nBlocks cfg ((w, ids) :: rest) = blocks.length + nBlocks cfg rest := by
      rw [nBlocks_cons]; simp [kwBlocks, hbl]
    rw [hnb] at hav
    unfold encDb
    apply OnlyMiss.bind (by rw [htk]; exact OnlyMiss.pure _)
    intro tk htk'
    rw [htk] at htk'; cases htk'
    apply OnlyMiss.bind (by rw [hbl]; exact OnlyMiss.pure _)
    intro bl' hbl'
    rw [hbl] at hbl'; cases hbl'
    apply OnlyMiss.bind (placeBlocks_onlyMiss cfg lv hu K2 idx blocks avail A t l2 (by omega) hp)
    intro ⟨ptrs, avail1, A1, t1⟩ hpl
    obtain ⟨used, a1, a2, a3, _⟩ := placeBlocks_slots cfg lv K2 idx blocks avail A t ptrs avail1 A1 t1 hpl
    obtain ⟨pblocks, hpb, _⟩ := partition_ok ptrs cfg.b idx pb (by omega)
    apply OnlyMiss.bind (by rw [hpb]; exact OnlyMiss.pure _)
    intro pb' hpb'
    rw [hpb] at hpb'; cases hpb'
    apply OnlyMiss.bind (encChunks_onlyMiss cfg lv hu K1 K2 0 pblocks t1 l1 l2)
    intro ⟨ps, t2⟩ _
    apply OnlyMiss.bind (ih avail1 A1 t2
      (by have := congrArg List.length a1; simp at this; omega)
      (fun p hp' => by
        have := hp p (by rw [a1]; exact List.mem_append_left _ hp')
        rw [a3]; exact this))
    intro ⟨qs, A2, t3⟩ _
    exact OnlyMiss.pure _

omit hl hu in
theorem nBlocks_arrayLen (hB : 0 < cfg.B) (hI : 0 < cfg.idSize) (db : DB) : nBlocks cfg db = arrayLen cfg db - 1 := by
  unfold arrayLen
  have : nBlocks cfg db = (db.map fun p => ceilDiv p.2.length cfg.B.toNat).sum := by
    unfold nBlocks
    congr 1
    apply List.map_congr_left
    intro p _
    obtain ⟨blocks, hbl, hbn⟩ := partition_ok p.2 cfg.B cfg.idSize hB (by omega)
    simp [hbl, hbn]
  omega

/-- PiPtr: `EDBSetup` can only fail by exhausting the recorded randomness -/
theorem setup_onlyMiss (K : Bytes) (hK : (K.length : Int) = cfg.lambda) (db : DB) (t : Tape)
    (hsample : ∀ sample t0, takeNats t = .ok (sample, t0) → ∀ p ∈ sample, p < arrayLen cfg db) :
    OnlyMiss (setup cfg lv K db t) := by
  unfold setup
  dsimp only
  intro e h
  cases hs : takeNats t with
  | error e' =>
    rw [hs] at h
    simp only [bind, Except.bind] at h
    cases h
    unfold takeNats at hs
    split at hs <;> cases hs; rfl
  | ok r =>
    obtain ⟨sample, t0⟩ := r
    rw [hs] at h
    simp only [bind, Except.bind] at h
    split at h
    · rename_i hne
      simp [throw, throwThe, MonadExceptOf.throw] at h
      exact h.symm
    · rename_i heq
      have hlen : sample.length = arrayLen cfg db - 1 := by
        by_cases e : sample.length = arrayLen cfg db - 1
        · exact e
        · exact absurd e heq
      simp only [pure, Except.pure] at h
      obtain ⟨pL, pB, pb, pI⟩ := hu.pos
      have hom := encDb_onlyMiss cfg lv hl hu K hK (bytesFor (arrayLen cfg db)) db sample
        (List.replicate (arrayLen cfg db) none) t0
        (by rw [nBlocks_arrayLen cfg pB pI db, hlen]; exact Nat.le_refl _)
        (fun p hp => by
          have hlt := hsample sample t0 hs p hp
          refine ⟨by simpa using hlt, ?_⟩
          have h1 : arrayLen cfg db ≤ 2 ^ clog2 (arrayLen cfg db) := ANSS16.le_two_pow_clog2 _
          have e : (256 : Nat) = 2 ^ 8 := by decide
          unfold bytesFor
          rw [e, ← Nat.pow_mul]
          have hge : clog2 (arrayLen cfg db) ≤ 8 * ceilDiv (clog2 (arrayLen cfg db)) 8 := by unfold ceilDiv; omega
          calc p < arrayLen cfg db := hlt
            _ ≤ 2 ^ clog2 (arrayLen cfg db) := h1
            _ ≤ 2 ^ (8 * ceilDiv (clog2 (arrayLen cfg db)) 8) := Nat.pow_le_pow_right (by decide) hge)
      split at h
      · rename_i e' he'
        cases h
        exact hom _ he'
      · cases h

omit hl hu in
/-- an accepted configuration whose PRF outputs have `param_lambda` bytes is usable -/
theorem cfgBuild_usable (raw : RawCfg) (h : PiPtr.cfgBuild raw = .ok cfg)
    (hout : getInt raw "prf_f_output_length" = getInt raw "param_lambda") : Usable cfg := by
  obtain ⟨pB, pb, pI, hplain⟩ := cfgBuild_ok cfg raw h
  unfold PiPtr.cfgBuild at h
  simp only [bind, Except.bind] at h
  repeat (split at h; (try cases h))
  all_goals (try (simp only [pure, Except.pure] at h))
  rename_i hpos _ _ hex _ lam hlam _ B hB _ b hb _ out ho _ ids hids _ _ _ ske hske
  cases h
  rw [hlam, ho] at hout
  cases hout
  have hk := new_keyLength lam ske hske
  have hne : (lam == LENGTH_NOT_GIVEN) = false := by simp [LENGTH_NOT_GIVEN]; omega
  have hlp : 0 < lam := by omega
  refine ⟨hplain, (new_plain lam ske hske).2, rfl, rfl, ?_, rfl, hlp, pB, pb, pI⟩
  simp [HmacPRF.new, hne]

end SSEPy.Sch.PiPtr
