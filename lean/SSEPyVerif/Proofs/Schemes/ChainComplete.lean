/-
  Counter-chain schemes (PiBas, PiPack): `Setup` DOES return — for every key of the declared length, every database the
  packer accepts and every tape that supplies one 16-byte IV per stored block — when the PRF's outputs have the length
  the PRF and the cipher take as keys (`prf_f_output_length = param_lambda`).
-/
import SSEPyVerif.Proofs.Schemes.ChainCfg
namespace SSEPy.Sch.Chain
open SSEPy.Sch

variable (cfg : ChainCfg) (lv : Leaves)

/-- the tape starts with `n` draws of 16 bytes (the IVs of `n` encryptions) -/
def Supplies : Nat → Tape → Prop
  | 0, _ => True
  | n + 1, .bytes b :: t => b.length = 16 ∧ Supplies n t
  | _ + 1, _ => False

/-- a configuration in which the chain can run: the PRF takes messages of any length, and its outputs are used as its
    own keys (`K1`) and as cipher keys (`K2`) -/
structure Runnable : Prop where
  msg : cfg.prfF.messageLength = LENGTH_UNLIMITED
  keyOut : cfg.prfF.keyLength = cfg.prfF.outputLength
  skeKey : cfg.ske.keyLength = cfg.prfF.outputLength
  outPos : 0 ≤ cfg.prfF.outputLength
  hash : cfg.prfF.hashLen = 20
  plain : PlainSke cfg.ske

/-- a PRF call with a key of the declared length succeeds and returns `output_length` bytes -/
theorem prf_call_ok (p : HmacPRF) (hmac : Hmac) (hd : ∀ k m, (hmac k m).length = p.hashLen) (h0 : 0 < p.hashLen)
    (hm : p.messageLength = LENGTH_UNLIMITED) (key msg : Bytes) (hk : (key.length : Int) = p.keyLength) :
    ∃ out, p.call hmac key msg = .ok out ∧ out.length = p.outputLength.toNat := by
  have h : p.call hmac key msg = .ok (tlsPHash hmac p.hashLen key msg p.outputLength) := by
    unfold HmacPRF.call
    simp [hk, hm]
  exact ⟨_, h, (prf_ok p hmac hd h0 key msg _ h).1⟩

theorem skeEncrypt_complete (ske : AESxCBC) (hp : PlainSke ske) (key msg b : Bytes) (t : Tape)
    (hk : (key.length : Int) = ske.keyLength) (hb : b.length = 16) :
    ∃ c, skeEncrypt ske lv key msg (.bytes b :: t) = .ok (c, t) := by
  have he : ∀ iv, ∃ c, ske.encrypt lv.E key iv msg = .ok c := by
    intro iv
    unfold AESxCBC.encrypt
    simp [hp.2, hk]
  obtain ⟨c0, h0⟩ := he (zeros 16)
  obtain ⟨c, hc⟩ := he b
  exact ⟨c, by simp [skeEncrypt, h0, takeBytes, hb, hc, bind, Except.bind, pure, Except.pure]⟩

variable (hl : LeafLaws lv) (hr : Runnable cfg)
include hl hr

theorem encChunks_complete (K1 K2 : Bytes) (c : Nat) (chs : List Bytes) (m : Nat) (t : Tape)
    (h1 : (K1.length : Int) = cfg.prfF.keyLength) (h2 : (K2.length : Int) = cfg.ske.keyLength)
    (hs : Supplies (chs.length + m) t) :
    ∃ ps t', encChunks cfg lv K1 K2 c chs t = .ok (ps, t') ∧ Supplies m t' := by
  induction chs generalizing c t with
  | nil => exact ⟨[], t, rfl, by simpa using hs⟩
  | cons ch rest ih =>
    have hd : ∀ k m, (lv.hmac k m).length = cfg.prfF.hashLen := by rw [hr.hash]; exact hl.hmac_len
    obtain ⟨l, hl', _⟩ := prf_call_ok cfg.prfF lv.hmac hd (by rw [hr.hash]; decide) hr.msg K1 (natToBytesMin c) h1
    have e : (ch :: rest).length + m = (rest.length + m) + 1 := by simp; omega
    rw [e] at hs
    match t, hs with
    | .bytes b :: t1, ⟨hb, hs1⟩ =>
      obtain ⟨d, hd'⟩ := skeEncrypt_complete lv cfg.ske hr.plain K2 ch b t1 h2 hb
      obtain ⟨ps, t', hps, hsup⟩ := ih (c + 1) t1 hs1
      exact ⟨(l, d) :: ps, t', by simp [encChunks, hl', hd', hps, bind, Except.bind, pure, Except.pure], hsup⟩

/-- the number of blocks a keyword's list is packed into -/
def nBlocks (p : Bytes × List Bytes) : Nat :=
  match cfg.pack p.2 with
  | .ok chs => chs.length
  | .error _ => 0

theorem encDb_complete (K : Bytes) (db : DB) (m : Nat) (t : Tape) (hK : (K.length : Int) = cfg.prfF.keyLength)
    (hpack : ∀ p ∈ db, ∃ chs, cfg.pack p.2 = .ok chs) (hs : Supplies ((db.map (nBlocks cfg)).sum + m) t) :
    ∃ L t', encDb cfg lv K db t = .ok (L, t') ∧ Supplies m t' := by
  induction db generalizing t with
  | nil => exact ⟨[], t, rfl, by simpa using hs⟩
  | cons p rest ih =>
    obtain ⟨w, ids⟩ := p
    have hd : ∀ k m, (lv.hmac k m).length = cfg.prfF.hashLen := by rw [hr.hash]; exact hl.hmac_len
    have h0 : 0 < cfg.prfF.hashLen := by rw [hr.hash]; decide
    obtain ⟨K1, hK1, l1⟩ := prf_call_ok cfg.prfF lv.hmac hd h0 hr.msg K (1 :: w) hK
    obtain ⟨K2, hK2, l2⟩ := prf_call_ok cfg.prfF lv.hmac hd h0 hr.msg K (2 :: w) hK
    obtain ⟨chs, hchs⟩ := hpack (w, ids) (by simp)
    have hn : nBlocks cfg (w, ids) = chs.length := by simp [nBlocks, hchs]
    simp only [List.map_cons, List.sum_cons, hn] at hs
    have hop := hr.outPos
    have e : chs.length + (List.map (nBlocks cfg) rest).sum + m = chs.length + ((List.map (nBlocks cfg) rest).sum + m) := by omega
    rw [e] at hs
    obtain ⟨ps, t1, hps, hs1⟩ := encChunks_complete cfg lv hl hr K1 K2 0 chs _ t
      (by rw [l1, hr.keyOut]; omega) (by rw [l2, hr.skeKey]; omega) hs
    obtain ⟨qs, t2, hqs, hs2⟩ := ih t1 (fun p hp => hpack p (by simp [hp])) hs1
    exact ⟨ps ++ qs, t2, by simp [encDb, token, hK1, hK2, hchs, hps, hqs, bind, Except.bind, pure, Except.pure], hs2⟩

/-- `Setup` returns -/
theorem setup_complete (K : Bytes) (db : DB) (t : Tape) (hK : (K.length : Int) = cfg.prfF.keyLength)
    (hpack : ∀ p ∈ db, ∃ chs, cfg.pack p.2 = .ok chs) (hs : Supplies (db.map (nBlocks cfg)).sum t) :
    ∃ D t', setup cfg lv K db t = .ok (D, t') := by
  obtain ⟨L, t', hL, _⟩ := encDb_complete cfg lv hl hr K db 0 t hK hpack (by simpa using hs)
  exact ⟨buildTable L, t', by simp [setup, hL, bind, Except.bind, pure, Except.pure]⟩

omit hr in
/-- the other side: when the PRF's outputs do NOT have the length the PRF takes as key, `Setup` fails loudly as soon as
    it reaches a keyword with at least one block — it never returns an index that answers wrongly -/
theorem setup_loud (K : Bytes) (db : DB) (t : Tape) (hmsg : cfg.prfF.messageLength = LENGTH_UNLIMITED)
    (hash : cfg.prfF.hashLen = 20) (hk : cfg.prfF.keyLength ≠ LENGTH_UNLIMITED)
    (hne : (cfg.prfF.outputLength.toNat : Int) ≠ cfg.prfF.keyLength)
    (hdb : ∃ p ∈ db, ∀ chs, cfg.pack p.2 = .ok chs → chs ≠ []) : ∃ e, setup cfg lv K db t = .error e := by
  have key : ∀ (db : DB) (t : Tape), (∃ p ∈ db, ∀ chs, cfg.pack p.2 = .ok chs → chs ≠ []) →
      ∃ e, encDb cfg lv K db t = .error e := by
    intro db
    induction db with
    | nil => intro t ⟨p, hp, _⟩; cases hp
    | cons q rest ih =>
      intro t hex
      obtain ⟨w, ids⟩ := q
      simp only [encDb, bind, Except.bind]
      cases htk : token cfg lv K w with
      | error e => exact ⟨e, rfl⟩
      | ok tk =>
        obtain ⟨K1, K2⟩ := tk
        simp only
        cases hp : cfg.pack ids with
        | error e => exact ⟨e, rfl⟩
        | ok chs =>
          simp only
          -- K1 is a PRF output: it has `output_length` bytes
          have hK1 : K1.length = cfg.prfF.outputLength.toNat := by
            simp only [token, bind, Except.bind] at htk
            split at htk
            · cases htk
            · rename_i x hx
              split at htk
              · cases htk
              · simp only [pure, Except.pure] at htk
                cases htk
                exact (prf_ok cfg.prfF lv.hmac (by rw [hash]; exact hl.hmac_len) (by rw [hash]; decide) K _ _ hx).1
          cases chs with
          | nil =>
            -- no block for this keyword: the failure comes later
            simp only [encChunks]
            have : ∃ p ∈ rest, ∀ chs, cfg.pack p.2 = .ok chs → chs ≠ [] := by
              obtain ⟨p, hp', hc⟩ := hex
              simp only [List.mem_cons] at hp'
              rcases hp' with rfl | hp'
              · exact absurd rfl (hc [] hp)
              · exact ⟨p, hp', hc⟩
            obtain ⟨e, he⟩ := ih t this
            exact ⟨e, by simp [he]⟩
          | cons ch more =>
            have hcall : cfg.prfF.call lv.hmac K1 (natToBytesMin 0) = .error .valueError := by
              unfold HmacPRF.call
              have h1 : (cfg.prfF.keyLength != LENGTH_UNLIMITED) = true := by simpa using hk
              have h2 : ((K1.length : Int) != cfg.prfF.keyLength) = true := by rw [hK1]; simpa using hne
              simp [h1, h2]
            exact ⟨.valueError, by simp [encChunks, hcall, bind, Except.bind]⟩
  obtain ⟨e, he⟩ := key db t hdb
  exact ⟨e, by simp [setup, he, bind, Except.bind]⟩

end SSEPy.Sch.Chain
