/-
  PiPtr: WHERE the identifier blocks go is decided by the recorded `random.sample` alone: the array slots that are occupied
  after setup are exactly the last n entries of the sample (n = number of identifier blocks), whatever the keywords, their
  order and their contents.
-/
import SSEPyVerif.Proofs.Schemes.PiPtr
namespace SSEPy.Sch.PiPtr
open SSEPy.Sch

variable (cfg : PiPtrCfg) (lv : Leaves)

/-- slot `i` holds a block -/
def Occupied (A : List (Option Bytes)) (i : Nat) : Prop := ∃ d, A[i]? = some (some d)

theorem occupied_set (A : List (Option Bytes)) (pos : Nat) (d : Bytes) (hp : pos < A.length) (i : Nat) :
    Occupied (A.set pos (some d)) i ↔ Occupied A i ∨ i = pos := by
  unfold Occupied
  by_cases h : i = pos
  · subst h
    simp [List.getElem?_set_self hp]
  · rw [List.getElem?_set_ne (fun e => h e.symm)]
    simp [h]

/-- the blocks of one keyword take the slots popped from the end of the sample, one each -/
theorem placeBlocks_slots (K2 : Bytes) (idx : Nat) (blocks : List Bytes) (avail : List Nat) (A : List (Option Bytes)) (t : Tape)
    (ptrs : List Bytes) (avail' : List Nat) (A' : List (Option Bytes)) (t' : Tape)
    (h : placeBlocks cfg lv K2 idx blocks avail A t = .ok (ptrs, avail', A', t')) :
    ∃ used, avail = avail' ++ used ∧ used.length = blocks.length ∧ A'.length = A.length ∧
      ∀ i, Occupied A' i ↔ Occupied A i ∨ i ∈ used := by
  induction blocks generalizing avail A t ptrs with
  | nil =>
    simp [placeBlocks] at h
    obtain ⟨_, rfl, rfl, _⟩ := h
    exact ⟨[], by simp, rfl, rfl, fun i => by simp⟩
  | cons blk rest ih =>
    simp only [placeBlocks] at h
    split at h
    · cases h
    · rename_i pos hpos
      simp only [bind, Except.bind] at h
      split at h
      · cases h
      · split at h
        · cases h
        · rename_i r _
          obtain ⟨d, t1⟩ := r
          simp only at h
          split at h
          · simp [throw, throwThe, MonadExceptOf.throw] at h
          · rename_i hlt
            simp only [pure, Except.pure] at h
            split at h
            · cases h
            · rename_i r2 hr2
              obtain ⟨ptrs', av', A2, t2⟩ := r2
              simp only at h
              cases h
              obtain ⟨used, h1, h2, h3, h4⟩ := ih _ _ _ _ hr2
              have hav : avail = avail.dropLast ++ [pos] := by
                have hne : avail ≠ [] := by intro e; simp [e] at hpos
                rw [List.getLast?_eq_some_getLast hne] at hpos
                cases hpos
                exact (List.dropLast_concat_getLast hne).symm
              refine ⟨used ++ [pos], ?_, by simp [h2], by simp [h3], ?_⟩
              · rw [hav, h1]; simp
              · intro i
                rw [h4 i, occupied_set A pos d (by omega) i]
                simp only [List.mem_append, List.mem_singleton]
                constructor
                · rintro ((h | h) | h)
                  · exact Or.inl h
                  · exact Or.inr (Or.inr h)
                  · exact Or.inr (Or.inl h)
                · rintro (h | h | h)
                  · exact Or.inl (Or.inl h)
                  · exact Or.inr h
                  · exact Or.inl (Or.inr h)

/-- number of identifier blocks of a database -/
def nBlocks (db : DB) : Nat :=
  (db.map fun p => match partitionBlocks p.2 cfg.B cfg.idSize with | .ok bl => bl.length | .error _ => 0).sum

theorem encDb_slots (K : Bytes) (idx : Nat) (db : DB) (avail : List Nat) (A : List (Option Bytes)) (t : Tape)
    (L : List (Bytes × Bytes)) (A' : List (Option Bytes)) (t' : Tape)
    (h : encDb cfg lv K idx db avail A t = .ok (L, A', t')) :
    ∃ rest used, avail = rest ++ used ∧ used.length = nBlocks cfg db ∧ A'.length = A.length ∧
      ∀ i, Occupied A' i ↔ Occupied A i ∨ i ∈ used := by
  induction db generalizing avail A t L with
  | nil =>
    simp [encDb] at h
    obtain ⟨_, rfl, _⟩ := h
    exact ⟨avail, [], by simp, by simp [nBlocks], rfl, fun i => by simp⟩
  | cons p rest ih =>
    obtain ⟨w0, ids0⟩ := p
    obtain ⟨K1, K2, blocks, ptrs, avail1, A1, t1, pblocks, ps, t2, qs, htk, hb, hpl, hpb, hch, hrest, rfl⟩ :=
      encDb_cons cfg lv K idx w0 ids0 rest avail A t L A' t' h
    obtain ⟨used1, a1, a2, a3, a4⟩ := placeBlocks_slots cfg lv K2 idx blocks avail A t ptrs avail1 A1 t1 hpl
    obtain ⟨r, used2, b1, b2, b3, b4⟩ := ih avail1 A1 t2 qs hrest
    refine ⟨r, used2 ++ used1, by rw [a1, b1]; simp, ?_, by rw [b3, a3], ?_⟩
    · simp only [nBlocks, List.map_cons, List.sum_cons, hb, List.length_append]
      simp only [nBlocks] at b2
      omega
    · intro i
      rw [b4 i, a4 i]
      simp only [List.mem_append]
      constructor
      · rintro ((h | h) | h)
        · exact Or.inl h
        · exact Or.inr (Or.inr h)
        · exact Or.inr (Or.inl h)
      · rintro (h | h | h)
        · exact Or.inl (Or.inl h)
        · exact Or.inr h
        · exact Or.inl (Or.inr h)

/-- PiPtr: after setup, slot `i` of the array holds an identifier block iff `i` is one of the last `n` entries of the
    recorded `random.sample` -/
theorem setup_slots (K : Bytes) (db : DB) (t t' : Tape) (edb : PiPtrEDB) (h : setup cfg lv K db t = .ok (edb, t'))
    (sample : List Nat) (t0 : Tape) (hs : takeNats t = .ok (sample, t0)) :
    ∀ i, Occupied edb.A i ↔ i ∈ sample.drop (sample.length - nBlocks cfg db) := by
  simp only [setup, bind, Except.bind, hs] at h
  split at h
  · simp [throw, throwThe, MonadExceptOf.throw] at h
  · simp only [pure, Except.pure] at h
    split at h
    · cases h
    · rename_i r hr
      obtain ⟨L, A, t1⟩ := r
      simp only at h
      cases h
      obtain ⟨rest, used, b1, b2, _, b4⟩ := encDb_slots cfg lv K _ db sample _ t0 L A _ hr
      intro i
      rw [b4 i]
      have hno : ¬ Occupied (List.replicate (arrayLen cfg db) (none : Option Bytes)) i := by
        rintro ⟨d, hd⟩
        rw [List.getElem?_replicate] at hd
        split at hd <;> cases hd
      have hdrop : sample.drop (sample.length - nBlocks cfg db) = used := by
        rw [b1, List.length_append, b2]
        have : rest.length + nBlocks cfg db - nBlocks cfg db = rest.length := by omega
        rw [this, List.drop_left]
      rw [hdrop]
      simp [hno]

/-- number of identifier blocks of one keyword's list -/
def kwBlocks (ids : List Bytes) : Nat :=
  match partitionBlocks ids cfg.B cfg.idSize with | .ok bl => bl.length | .error _ => 0

theorem nBlocks_cons (p : Bytes × List Bytes) (rest : DB) : nBlocks cfg (p :: rest) = kwBlocks cfg p.2 + nBlocks cfg rest := by
  simp [nBlocks, kwBlocks]

variable (hde : ∀ key iv msg c, iv.length = 16 → cfg.ske.encrypt lv.E key iv msg = .ok c → cfg.ske.decrypt lv.D key c = .ok msg)
include hde

/-- the blocks of the keyword that comes after `pre` in the processing order sit, in order, in the slots
    `sample.reverse[nBlocks pre], sample.reverse[nBlocks pre + 1], …` — the image, under the recorded random sample, of an
    index segment that depends on the database only through block COUNTS -/
theorem encDb_segment (K : Bytes) (idx : Nat) (pre : DB) (w : Bytes) (ids : List Bytes) (post : DB) (avail : List Nat)
    (A : List (Option Bytes)) (t : Tape) (L : List (Bytes × Bytes)) (A' : List (Option Bytes)) (t' : Tape)
    (h : encDb cfg lv K idx (pre ++ (w, ids) :: post) avail A t = .ok (L, A', t')) (hn : avail.Nodup) :
    ∃ K1 K2 blocks poss ptrs, token cfg lv K w = .ok (K1, K2) ∧ partitionBlocks ids cfg.B cfg.idSize = .ok blocks ∧
      Placed cfg lv K2 idx A' blocks poss ptrs ∧
      poss = (avail.reverse.drop (nBlocks cfg pre)).take (kwBlocks cfg ids) := by
  induction pre generalizing avail A t L with
  | nil =>
    simp only [List.nil_append] at h
    obtain ⟨K1, K2, blocks, ptrs, avail1, A1, t1, pblocks, ps, t2, qs, htk, hb, hpl, hpb, hch, hrest, rfl⟩ :=
      encDb_cons cfg lv K idx w ids post avail A t L A' t' h
    obtain ⟨poss, hP, hav, _, _⟩ := placeBlocks_spec cfg lv hde K2 idx blocks avail A t ptrs avail1 A1 t1 hpl hn
    have hn1 : avail1.Nodup := by rw [hav] at hn; exact (List.nodup_append.mp hn).1
    refine ⟨K1, K2, blocks, poss, ptrs, htk, hb, ?_, ?_⟩
    · apply hP.mono
      intro i hi
      apply encDb_preserves cfg lv hde K idx post avail1 A1 t2 qs A' t' hrest hn1
      intro hm1
      rw [hav] at hn
      exact (List.nodup_append.mp hn).2.2 i hm1 i (List.mem_reverse.mpr hi) rfl
    · have hl := hP.lengths.1
      simp only [nBlocks, List.map_nil, List.sum_nil, List.drop_zero, kwBlocks, hb]
      rw [hav, List.reverse_append, List.reverse_reverse, ← hl, List.take_left]
  | cons p0 rest ih =>
    obtain ⟨w0, ids0⟩ := p0
    simp only [List.cons_append] at h
    obtain ⟨K1, K2, blocks, ptrs, avail1, A1, t1, pblocks, ps, t2, qs, htk, hb, hpl, hpb, hch, hrest, rfl⟩ :=
      encDb_cons cfg lv K idx w0 ids0 (rest ++ (w, ids) :: post) avail A t L A' t' h
    obtain ⟨poss0, hP, hav, _, _⟩ := placeBlocks_spec cfg lv hde K2 idx blocks avail A t ptrs avail1 A1 t1 hpl hn
    have hn1 : avail1.Nodup := by rw [hav] at hn; exact (List.nodup_append.mp hn).1
    obtain ⟨K1', K2', blocks', poss, ptrs', a1, a2, a3, a4⟩ := ih avail1 A1 t2 qs hrest hn1
    refine ⟨K1', K2', blocks', poss, ptrs', a1, a2, a3, ?_⟩
    rw [a4, nBlocks_cons, hav, List.reverse_append, List.reverse_reverse]
    have hl : poss0.length = kwBlocks cfg ids0 := by simp [kwBlocks, hb, hP.lengths.1]
    rw [← hl, List.drop_append]
    have : List.drop (poss0.length + nBlocks cfg rest) poss0 = [] := List.drop_eq_nil_of_le (by omega)
    simp [this]

/-- PiPtr: where the blocks of a keyword are, as a function of the recorded sample and of block counts only -/
theorem setup_segment (K : Bytes) (pre : DB) (w : Bytes) (ids : List Bytes) (post : DB) (t t' : Tape) (edb : PiPtrEDB)
    (h : setup cfg lv K (pre ++ (w, ids) :: post) t = .ok (edb, t'))
    (sample : List Nat) (t0 : Tape) (hs : takeNats t = .ok (sample, t0)) (hn : sample.Nodup) :
    ∃ K1 K2 blocks poss ptrs, token cfg lv K w = .ok (K1, K2) ∧ partitionBlocks ids cfg.B cfg.idSize = .ok blocks ∧
      Placed cfg lv K2 (bytesFor (arrayLen cfg (pre ++ (w, ids) :: post))) edb.A blocks poss ptrs ∧
      poss = (sample.reverse.drop (nBlocks cfg pre)).take (kwBlocks cfg ids) := by
  simp only [setup, bind, Except.bind, hs] at h
  split at h
  · simp [throw, throwThe, MonadExceptOf.throw] at h
  · simp only [pure, Except.pure] at h
    split at h
    · cases h
    · rename_i r hr
      obtain ⟨L, A, t1⟩ := r
      simp only at h
      cases h
      exact encDb_segment cfg lv hde K _ pre w ids post sample _ t0 L A _ hr hn

end SSEPy.Sch.PiPtr
