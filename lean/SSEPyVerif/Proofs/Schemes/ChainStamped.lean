/-
  PiBas / PiPack, whole runs: every value of the dictionary `EDBSetup` returns is a ciphertext that starts with the 16 random
  bytes drawn for it in this run.
-/
import SSEPyVerif.Proofs.Schemes.Stamped
namespace SSEPy.Sch.Chain
open SSEPy.Sch

variable (cfg : ChainCfg) (lv : Leaves)

theorem encDb_stamped (K : Bytes) (db : DB) (t t' : Tape) (L : List (Bytes × Bytes))
    (h : encDb cfg lv K db t = .ok (L, t')) : (∀ p ∈ L, Stamped t p.2) ∧ Suffix t' t := by
  induction db generalizing t L with
  | nil => simp [encDb] at h; obtain ⟨rfl, rfl⟩ := h; exact ⟨(fun p hp => by cases hp), Suffix.refl _⟩
  | cons q rest ih =>
    obtain ⟨w, ids⟩ := q
    simp only [encDb, bind, Except.bind] at h
    split at h
    · cases h
    · rename_i tk htk
      obtain ⟨K1, K2⟩ := tk
      simp only at h
      split at h
      · cases h
      · rename_i chunks hch
        split at h
        · cases h
        · rename_i r hr
          obtain ⟨ps, t1⟩ := r
          simp only at h
          split at h
          · cases h
          · rename_i r2 hr2
            obtain ⟨qs, t2⟩ := r2
            simp only [pure, Except.pure] at h
            cases h
            obtain ⟨a1, a2⟩ := Chain.encChunks_stamped cfg lv K1 K2 0 chunks t t1 ps hr
            obtain ⟨b1, b2⟩ := ih t1 qs hr2
            refine ⟨?_, b2.trans a2⟩
            intro p hp
            rcases List.mem_append.mp hp with h1 | h1
            · exact a1 p h1
            · exact (b1 p h1).mono a2

theorem setup_stamped (K : Bytes) (db : DB) (t t' : Tape) (D : Table) (h : setup cfg lv K db t = .ok (D, t')) :
    ∀ p ∈ D, Stamped t p.2 := by
  simp only [setup, bind, Except.bind] at h
  split at h
  · cases h
  · rename_i r hr
    obtain ⟨L, t1⟩ := r
    simp only [pure, Except.pure] at h
    have hst := (encDb_stamped cfg lv K db t t1 L hr).1
    cases h
    intro p hp
    exact hst p (mem_buildTable L p hp)

end SSEPy.Sch.Chain
