/-
  Pi2Lev: the three storage cases (small / medium / large) and the level loop of `search`.
-/
import SSEPyVerif.Proofs.Schemes.PiPtr
import SSEPyVerif.Model.Schemes.Pi2Lev
namespace SSEPy.Sch.Pi2Lev
open SSEPy.Sch

variable (cfg : Pi2LevCfg) (lv : Leaves)

/-- block `j`, prefixed with the level mark, sits encrypted at `poss[j]`; `ptrs[j]` is that position in `idxSize` bytes -/
inductive Placed (K2 : Bytes) (mark : UInt8) (A : List (Option Bytes)) : List Bytes → List Nat → List Bytes → Prop where
  | nil : Placed K2 mark A [] [] []
  | cons (blk : Bytes) (rest : List Bytes) (pos : Nat) (poss : List Nat) (ptr : Bytes) (ptrs : List Bytes) (d : Bytes) :
      intToBytes (pos : Int) cfg.idxSize = .ok ptr → A[pos]? = some (some d) → cfg.ske.decrypt lv.D K2 d = .ok (mark :: blk) →
      Placed K2 mark A rest poss ptrs → Placed K2 mark A (blk :: rest) (pos :: poss) (ptr :: ptrs)

theorem Placed.mono {K2 : Bytes} {mark : UInt8} {A A2 : List (Option Bytes)} {blocks : List Bytes} {poss : List Nat}
    {ptrs : List Bytes} (h : Placed cfg lv K2 mark A blocks poss ptrs) (hag : ∀ i ∈ poss, A2[i]? = A[i]?) :
    Placed cfg lv K2 mark A2 blocks poss ptrs := by
  induction h with
  | nil => exact .nil
  | cons blk rest pos poss ptr ptrs d h1 h2 h3 _ ih =>
    exact .cons blk rest pos poss ptr ptrs d h1 (by rw [hag pos (by simp)]; exact h2) h3
      (ih (fun i hi => hag i (by simp [hi])))

theorem Placed.lengths {K2 : Bytes} {mark : UInt8} {A : List (Option Bytes)} {blocks : List Bytes} {poss : List Nat}
    {ptrs : List Bytes} (h : Placed cfg lv K2 mark A blocks poss ptrs) :
    poss.length = blocks.length ∧ ptrs.length = blocks.length := by
  induction h with
  | nil => exact ⟨rfl, rfl⟩
  | cons _ _ _ _ _ _ _ _ _ _ _ ih => simp [ih.1, ih.2]

variable (hde : ∀ key iv msg c, iv.length = 16 → cfg.ske.encrypt lv.E key iv msg = .ok c → cfg.ske.decrypt lv.D key c = .ok msg)
include hde

theorem placeBlocks_spec (K2 : Bytes) (mark : UInt8) (blocks : List Bytes) (avail : List Nat) (A : List (Option Bytes)) (t : Tape)
    (ptrs : List Bytes) (avail' : List Nat) (A' : List (Option Bytes)) (t' : Tape)
    (h : placeBlocks cfg lv K2 mark blocks avail A t = .ok (ptrs, avail', A', t')) (hn : avail.Nodup) :
    ∃ poss, Placed cfg lv K2 mark A' blocks poss ptrs ∧ avail = avail' ++ poss.reverse ∧ A'.length = A.length ∧
      ∀ i, i ∉ poss → A'[i]? = A[i]? := by
  induction blocks generalizing avail A t ptrs with
  | nil =>
    simp [placeBlocks] at h
    obtain ⟨rfl, rfl, rfl, rfl⟩ := h
    exact ⟨[], .nil, by simp, rfl, fun _ _ => rfl⟩
  | cons blk rest ih =>
    simp only [placeBlocks] at h
    split at h
    · cases h
    · rename_i pos hpos
      simp only [bind, Except.bind] at h
      split at h
      · cases h
      · rename_i ptr hptr
        split at h
        · cases h
        · rename_i r hr0
          obtain ⟨d, t1⟩ := r
          obtain ⟨iv, hr, hd⟩ := skeEncrypt_ok hr0
          simp only at h
          split at h
          · simp [throw, throwThe, MonadExceptOf.throw] at h
          · rename_i hpl
            simp only [pure, Except.pure] at h
            split at h
            · cases h
            · rename_i r2 hr2
              obtain ⟨ptrs', avail2, A2, t2⟩ := r2
              simp only at h
              cases h
              obtain ⟨hav, hnot⟩ := PiPtr.getLast_dropLast_nodup hpos hn
              have hn' : avail.dropLast.Nodup := by
                rw [hav] at hn; exact (List.nodup_append.mp hn).1
              obtain ⟨poss, hP, havail, hlen, hother⟩ := ih avail.dropLast (A.set pos (some d)) t1 ptrs' hr2 hn'
              have hposnot : pos ∉ poss := by
                intro hm
                apply hnot
                rw [havail]
                exact List.mem_append_right _ (List.mem_reverse.mpr hm)
              have hlt : pos < A.length := by omega
              refine ⟨pos :: poss, ?_, ?_, ?_, ?_⟩
              · refine .cons blk rest pos poss ptr ptrs' d hptr ?_ (hde _ _ _ _ (Chain.takeBytes_len hr) hd) hP
                rw [hother pos hposnot]
                simp [hlt]
              · rw [hav, havail]; simp
              · simpa using hlen
              · intro i hi
                simp only [List.mem_cons, not_or] at hi
                rw [hother i hi.2]
                simp [Ne.symm hi.1]

/-- how a keyword's list is laid out, as seen from its dictionary entry `mark ‖ content ‖ padding` -/
inductive Case (A : List (Option Bytes)) (K2 : Bytes) (ids : List Bytes) : UInt8 → Bytes → Prop where
  | small : (ids.length : Int) ≤ cfg.b → Case A K2 ids 0 ids.flatten
  | medium (blocks : List Bytes) (poss : List Nat) (ptrs : List Bytes) :
      cfg.b < (ids.length : Int) → (ids.length : Int) ≤ cfg.B * cfg.bp →
      partitionBlocks ids cfg.B cfg.idSize (cfg.B * cfg.idSize) = .ok blocks →
      Placed cfg lv K2 0 A blocks poss ptrs → Case A K2 ids 1 ptrs.flatten
  | large (blocks : List Bytes) (poss : List Nat) (ptrs : List Bytes) (pblocks : List Bytes) (poss2 : List Nat)
      (ptrs2 : List Bytes) :
      cfg.B * cfg.bp < (ids.length : Int) → (ids.length : Int) < (cfg.B * cfg.Bp) * cfg.bp →
      partitionBlocks ids cfg.B cfg.idSize (cfg.B * cfg.idSize) = .ok blocks →
      Placed cfg lv K2 0 A blocks poss ptrs →
      partitionBlocks ptrs cfg.Bp cfg.idxSize (cfg.B * cfg.idSize) = .ok pblocks →
      Placed cfg lv K2 1 A pblocks poss2 ptrs2 → Case A K2 ids 1 ptrs2.flatten

omit hde in
theorem Case.mono {A A2 : List (Option Bytes)} {K2 : Bytes} {ids : List Bytes} {mark : UInt8} {content : Bytes}
    (h : Case cfg lv A K2 ids mark content) (hag : ∀ (i : Nat) (d : Bytes), A[i]? = some (some d) → A2[i]? = A[i]?) :
    Case cfg lv A2 K2 ids mark content := by
  have keep : ∀ {m : UInt8} {blocks : List Bytes} {poss : List Nat} {ptrs : List Bytes},
      Placed cfg lv K2 m A blocks poss ptrs → Placed cfg lv K2 m A2 blocks poss ptrs := by
    intro m blocks poss ptrs hP
    induction hP with
    | nil => exact .nil
    | cons blk rest pos poss ptr ptrs d h1 h2 h3 _ ih =>
      exact .cons blk rest pos poss ptr ptrs d h1 (by rw [hag pos d h2]; exact h2) h3 ih
  cases h with
  | small h1 => exact .small h1
  | medium blocks poss ptrs h1 h2 h3 h4 => exact .medium blocks poss ptrs h1 h2 h3 (keep h4)
  | large blocks poss ptrs pblocks poss2 ptrs2 h1 h1' h2 h3 h4 h5 =>
    exact .large blocks poss ptrs pblocks poss2 ptrs2 h1 h1' h2 (keep h3) h4 (keep h5)

/-- the dictionary entry of a keyword -/
def EntryOf (A : List (Option Bytes)) (K1 K2 : Bytes) (ids : List Bytes) (e : Bytes × Bytes) : Prop :=
  ∃ mark content, cfg.prfF.call lv.hmac K1 [0] = .ok e.1 ∧
    cfg.ske.decrypt lv.D K2 e.2 = .ok (mark :: (content ++ zeros ((cfg.b * cfg.idSize).toNat - content.length))) ∧
    Case cfg lv A K2 ids mark content

theorem dictEntry_spec (K1 K2 : Bytes) (mark : UInt8) (content : Bytes) (t : Tape) (e : Bytes × Bytes) (t' : Tape)
    (h : dictEntry cfg lv K1 K2 mark content t = .ok (e, t')) :
    cfg.prfF.call lv.hmac K1 [0] = .ok e.1 ∧
    cfg.ske.decrypt lv.D K2 e.2 = .ok (mark :: (content ++ zeros ((cfg.b * cfg.idSize).toNat - content.length))) := by
  simp only [dictEntry, bind, Except.bind] at h
  split at h
  · cases h
  · rename_i l hl
    split at h
    · cases h
    · rename_i r hr
      obtain ⟨d, t1⟩ := r
      obtain ⟨iv, hiv, hd⟩ := skeEncrypt_ok hr
      simp only [pure, Except.pure] at h
      cases h
      exact ⟨hl, hde _ _ _ _ (Chain.takeBytes_len hiv) hd⟩

/-- cells that hold a ciphertext are never overwritten, because fresh slots come from the duplicate-free free list -/
theorem storeKeyword_spec (K1 K2 : Bytes) (ids : List Bytes) (avail : List Nat) (A : List (Option Bytes)) (t : Tape)
    (e : Bytes × Bytes) (avail' : List Nat) (A' : List (Option Bytes)) (t' : Tape)
    (h : storeKeyword cfg lv K1 K2 ids avail A t = .ok (e, avail', A', t')) (hn : avail.Nodup) :
    EntryOf cfg lv A' K1 K2 ids e ∧ (∃ used, avail = avail' ++ used) ∧ (∀ i, i ∉ avail → A'[i]? = A[i]?) ∧
    (∀ i, i ∈ avail' → A'[i]? = A[i]?) := by
  simp only [storeKeyword] at h
  by_cases c1 : (ids.length : Int) ≤ cfg.b
  · simp only [c1, if_true, bind, Except.bind] at h
    split at h
    · cases h
    · rename_i r hr
      obtain ⟨e0, t1⟩ := r
      simp only [pure, Except.pure] at h
      cases h
      obtain ⟨d1, d2⟩ := dictEntry_spec cfg lv hde K1 K2 0 _ t e t' hr
      exact ⟨⟨0, _, d1, d2, .small c1⟩, ⟨[], by simp⟩, fun _ _ => rfl, fun _ _ => rfl⟩
  · simp only [c1, if_false] at h
    by_cases c2 : (ids.length : Int) ≤ cfg.B * cfg.bp
    · simp only [c2, if_true, bind, Except.bind] at h
      split at h
      · cases h
      · rename_i blocks hb
        split at h
        · cases h
        · rename_i r hr
          obtain ⟨ptrs, avail1, A1, t1⟩ := r
          simp only at h
          split at h
          · cases h
          · rename_i r2 hr2
            obtain ⟨e0, t2⟩ := r2
            simp only [pure, Except.pure] at h
            cases h
            obtain ⟨poss, hP, hav, _, hother⟩ := placeBlocks_spec cfg lv hde K2 0 blocks avail A t ptrs avail' A' t1 hr hn
            obtain ⟨d1, d2⟩ := dictEntry_spec cfg lv hde K1 K2 1 _ t1 e t' hr2
            refine ⟨⟨1, _, d1, d2, .medium blocks poss ptrs (by omega) c2 hb hP⟩, ⟨poss.reverse, hav⟩, ?_, ?_⟩
            · intro i hi
              apply hother
              intro hm; apply hi; rw [hav]; exact List.mem_append_right _ (List.mem_reverse.mpr hm)
            · intro i hi
              apply hother
              intro hm
              rw [hav] at hn
              exact (List.nodup_append.mp hn).2.2 i hi i (List.mem_reverse.mpr hm) rfl
    · simp only [c2, if_false] at h
      by_cases c3 : (ids.length : Int) < (cfg.B * cfg.Bp) * cfg.bp
      · simp only [c3, if_true, bind, Except.bind] at h
        split at h
        · cases h
        · rename_i blocks hb
          split at h
          · cases h
          · rename_i r hr
            obtain ⟨ptrs, avail1, A1, t1⟩ := r
            simp only at h
            split at h
            · cases h
            · rename_i pblocks hpb
              split at h
              · cases h
              · rename_i r2 hr2
                obtain ⟨ptrs2, avail2, A2, t2⟩ := r2
                simp only at h
                split at h
                · cases h
                · rename_i r3 hr3
                  obtain ⟨e0, t3⟩ := r3
                  simp only [pure, Except.pure] at h
                  cases h
                  obtain ⟨poss, hP, hav, _, hother⟩ := placeBlocks_spec cfg lv hde K2 0 blocks avail A t ptrs avail1 A1 t1 hr hn
                  have hn1 : avail1.Nodup := by rw [hav] at hn; exact (List.nodup_append.mp hn).1
                  obtain ⟨poss2, hP2, hav2, _, hother2⟩ :=
                    placeBlocks_spec cfg lv hde K2 1 pblocks avail1 A1 t1 ptrs2 avail' A' t2 hr2 hn1
                  obtain ⟨d1, d2⟩ := dictEntry_spec cfg lv hde K1 K2 1 _ t2 e t' hr3
                  have hdisj : ∀ i ∈ poss, i ∉ poss2 := by
                    intro i hi hi2
                    have h1 : i ∈ avail1 := by rw [hav2]; exact List.mem_append_right _ (List.mem_reverse.mpr hi2)
                    rw [hav] at hn
                    exact (List.nodup_append.mp hn).2.2 i h1 i (List.mem_reverse.mpr hi) rfl
                  refine ⟨⟨1, _, d1, d2, .large blocks poss ptrs pblocks poss2 ptrs2 (by omega) c3 hb
                    (hP.mono cfg lv (fun i hi => hother2 i (hdisj i hi))) hpb hP2⟩,
                    ⟨poss2.reverse ++ poss.reverse, by rw [hav, hav2]; simp⟩, ?_, ?_⟩
                  · intro i hi
                    have n1 : i ∉ poss := by
                      intro hm; apply hi; rw [hav]; exact List.mem_append_right _ (List.mem_reverse.mpr hm)
                    have n2 : i ∉ poss2 := by
                      intro hm; apply hi; rw [hav, hav2]
                      exact List.mem_append_left _ (List.mem_append_right _ (List.mem_reverse.mpr hm))
                    rw [hother2 i n2, hother i n1]
                  · intro i hi
                    have hn1' := hn1
                    rw [hav2] at hn1'
                    have n2 : i ∉ poss2 := fun hm => (List.nodup_append.mp hn1').2.2 i hi i (List.mem_reverse.mpr hm) rfl
                    have hi1 : i ∈ avail1 := by rw [hav2]; exact List.mem_append_left _ hi
                    rw [hav] at hn
                    have n1 : i ∉ poss := fun hm => (List.nodup_append.mp hn).2.2 i hi1 i (List.mem_reverse.mpr hm) rfl
                    rw [hother2 i n2, hother i n1]
      · simp [c3, throw, throwThe, MonadExceptOf.throw] at h

/-- free slots hold nothing yet -/
def FreeEmpty (avail : List Nat) (A : List (Option Bytes)) : Prop := ∀ i ∈ avail, ∀ d, A[i]? ≠ some (some d)

theorem encDb_split (K : Bytes) (db : DB) (avail : List Nat) (A : List (Option Bytes)) (t : Tape)
    (L : List (Bytes × Bytes)) (A' : List (Option Bytes)) (t' : Tape)
    (h : encDb cfg lv K db avail A t = .ok (L, A', t')) (hn : avail.Nodup) (hfe : FreeEmpty avail A) :
    (∀ i, i ∉ avail → A'[i]? = A[i]?) ∧
    ∀ w ids, (w, ids) ∈ db → ∃ K1 K2 e pre post, token cfg lv K w = .ok (K1, K2) ∧ L = pre ++ [e] ++ post ∧
      EntryOf cfg lv A' K1 K2 ids e := by
  induction db generalizing avail A t L with
  | nil =>
    simp [encDb] at h
    obtain ⟨_, rfl, _⟩ := h
    exact ⟨fun _ _ => rfl, fun w ids hm => by cases hm⟩
  | cons p rest ih =>
    obtain ⟨w0, ids0⟩ := p
    simp only [encDb, bind, Except.bind] at h
    split at h
    · cases h
    · rename_i tk htk
      obtain ⟨K1, K2⟩ := tk
      simp only at h
      split at h
      · cases h
      · rename_i r hr
        obtain ⟨e, avail1, A1, t1⟩ := r
        simp only at h
        split at h
        · cases h
        · rename_i r2 hr2
          obtain ⟨qs, A2, t2⟩ := r2
          simp only [pure, Except.pure] at h
          cases h
          obtain ⟨hE, ⟨used, hused⟩, hout, hfree⟩ := storeKeyword_spec cfg lv hde K1 K2 ids0 avail A t e avail1 A1 t1 hr hn
          have hn1 : avail1.Nodup := by rw [hused] at hn; exact (List.nodup_append.mp hn).1
          have hfe1 : FreeEmpty avail1 A1 := by
            intro i hi d hd
            rw [hfree i hi] at hd
            exact hfe i (by rw [hused]; exact List.mem_append_left _ hi) d hd
          obtain ⟨i1, i2⟩ := ih avail1 A1 t1 qs hr2 hn1 hfe1
          refine ⟨?_, ?_⟩
          · intro i hi
            have : i ∉ avail1 := fun hm => hi (by rw [hused]; exact List.mem_append_left _ hm)
            rw [i1 i this, hout i hi]
          · intro w ids hm
            simp only [List.mem_cons, Prod.mk.injEq] at hm
            rcases hm with ⟨rfl, rfl⟩ | hm
            · refine ⟨K1, K2, e, [], qs, htk, by simp, ?_⟩
              obtain ⟨mark, content, a1, a2, a3⟩ := hE
              refine ⟨mark, content, a1, a2, a3.mono cfg lv ?_⟩
              intro i d hd
              apply i1
              intro hm
              exact hfe1 i hm d hd
            · obtain ⟨K1', K2', e', pre, post, b1, b2, b3⟩ := i2 w ids hm
              exact ⟨K1', K2', e', e :: pre, post, b1, by simp [b2], b3⟩

omit hde in
/-- packing with an explicit block size `bs ≥ cap·sz` and parsing by entry count gives the entries back,
    provided `bs // cap = sz` (the relation the configuration builder enforces for pointer blocks) -/
theorem blocks_roundtrip_bs (ids : List Bytes) (cap sz bs : Int) (hcap : 0 < cap) (hsz : 0 < sz) (hbs : cap * sz ≤ bs)
    (hdiv : bs.toNat / cap.toNat = sz.toNat) (hv : C17.ValidIds ids sz.toNat) (blocks : List Bytes)
    (hb : partitionBlocks ids cap sz bs = .ok blocks) :
    ∃ parts, mapE (fun b => parseByCount b cap) blocks = .ok parts ∧ parts.flatten = ids ∧
      blocks.length = ceilDiv ids.length cap.toNat := by
  have hbsn : cap.toNat * sz.toNat ≤ bs.toNat := by
    have : ((cap.toNat * sz.toNat : Nat) : Int) = cap * sz := by
      rw [Int.natCast_mul]; congr 1 <;> omega
    omega
  obtain ⟨blocks', hb1, hb2, hb3⟩ := C17.parse_partition ids cap.toNat sz.toNat bs.toNat (by omega) (by omega) (Or.inr hbsn) hv
  have hw : partitionBlocks ids cap sz bs = partitionBlocksNat ids cap.toNat sz.toNat bs.toNat := by
    unfold partitionBlocks
    have hb0 : 0 ≤ bs := by
      have : 0 < cap * sz := Int.mul_pos hcap hsz
      omega
    have : (0 ≤ cap ∧ 0 ≤ sz ∧ 0 ≤ bs) := ⟨by omega, by omega, hb0⟩
    simp [this]
  rw [hw, hb1] at hb
  cases hb
  have hlen := C17.partition_block_len ids cap.toNat sz.toNat bs.toNat (by omega) (fun id hid => (hv id hid).1) blocks hb1
  have heff : C17.effBs cap.toNat sz.toNat bs.toNat = bs.toNat := by
    unfold C17.effBs
    split
    · rename_i h0
      have : cap.toNat * sz.toNat = 0 := by omega
      omega
    · rfl
  refine ⟨blocks.map fun b => parseLoop b.length b sz.toNat, ?_, ?_, ?_⟩
  · have hcongr : mapE (fun b => parseByCount b cap) blocks = mapE (fun b => parseBySizeNat b sz.toNat) blocks := by
      apply PiPtr.mapE_congr
      intro b hbm
      have hl := hlen b hbm
      rw [heff] at hl
      have e1 : parseByCount b cap = parseByCountNat b cap.toNat := by
        have := (C17.wrappers_agree [] b cap.toNat 0 0).2.2
        have e : ((cap.toNat : Nat) : Int) = cap := by omega
        rw [e] at this; exact this
      rw [e1, C17.parse_by_count b cap.toNat sz.toNat (by omega) (by rw [hl]; exact hdiv)]
    rw [hcongr]
    exact mapE_total _ _ hb2 blocks
  · rw [← hb3, List.flatMap_def]
  · exact C17.partition_count ids cap.toNat sz.toNat bs.toNat (by omega) blocks hb1

omit hde in
/-- a pointer: the position in `idxSize` bytes -/
theorem ptr_pos (pos : Nat) (ptr : Bytes) (hidx : 0 ≤ cfg.idxSize) (h : intToBytes (pos : Int) cfg.idxSize = .ok ptr) :
    intFromBytes ptr = pos ∧ ptr.length = cfg.idxSize.toNat ∧ (0 < pos → allZero ptr = false) := by
  have e : cfg.idxSize = ((cfg.idxSize.toNat : Nat) : Int) := by omega
  rw [e, (C17.int_wrapper_agrees pos cfg.idxSize.toNat).1] at h
  obtain ⟨h1, h2⟩ := C17.int_roundtrip pos cfg.idxSize.toNat ptr h
  exact ⟨h1, h2, fun hp => (PiPtr.ptr_valid pos cfg.idxSize.toNat ptr h hp).2⟩

omit hde in
theorem Placed.ptrs_valid {K2 : Bytes} {mark : UInt8} {A : List (Option Bytes)} {blocks : List Bytes} {poss : List Nat}
    {ptrs : List Bytes} (h : Placed cfg lv K2 mark A blocks poss ptrs) (hidx : 0 ≤ cfg.idxSize) (hpos : ∀ p ∈ poss, 0 < p) :
    C17.ValidIds ptrs cfg.idxSize.toNat := by
  induction h with
  | nil => intro id hid; cases hid
  | cons blk rest pos poss ptr ptrs d h1 _ _ _ ih =>
    intro id hid
    simp only [List.mem_cons] at hid
    rcases hid with rfl | hid
    · obtain ⟨_, a2, a3⟩ := ptr_pos cfg pos id hidx h1
      exact ⟨a2, a3 (hpos pos (by simp))⟩
    · exact ih (fun p hp => hpos p (by simp [hp])) id hid

omit hde in
/-- reading the array through a list of pointers and decrypting gives the marked blocks back -/
theorem readCells_placed (edb : PiPtrEDB) (level : Nat) (hl : level ≠ 0) (hidx : 0 ≤ cfg.idxSize) (K2 : Bytes)
    (mark : UInt8) (blocks : List Bytes) (poss : List Nat) (ptrs : List Bytes)
    (hP : Placed cfg lv K2 mark edb.A blocks poss ptrs) :
    ∃ cells, readCells edb level ptrs = .ok cells ∧ decAllOpt cfg lv K2 cells = .ok (blocks.map (mark :: ·)) := by
  induction hP with
  | nil => exact ⟨[], by simp [readCells, hl, mapE], rfl⟩
  | cons blk rest pos poss ptr ptrs d h1 h2 h3 _ ih =>
    obtain ⟨cells, c1, c2⟩ := ih
    have hp := (ptr_pos cfg pos ptr hidx h1).1
    simp only [readCells, hl, if_false] at c1 ⊢
    refine ⟨some d :: cells, ?_, ?_⟩
    · simp [mapE, hp, h2, c1, bind, Except.bind, pure, Except.pure]
    · simp [decAllOpt, h3, c2, bind, Except.bind, pure, Except.pure]

omit hde in
theorem parseAll_blocks (count : Int) (mark : UInt8) (blocks : List Bytes) (parts : List (List Bytes))
    (h : mapE (fun b => parseByCount b count) blocks = .ok parts) :
    parseAll count (blocks.map (mark :: ·)) = .ok parts.flatten := by
  induction blocks generalizing parts with
  | nil => simp [mapE] at h; subst h; rfl
  | cons b rest ih =>
    simp only [mapE, bind, Except.bind] at h
    split at h
    · cases h
    · rename_i xs hxs
      split at h
      · cases h
      · rename_i ps hps
        simp only [pure, Except.pure] at h
        cases h
        simp [parseAll, hxs, ih ps hps, bind, Except.bind, pure, Except.pure]

omit hde in
/-- a dictionary block: entries, then zero padding up to the block size, parsed by entry count -/
theorem parse_padded (items : List Bytes) (sz count total : Nat) (hv : C17.ValidIds items sz) (hsz : 0 < sz)
    (hcount : 0 < count) (hfit : items.length * sz ≤ total) (hdiv : total / count = sz) :
    parseByCount (items.flatten ++ zeros (total - items.flatten.length)) ((count : Nat) : Int) = .ok items := by
  have hfl : items.flatten.length = items.length * sz := flatten_length_of_all sz items (fun id hid => (hv id hid).1)
  have hlen : (items.flatten ++ zeros (total - items.flatten.length)).length = total := by
    simp [zeros, hfl]; omega
  have e1 := (C17.wrappers_agree [] (items.flatten ++ zeros (total - items.flatten.length)) count 0 0).2.2
  rw [e1, C17.parse_by_count _ count sz hcount (by rw [hlen]; exact hdiv)]
  unfold parseBySizeNat
  have : sz ≠ 0 := by omega
  simp only [this, if_false]
  rw [parseLoop_flatten_zeros sz hsz items _ _ hv (Nat.le_refl _)]

omit hde in
theorem ceilDiv_le_of_le_mul (n a b : Nat) (ha : 0 < a) (h : n ≤ a * b) : ceilDiv n a ≤ b := by
  unfold ceilDiv
  have h2 : (n + a - 1) / a ≤ (a * b + a - 1) / a := Nat.div_le_div_right (by omega)
  have h3 : (a * b + a - 1) / a = b := by
    have : a * b + a - 1 = a * b + (a - 1) := by omega
    rw [this, Nat.mul_add_div ha, Nat.div_eq_of_lt (by omega)]
    rfl
  omega

omit hde in
theorem parseAll_single (count : Int) (m : UInt8) (p : Bytes) (items : List Bytes) (h : parseByCount p count = .ok items) :
    parseAll count [m :: p] = .ok items := by
  simp [parseAll, h, bind, Except.bind, pure, Except.pure]

/-- the facts the configuration builder establishes and the theorem uses -/
structure GoodCfg : Prop where
  B : 0 < cfg.B
  b : 0 < cfg.b
  Bp : 0 < cfg.Bp
  bp : 0 < cfg.bp
  ids : 0 < cfg.idSize
  idx : 0 < cfg.idxSize
  idx1 : (cfg.b * cfg.idSize).toNat / cfg.bp.toNat = cfg.idxSize.toNat
  idx2 : (cfg.B * cfg.idSize).toNat / cfg.Bp.toNat = cfg.idxSize.toNat

omit hde in
theorem toNat_mul (a b : Int) (ha : 0 < a) (hb : 0 < b) : (a * b).toNat = a.toNat * b.toNat := by
  have : ((a.toNat * b.toNat : Nat) : Int) = a * b := by rw [Int.natCast_mul]; congr 1 <;> omega
  omega

/-- the level loop started at a keyword's dictionary entry returns the keyword's list -/
theorem levelLoop_entry (hg : GoodCfg cfg) (edb : PiPtrEDB) (K1 K2 : Bytes) (ids : List Bytes) (l0 dE : Bytes)
    (hget : edb.D.get l0 = some dE) (hv : C17.ValidIds ids cfg.idSize.toNat) (hne : ids ≠ [])
    (mark : UInt8) (content : Bytes)
    (hdec : cfg.ske.decrypt lv.D K2 dE = .ok (mark :: (content ++ zeros ((cfg.b * cfg.idSize).toNat - content.length))))
    (hcase : Case cfg lv edb.A K2 ids mark content)
    (hposs : ∀ (m : UInt8) (blocks : List Bytes) (poss : List Nat) (ptrs : List Bytes),
      Placed cfg lv K2 m edb.A blocks poss ptrs → ∀ p ∈ poss, 0 < p) :
    levelLoop cfg lv edb K2 4 0 [l0] = .ok ids := by
  have htot : (cfg.b * cfg.idSize).toNat = cfg.b.toNat * cfg.idSize.toNat := toNat_mul cfg.b cfg.idSize hg.b hg.ids
  have hbn : 0 < cfg.b.toNat := by have := hg.b; omega
  have hBn : 0 < cfg.B.toNat := by have := hg.B; omega
  have hbpn : 0 < cfg.bp.toNat := by have := hg.bp; omega
  have hBpn : 0 < cfg.Bp.toNat := by have := hg.Bp; omega
  have hidn : 0 < cfg.idSize.toNat := by have := hg.ids; omega
  have hixn : 0 < cfg.idxSize.toNat := by have := hg.idx; omega
  have hidx0 : 0 ≤ cfg.idxSize := by have := hg.idx; omega
  have hread0 : readCells edb 0 [l0] = .ok [some dE] := by
    simp [readCells, mapE, hget, bind, Except.bind, pure, Except.pure]
  have eb : ((cfg.b.toNat : Nat) : Int) = cfg.b := by have := hg.b; omega
  have eB : ((cfg.B.toNat : Nat) : Int) = cfg.B := by have := hg.B; omega
  have ebp : ((cfg.bp.toNat : Nat) : Int) = cfg.bp := by have := hg.bp; omega
  have eBp : ((cfg.Bp.toNat : Nat) : Int) = cfg.Bp := by have := hg.Bp; omega
  -- the array blocks parse back into the identifiers
  have idblocks : ∀ blocks, partitionBlocks ids cfg.B cfg.idSize (cfg.B * cfg.idSize) = .ok blocks →
      ∃ parts, mapE (fun b => parseByCount b cfg.B) blocks = .ok parts ∧ parts.flatten = ids ∧
        blocks.length = ceilDiv ids.length cfg.B.toNat := by
    intro blocks hb
    exact blocks_roundtrip_bs ids cfg.B cfg.idSize (cfg.B * cfg.idSize) hg.B hg.ids (Int.le_refl _)
      (by rw [toNat_mul cfg.B cfg.idSize hg.B hg.ids]; exact Nat.mul_div_cancel_left _ hBn) hv blocks hb
  cases hcase with
  | small hn =>
    have hfit : ids.length * cfg.idSize.toNat ≤ (cfg.b * cfg.idSize).toNat := by
      rw [htot]; exact Nat.mul_le_mul_right _ (by omega)
    have hp := parse_padded ids cfg.idSize.toNat cfg.b.toNat (cfg.b * cfg.idSize).toNat hv hidn hbn hfit
      (by rw [htot]; exact Nat.mul_div_cancel_left _ hbn)
    rw [eb] at hp
    have hp0 := parseAll_single cfg.b 0 _ ids hp
    simp only [List.length_flatten] at hp0
    simp [levelLoop, hread0, decAllOpt, hdec, hp0, bind, Except.bind, pure, Except.pure]
  | medium blocks poss ptrs hn1 hn2 hb hP =>
    obtain ⟨parts, hparts, hflat, hcount⟩ := idblocks blocks hb
    have hvp : C17.ValidIds ptrs cfg.idxSize.toNat := hP.ptrs_valid cfg lv hidx0 (hposs _ _ _ _ hP)
    have hpl := hP.lengths
    have hnb : ptrs.length ≤ cfg.bp.toNat := by
      rw [hpl.2, hcount]
      apply ceilDiv_le_of_le_mul _ _ _ hBn
      have : ((cfg.B.toNat * cfg.bp.toNat : Nat) : Int) = cfg.B * cfg.bp := by rw [Int.natCast_mul, eB, ebp]
      omega
    have hfit : ptrs.length * cfg.idxSize.toNat ≤ (cfg.b * cfg.idSize).toNat := by
      calc ptrs.length * cfg.idxSize.toNat ≤ cfg.bp.toNat * cfg.idxSize.toNat := Nat.mul_le_mul_right _ hnb
        _ = cfg.bp.toNat * ((cfg.b * cfg.idSize).toNat / cfg.bp.toNat) := by rw [hg.idx1]
        _ ≤ _ := Nat.mul_div_le _ _
    have hp := parse_padded ptrs cfg.idxSize.toNat cfg.bp.toNat (cfg.b * cfg.idSize).toNat hvp hixn hbpn hfit hg.idx1
    rw [ebp] at hp
    have hp0 := parseAll_single cfg.bp 1 _ ptrs hp
    simp only [List.length_flatten] at hp0
    obtain ⟨cells, hc1, hc2⟩ := readCells_placed cfg lv edb 1 (by decide) hidx0 K2 0 blocks poss ptrs hP
    have hbne : blocks ≠ [] := by
      intro e; rw [e] at hcount
      have : 0 < ids.length := List.length_pos_iff.mpr hne
      have : 0 < ceilDiv ids.length cfg.B.toNat := by unfold ceilDiv; exact Nat.div_pos (by omega) hBn
      simp at hcount; omega
    obtain ⟨b0, brest, hbe⟩ := List.exists_cons_of_ne_nil hbne
    have hpa := parseAll_blocks cfg.B 0 blocks parts hparts
    subst hbe
    simp only [List.map_cons] at hc2 hpa
    simp [levelLoop, hread0, decAllOpt, hdec, hp0, hc1, hc2, hpa, hflat, bind, Except.bind, pure, Except.pure]
  | large blocks poss ptrs pblocks poss2 ptrs2 hn1 hn2 hb hP hpb hP2 =>
    obtain ⟨parts, hparts, hflat, hcount⟩ := idblocks blocks hb
    have hvp : C17.ValidIds ptrs cfg.idxSize.toNat := hP.ptrs_valid cfg lv hidx0 (hposs _ _ _ _ hP)
    have hvp2 : C17.ValidIds ptrs2 cfg.idxSize.toNat := hP2.ptrs_valid cfg lv hidx0 (hposs _ _ _ _ hP2)
    have hpl := hP.lengths
    have hpl2 := hP2.lengths
    have eix : ((cfg.idxSize.toNat : Nat) : Int) = cfg.idxSize := by omega
    have hBid : (cfg.B * cfg.idSize).toNat = cfg.B.toNat * cfg.idSize.toNat := toNat_mul cfg.B cfg.idSize hg.B hg.ids
    have hfitp : cfg.Bp * cfg.idxSize ≤ cfg.B * cfg.idSize := by
      have h1 : cfg.Bp.toNat * ((cfg.B * cfg.idSize).toNat / cfg.Bp.toNat) ≤ (cfg.B * cfg.idSize).toNat := Nat.mul_div_le _ _
      rw [hg.idx2] at h1
      have h2 : ((cfg.Bp.toNat * cfg.idxSize.toNat : Nat) : Int) = cfg.Bp * cfg.idxSize := by rw [Int.natCast_mul, eBp, eix]
      have h3 : (((cfg.B * cfg.idSize).toNat : Nat) : Int) = cfg.B * cfg.idSize := by
        have : 0 < cfg.B * cfg.idSize := Int.mul_pos hg.B hg.ids
        omega
      omega
    obtain ⟨pparts, hpparts, hpflat, hpcount⟩ :=
      blocks_roundtrip_bs ptrs cfg.Bp cfg.idxSize (cfg.B * cfg.idSize) hg.Bp hg.idx hfitp hg.idx2 hvp pblocks hpb
    -- at most b' second-level pointers
    have hnb : ptrs2.length ≤ cfg.bp.toNat := by
      rw [hpl2.2, hpcount, hpl.2, hcount]
      apply ceilDiv_le_of_le_mul _ _ _ hBpn
      apply ceilDiv_le_of_le_mul _ _ _ hBn
      have : ((cfg.B.toNat * (cfg.Bp.toNat * cfg.bp.toNat) : Nat) : Int) = cfg.B * cfg.Bp * cfg.bp := by
        rw [Int.natCast_mul, Int.natCast_mul, eB, eBp, ebp, Int.mul_assoc]
      omega
    have hfit : ptrs2.length * cfg.idxSize.toNat ≤ (cfg.b * cfg.idSize).toNat := by
      calc ptrs2.length * cfg.idxSize.toNat ≤ cfg.bp.toNat * cfg.idxSize.toNat := Nat.mul_le_mul_right _ hnb
        _ = cfg.bp.toNat * ((cfg.b * cfg.idSize).toNat / cfg.bp.toNat) := by rw [hg.idx1]
        _ ≤ _ := Nat.mul_div_le _ _
    have hp := parse_padded ptrs2 cfg.idxSize.toNat cfg.bp.toNat (cfg.b * cfg.idSize).toNat hvp2 hixn hbpn hfit hg.idx1
    rw [ebp] at hp
    have hp0 := parseAll_single cfg.bp 1 _ ptrs2 hp
    simp only [List.length_flatten] at hp0
    obtain ⟨cells1, hc1, hc2⟩ := readCells_placed cfg lv edb 1 (by decide) hidx0 K2 1 pblocks poss2 ptrs2 hP2
    obtain ⟨cells2, hd1, hd2⟩ := readCells_placed cfg lv edb 2 (by decide) hidx0 K2 0 blocks poss ptrs hP
    have hbne : blocks ≠ [] := by
      intro e; rw [e] at hcount
      have : 0 < ids.length := List.length_pos_iff.mpr hne
      have : 0 < ceilDiv ids.length cfg.B.toNat := by unfold ceilDiv; exact Nat.div_pos (by omega) hBn
      simp at hcount; omega
    have hpbne : pblocks ≠ [] := by
      intro e; rw [e] at hpcount
      have : 0 < ptrs.length := by rw [hpl.2]; exact List.length_pos_iff.mpr hbne
      have : 0 < ceilDiv ptrs.length cfg.Bp.toNat := by unfold ceilDiv; exact Nat.div_pos (by omega) hBpn
      simp at hpcount; omega
    obtain ⟨b0, brest, hbe⟩ := List.exists_cons_of_ne_nil hbne
    obtain ⟨q0, qrest, hqe⟩ := List.exists_cons_of_ne_nil hpbne
    have hpa1 := parseAll_blocks cfg.Bp 1 pblocks pparts hpparts
    have hpa2 := parseAll_blocks cfg.B 0 blocks parts hparts
    subst hbe; subst hqe
    simp only [List.map_cons] at hc2 hd2 hpa1 hpa2
    simp [levelLoop, hread0, decAllOpt, hdec, hp0, hc1, hc2, hpa1, hpflat, hd1, hd2, hpa2, hflat, bind, Except.bind, pure, Except.pure]

omit hde in
theorem Placed.pos_of_empty0 {K2 : Bytes} {mark : UInt8} {A : List (Option Bytes)} {blocks : List Bytes} {poss : List Nat}
    {ptrs : List Bytes} (h : Placed cfg lv K2 mark A blocks poss ptrs) (h0 : ∀ d, A[0]? ≠ some (some d)) : ∀ p ∈ poss, 0 < p := by
  induction h with
  | nil => intro p hp; cases hp
  | cons blk rest pos poss ptr ptrs d _ h2 _ _ ih =>
    intro p hp
    simp only [List.mem_cons] at hp
    rcases hp with rfl | hp
    · rcases Nat.eq_zero_or_pos p with h | h
      · subst h; exact absurd h2 (h0 d)
      · exact h
    · exact ih p hp

/-- Pi2Lev: a stored keyword's search returns its list -/
theorem search_present (hg : GoodCfg cfg) (K : Bytes) (db : DB) (t t' : Tape) (edb : PiPtrEDB)
    (hs : setup cfg lv K db t = .ok (edb, t'))
    (hsample : ∀ avail t0, takeNats t = .ok (avail, t0) → avail.Nodup ∧ ∀ p ∈ avail, 0 < p)
    (w : Bytes) (ids : List Bytes) (hm : (w, ids) ∈ db) (hne : ids ≠ []) (hv : C17.ValidIds ids cfg.idSize.toNat)
    (hnc : ∀ L A avail t0, takeNats t = .ok (avail, t0) →
      encDb cfg lv K db avail (List.replicate (arrayLen cfg db) none) t0 = .ok (L, A, t') → (L.map (·.1)).Nodup) :
    ∃ tk, token cfg lv K w = .ok tk ∧ search cfg lv edb tk = .ok ids := by
  simp only [setup] at hs
  by_cases c0 : cfg.idxSize < 0
  · have := hg.idx; omega
  · simp only [c0, if_false, bind, Except.bind, pure, Except.pure] at hs
    split at hs
    · simp [throw, throwThe, MonadExceptOf.throw] at hs
    · split at hs
      · cases hs
      · rename_i r hr
        obtain ⟨avail, t0⟩ := r
        simp only at hs
        split at hs
        · simp [throw, throwThe, MonadExceptOf.throw] at hs
        · split at hs
          · cases hs
          · rename_i r2 hr2
            obtain ⟨L, A, t1⟩ := r2
            simp only at hs
            cases hs
            obtain ⟨hnd, hpos⟩ := hsample avail t0 hr
            have hLn := hnc L A avail t0 hr hr2
            have hfe : FreeEmpty avail (List.replicate (arrayLen cfg db) (none : Option Bytes)) := by
              intro i _ d hd
              rw [List.getElem?_replicate] at hd
              split at hd <;> cases hd
            obtain ⟨hout, hsp⟩ := encDb_split cfg lv hde K db avail _ t0 L A _ hr2 hnd hfe
            obtain ⟨K1, K2, e, pre, post, htk, hL, mark, content, a1, a2, a3⟩ := hsp w ids hm
            have hA0 : ∀ d, A[0]? ≠ some (some d) := by
              intro d hd
              have h0 : (0 : Nat) ∉ avail := fun hm0 => by have := hpos 0 hm0; omega
              rw [hout 0 h0, List.getElem?_replicate] at hd
              split at hd <;> cases hd
            refine ⟨(K1, K2), htk, ?_⟩
            have hget : (buildTable L).get e.1 = some e.2 := by
              apply buildTable_get_mem L e.1 e.2 hLn
              rw [hL]; simp
            simp only [search, a1, bind, Except.bind, hget, Option.isNone_some]
            exact levelLoop_entry cfg lv hde hg ⟨buildTable L, A⟩ K1 K2 ids e.1 e.2 hget hv hne mark content a2 a3
              (fun m blocks poss ptrs hP => hP.pos_of_empty0 cfg lv hA0)

omit hde in
theorem fdiv_toNat (a b : Int) (ha : 0 ≤ a) (hb : 0 < b) : (Int.fdiv a b).toNat = a.toNat / b.toNat := by
  obtain ⟨m, rfl⟩ := Int.eq_ofNat_of_zero_le ha
  obtain ⟨n, rfl⟩ := Int.eq_ofNat_of_zero_le (Int.le_of_lt hb)
  rw [Int.fdiv_eq_ediv_of_nonneg _ (Int.le_of_lt hb)]
  have : ((m : Int) / (n : Int)) = ((m / n : Nat) : Int) := (Int.natCast_ediv m n).symm
  have h2 : (((m / n : Nat) : Int)).toNat = m / n := Int.toNat_natCast _
  rw [← this] at h2
  exact h2

omit hde in
/-- what `Pi2Lev.cfgBuild` establishes (the pointer width must come out positive: `param_B·idsize ≥ param_B'`) -/
theorem cfgBuild_ok (raw : RawCfg) (h : Pi2Lev.cfgBuild raw = .ok cfg) (hidx : 0 < cfg.idxSize) :
    GoodCfg cfg ∧ PlainSke cfg.ske := by
  unfold Pi2Lev.cfgBuild at h
  simp only [bind, Except.bind] at h
  repeat (split at h; (try cases h))
  all_goals (try (simp only [pure, Except.pure] at h))
  all_goals (try (simp [throw, throwThe, MonadExceptOf.throw] at h; done))
  rename_i hpos _ _ hex _ lam hlam _ B hB _ b hb _ Bp hBp _ bp hbp _ out hout _ ids hids hz heq _ _ _ ske hske
  cases h
  have pB := param_pos _ raw "param_B" B hpos hex (by decide +kernel) (by simp) hB
  have pb := param_pos _ raw "param_b" b hpos hex (by decide +kernel) (by simp) hb
  have pBp := param_pos _ raw "param_B_prime" Bp hpos hex (by decide +kernel) (by simp) hBp
  have pbp := param_pos _ raw "param_b_prime" bp hpos hex (by decide +kernel) (by simp) hbp
  have pid := param_pos _ raw "param_identifier_size" ids hpos hex (by decide +kernel) (by simp) hids
  simp only at hidx
  refine ⟨⟨pB, pb, pBp, pbp, pid, hidx, ?_, ?_⟩, (new_plain lam ske hske).1⟩
  · simp only
    have hne : ¬ (Int.fdiv (b * ids) bp ≠ Int.fdiv (B * ids) Bp) := heq
    have : Int.fdiv (b * ids) bp = Int.fdiv (B * ids) Bp := by
      by_cases e : Int.fdiv (b * ids) bp = Int.fdiv (B * ids) Bp
      · exact e
      · exact absurd e hne
    rw [← fdiv_toNat (b * ids) bp (Int.le_of_lt (Int.mul_pos pb pid)) pbp, this]
  · simp only
    rw [← fdiv_toNat (B * ids) Bp (Int.le_of_lt (Int.mul_pos pB pid)) pBp]

end SSEPy.Sch.Pi2Lev
