/-
  Tables built by `build_from_list` / `create_hash_table`: look-up after sorting and dict construction.
-/
import SSEPyVerif.Model.Schemes.Common
namespace SSEPy.Sch

theorem lookup_tinsert (t : Table) (k v k' : Bytes) :
    (tinsert t k v).lookup k' = if k' = k then some v else t.lookup k' := by
  induction t with
  | nil => simp [tinsert, List.lookup_cons]; split <;> simp_all
  | cons p rest ih =>
    obtain ⟨a, b⟩ := p
    simp only [tinsert]
    by_cases h : a = k
    · subst h; simp only [if_true, List.lookup_cons]
      by_cases h2 : k' = a
      · subst h2; simp
      · have : (k' == a) = false := by simpa using h2
        simp [this, h2]
    · simp only [h, if_false, List.lookup_cons]
      by_cases h2 : k' = a
      · subst h2
        have : k' ≠ k := h
        simp [this]
      · have : (k' == a) = false := by simpa using h2
        simp [this, ih]

theorem keys_tinsert (t : Table) (k v : Bytes) :
    (tinsert t k v).map (·.1) = if k ∈ t.map (·.1) then t.map (·.1) else t.map (·.1) ++ [k] := by
  induction t with
  | nil => simp [tinsert]
  | cons p rest ih =>
    obtain ⟨a, b⟩ := p
    simp only [tinsert]
    by_cases h : a = k
    · subst h; simp
    · have hk : ¬ k = a := fun e => h e.symm
      simp only [h, if_false, List.map_cons, ih, List.mem_cons, hk, false_or]
      split <;> simp

theorem foldl_tinsert_lookup (ps : List (Bytes × Bytes)) (t : Table) (k : Bytes) :
    (ps.foldl (fun t p => tinsert t p.1 p.2) t).lookup k =
      match ps.reverse.lookup k with
      | some v => some v
      | none => t.lookup k := by
  induction ps generalizing t with
  | nil => simp
  | cons p rest ih =>
    obtain ⟨a, b⟩ := p
    simp only [List.foldl_cons, ih, List.reverse_cons]
    rw [List.lookup_append]
    cases h : rest.reverse.lookup k with
    | some v => simp
    | none =>
      simp only [Option.none_or, lookup_tinsert, List.lookup_cons, List.lookup_nil]
      by_cases hk : k = a
      · subst hk; simp
      · have : (k == a) = false := by simpa using hk
        simp [this, hk]

theorem lookup_of_mem_nodup (ps : List (Bytes × Bytes)) (k v : Bytes) (hn : (ps.map (·.1)).Nodup)
    (hm : (k, v) ∈ ps) : ps.lookup k = some v := by
  induction ps with
  | nil => cases hm
  | cons p rest ih =>
    obtain ⟨a, b⟩ := p
    simp only [List.map_cons, List.nodup_cons] at hn
    simp only [List.mem_cons, Prod.mk.injEq] at hm
    rcases hm with ⟨rfl, rfl⟩ | hm
    · simp [List.lookup_cons]
    · have hne : k ≠ a := by
        intro e; subst e
        exact hn.1 (List.mem_map.mpr ⟨(k, v), hm, rfl⟩)
      have : (k == a) = false := by simpa using hne
      simp [List.lookup_cons, this, ih hn.2 hm]

theorem lookup_none_of_not_mem (ps : List (Bytes × Bytes)) (k : Bytes) (h : k ∉ ps.map (·.1)) :
    ps.lookup k = none := by
  induction ps with
  | nil => rfl
  | cons p rest ih =>
    obtain ⟨a, b⟩ := p
    simp only [List.map_cons, List.mem_cons, not_or] at h
    have : (k == a) = false := by simpa using h.1
    simp [List.lookup_cons, this, ih h.2]

theorem tableOfList_get_mem (ps : List (Bytes × Bytes)) (k v : Bytes) (hn : (ps.map (·.1)).Nodup)
    (hm : (k, v) ∈ ps) : (tableOfList ps).lookup k = some v := by
  unfold tableOfList
  rw [foldl_tinsert_lookup]
  have : ps.reverse.lookup k = some v :=
    lookup_of_mem_nodup _ _ _ (by rw [List.map_reverse]; exact (List.reverse_perm _).nodup_iff.mpr hn) (by simpa using hm)
  simp [this]

theorem tableOfList_get_none (ps : List (Bytes × Bytes)) (k : Bytes) (h : k ∉ ps.map (·.1)) :
    (tableOfList ps).lookup k = none := by
  unfold tableOfList
  rw [foldl_tinsert_lookup]
  have : ps.reverse.lookup k = none := lookup_none_of_not_mem _ _ (by simpa [List.map_reverse] using h)
  simp [this]

theorem foldl_tinsert_keys (ps : List (Bytes × Bytes)) (t : Table)
    (hn : (t.map (·.1) ++ ps.map (·.1)).Nodup) :
    (ps.foldl (fun t p => tinsert t p.1 p.2) t).map (·.1) = t.map (·.1) ++ ps.map (·.1) := by
  induction ps generalizing t with
  | nil => simp
  | cons p rest ih =>
    simp only [List.foldl_cons]
    have hnot : p.1 ∉ t.map (·.1) := by
      intro hm
      rw [List.nodup_append] at hn
      exact hn.2.2 _ hm _ (by simp) rfl
    have hk : (tinsert t p.1 p.2).map (·.1) = t.map (·.1) ++ [p.1] := by
      rw [keys_tinsert]; simp [hnot]
    rw [ih]
    · rw [hk]; simp
    · rw [hk]; simpa using hn

theorem tableOfList_keys (ps : List (Bytes × Bytes)) (hn : (ps.map (·.1)).Nodup) :
    (tableOfList ps).map (·.1) = ps.map (·.1) := by
  have := foldl_tinsert_keys ps [] (by simpa using hn)
  simpa [tableOfList] using this

theorem tableOfList_length (ps : List (Bytes × Bytes)) (hn : (ps.map (·.1)).Nodup) :
    (tableOfList ps).length = ps.length := by
  have := congrArg List.length (tableOfList_keys ps hn)
  simpa using this

/-! ### `buildTable` = sort, then dict -/

theorem sorted_perm (ps : List (Bytes × Bytes)) :
    (ps.mergeSort fun a b => bytesLe a.1 b.1).Perm ps := List.mergeSort_perm _ _

theorem buildTable_get_mem (ps : List (Bytes × Bytes)) (k v : Bytes) (hn : (ps.map (·.1)).Nodup)
    (hm : (k, v) ∈ ps) : (buildTable ps).get k = some v := by
  unfold buildTable Table.get
  have hp := sorted_perm ps
  apply tableOfList_get_mem
  · exact (hp.map (·.1)).nodup_iff.mpr hn
  · exact hp.mem_iff.mpr hm

theorem buildTable_get_none (ps : List (Bytes × Bytes)) (k : Bytes) (h : k ∉ ps.map (·.1)) :
    (buildTable ps).get k = none := by
  unfold buildTable Table.get
  have hp := sorted_perm ps
  apply tableOfList_get_none
  intro hm
  exact h ((hp.map (·.1)).mem_iff.mp hm)

theorem buildTable_length (ps : List (Bytes × Bytes)) (hn : (ps.map (·.1)).Nodup) :
    (buildTable ps).length = ps.length := by
  unfold buildTable
  have hp := sorted_perm ps
  rw [tableOfList_length _ ((hp.map (·.1)).nodup_iff.mpr hn)]
  exact hp.length_eq

theorem buildTable_keys (ps : List (Bytes × Bytes)) (hn : (ps.map (·.1)).Nodup) :
    (buildTable ps).map (·.1) = (ps.mergeSort fun a b => bytesLe a.1 b.1).map (·.1) := by
  unfold buildTable
  exact tableOfList_keys _ (((sorted_perm ps).map (·.1)).nodup_iff.mpr hn)

theorem skeEncrypt_ok {ske : AESxCBC} {lv : Leaves} {key msg : Bytes} {t t' : Tape} {c : Bytes}
    (h : skeEncrypt ske lv key msg t = .ok (c, t')) :
    ∃ iv, takeBytes 16 t = .ok (iv, t') ∧ ske.encrypt lv.E key iv msg = .ok c := by
  unfold skeEncrypt at h
  split at h
  · cases h
  · simp only [bind, Except.bind] at h
    split at h
    · cases h
    · rename_i r hr
      obtain ⟨iv, t1⟩ := r
      simp only at h
      split at h
      · cases h
      · rename_i d hd
        simp only [pure, Except.pure] at h
        cases h
        exact ⟨iv, hr, hd⟩

end SSEPy.Sch
