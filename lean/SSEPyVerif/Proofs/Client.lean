/-
  The client program the theorems are about (`expectedClient`), the shapes its persisted state can have in
  crash-free single-client use, and closed forms of every command on every shape.
  Props/C11.lean checks `Generated.clientProgram = expectedClient` on every run.
-/
import SSEPyVerif.Model.Client
namespace SSEPy.ClientIR
open SSEPy.ServerIR

def expectedClient : Program := {
  bitMasks := [(.created, 1), (.uploaded, 2), (.key, 4), (.encrypted, 8), (.dbUploaded, 16)],
  ctor := [.ifLocalValid [.readConfig, .readMeta] [.initMeta 0], .ifCreated [.loadModule, .loadConfigObject]],
  createConfig := [.guardBit .created true, .requireValidConfig, .addSalt, .calcSid, .mkdirSid, .writeConfig,
    .setMemConfig, .setBit .created true, .storeMeta, .returnSid],
  createKey := [.guardBit .key true, .guardBit .created false, .loadConfigObject, .loadScheme, .keyGen, .writeKey,
    .setBit .key true, .storeMeta],
  encryptDatabase := [.guardBit .encrypted true, .guardBit .created false, .guardBit .key false, .loadScheme, .loadKey,
    .edbSetup, .writeEdb, .setBit .encrypted true, .storeMeta],
  uploadConfig := [.loadWebsocket, .guardBit .uploaded true, .guardBit .created false, .waitSetup, .sendMsg "config",
    .awaitReply],
  uploadEdb := [.loadWebsocket, .guardBit .dbUploaded true, .guardBit .uploaded false, .guardBit .key false,
    .loadEdbFile, .waitSetup, .sendMsg "upload_edb", .awaitReply],
  keywordSearch := [.loadWebsocket, .guardBit .dbUploaded false, .loadScheme, .loadKey, .waitSetup, .tokenGen,
    .sendMsg "token", .awaitReply],
  uploadConfigEcho := [.returnIfNotOk, .setBit .uploaded true, .storeMeta],
  uploadEdbEcho := [.returnIfNotOk, .setBit .dbUploaded true, .storeMeta, .deleteEdb],
  closeService := [.storeMeta, .closeWebsocket],
  echoDispatch := [("config", "handle_upload_config_echo"), ("upload_edb", "handle_upload_encrypted_database_echo"),
    ("result", "handle_result"), ("control", "handle_control_message")],
  updateTable := [(0, [.setBit .uploaded false, .setBit .dbUploaded false]),
    (1, [.setBit .uploaded true, .setBit .dbUploaded false]), (2, [.setBit .uploaded true, .setBit .dbUploaded true])],
  fmCheckValid := [.retAllExist ["config.json", "service_meta"]],
  fmCreateSidFolder := [.mkdir],
  fmWriteConfig := [.openTmp "config.json", .writeTmp "config.json", .replace "config.json"],
  fmWriteMeta := [.openTmp "service_meta", .writeTmp "service_meta", .replace "service_meta"],
  fmWriteEdb := [.openTmp "edb", .writeTmp "edb", .replace "edb"],
  fmWriteKey := [.openTmp "key", .writeTmp "key", .replace "key"],
  fmDeleteEdb := [.unlink "edb"] }

abbrev CP := expectedClient

/-- how far key generation and encryption have come -/
inductive KStage where
  | none | key (k : Nat) | enc (k : Nat)
  deriving DecidableEq, Repr

def KStage.hasKey : KStage → Bool | .none => false | _ => true
def KStage.isEnc : KStage → Bool | .enc _ => true | _ => false
def KStage.keyFile : KStage → FileSt Nat | .none => .absent | .key k => .full k | .enc k => .full k
def KStage.edbFile : KStage → FileSt Nat | .enc k => .full k | _ => .absent

/-- the abstract client/server world: before the service is created, during the workflow, after the index is uploaded.
    `alive` is the (volatile) "a connection is open" mark of the reference server; `n` the next fresh key id -/
inductive AS where
  | fresh (alive : Bool) (n : Nat)
  | mid (c : Cfg) (ks : KStage) (up alive : Bool) (n : Nat)
  | done (c : Cfg) (k n : Nat)
  deriving DecidableEq, Repr

def AS.world : AS → World
  | .fresh alive n => { cdisk := {}, server := { alive := alive }, nextKey := n }
  | .mid c ks up alive n =>
    { cdisk := { dir := true, config := .full c,
                 metaSt := .full { created := true, uploaded := up, key := ks.hasKey, encrypted := ks.isEnc,
                                   dbUploaded := false },
                 key := ks.keyFile, edb := ks.edbFile },
      server := if up then { st := 1, cfg := some c, edb := none, alive := alive } else { alive := alive },
      nextKey := n }
  | .done c k n =>
    { cdisk := { dir := true, config := .full c,
                 metaSt := .full { created := true, uploaded := true, key := true, encrypted := true, dbUploaded := true },
                 key := .full k, edb := .absent },
      server := { st := 2, cfg := some c, edb := some k, alive := false }, nextKey := n }

/-- what one user command does, on the abstract world -/
def AS.step : AS → Cmd → AS × COut
  | .fresh a n, .create c true => (.mid c .none false a n, .ok)
  | .fresh a n, .create _ false => (.fresh a n, .refused)
  | .fresh a n, .key => (.fresh a n, .refused)
  | .fresh a n, .encrypt => (.fresh a n, .refused)
  -- a network command connects first; with no service folder `close_service` fails before closing the socket
  | .fresh _ n, .uploadConfig => (.fresh true n, .refused)
  | .fresh _ n, .uploadEdb => (.fresh true n, .refused)
  | .fresh _ n, .search => (.fresh true n, .refused)
  | .mid c ks up a n, .create _ _ => (.mid c ks up a n, .refused)
  | .mid c .none up a n, .key => (.mid c (.key n) up a (n + 1), .ok)
  | .mid c (.key k) up a n, .key => (.mid c (.key k) up a n, .refused)
  | .mid c (.enc k) up a n, .key => (.mid c (.enc k) up a n, .refused)
  | .mid c (.key k) up a n, .encrypt => (.mid c (.enc k) up a n, .ok)
  | .mid c .none up a n, .encrypt => (.mid c .none up a n, .refused)
  | .mid c (.enc k) up a n, .encrypt => (.mid c (.enc k) up a n, .refused)
  | .mid c ks false _ n, .uploadConfig => (.mid c ks true false n, .ok)
  | .mid c ks true _ n, .uploadConfig => (.mid c ks true false n, .refused)
  | .mid c (.enc k) true _ n, .uploadEdb => (.done c k n, .ok)
  | .mid c ks up _ n, .uploadEdb => (.mid c ks up false n, .refused)
  | .mid c ks up _ n, .search => (.mid c ks up false n, .refused)
  | .done c k n, .search => (.done c k n, .result k k)
  | .done c k n, _ => (.done c k n, .refused)

def AS.run (a : AS) : List Cmd → AS × List COut
  | [] => (a, [])
  | c :: cs => ((a.step c).1.run cs).1 |> fun a' => (a', (a.step c).2 :: ((a.step c).1.run cs).2)

/-- THE REFINEMENT: the client program (extracted from the source), run by the interpreter on the concrete world,
    does exactly what the table `AS.step` says -/
theorem runCmd_world (a : AS) (cmd : Cmd) :
    runCmd CP a.world cmd = ((a.step cmd).1.world, (a.step cmd).2) := by
  cases a with
  | fresh alive n => cases cmd with
    | create c v => cases v <;> rfl
    | _ => rfl
  | mid c ks up alive n =>
    cases cmd with
    | create c' v => cases v <;> cases ks <;> cases up <;> rfl
    | _ => cases ks <;> cases up <;> rfl
  | done c k n => cases cmd with
    | create c' v => cases v <;> rfl
    | _ => rfl

theorem runCmds_world (a : AS) (cmds : List Cmd) :
    runCmds CP a.world cmds = ((a.run cmds).1.world, (a.run cmds).2) := by
  induction cmds generalizing a with
  | nil => rfl
  | cons c cs ih =>
    simp only [runCmds, AS.run, runCmd_world, ih]

theorem world_init : ({} : World) = (AS.fresh false 1).world := rfl

end SSEPy.ClientIR
