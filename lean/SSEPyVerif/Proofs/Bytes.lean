/-
  Helper lemmas for C17 (byte-level encodings).
-/
import SSEPyVerif.Model.Bytes
namespace SSEPy

/-! ### chunks -/

theorem chunksFuel_flatten (n : Nat) (hn : 0 < n) :
    ∀ (fuel : Nat) (l : List α), l.length ≤ fuel → (chunksFuel fuel l n).flatten = l := by
  intro fuel
  induction fuel with
  | zero => intro l h; have : l = [] := List.eq_nil_of_length_eq_zero (by omega); subst this; simp [chunksFuel]
  | succ f ih =>
    intro l h
    unfold chunksFuel
    by_cases he : l.isEmpty
    · simp [he]; exact (List.isEmpty_iff.mp he)
    · simp only [he, Bool.false_eq_true, ↓reduceIte, List.flatten_cons]
      have hl : 0 < l.length := by
        cases l with
        | nil => simp at he
        | cons _ _ => simp
      rw [ih (l.drop n) (by simp; omega)]
      exact List.take_append_drop n l

theorem chunksFuel_length (n : Nat) (hn : 0 < n) :
    ∀ (fuel : Nat) (l : List α), l.length ≤ fuel → (chunksFuel fuel l n).length = ceilDiv l.length n := by
  intro fuel
  induction fuel with
  | zero =>
    intro l h
    have : l = [] := List.eq_nil_of_length_eq_zero (by omega)
    subst this
    simp [chunksFuel, ceilDiv]
    exact (Nat.div_eq_zero_iff.mpr (Or.inr (by omega))).symm
  | succ f ih =>
    intro l h
    unfold chunksFuel
    by_cases he : l.isEmpty
    · have : l = [] := List.isEmpty_iff.mp he
      subst this
      simp [ceilDiv]
      exact (Nat.div_eq_zero_iff.mpr (Or.inr (by omega))).symm
    · simp only [he, Bool.false_eq_true, ↓reduceIte, List.length_cons]
      have hl : 0 < l.length := by
        cases l with
        | nil => simp at he
        | cons _ _ => simp
      rw [ih (l.drop n) (by simp; omega)]
      simp only [List.length_drop, ceilDiv]
      by_cases hle : l.length ≤ n
      · have h0 : l.length - n = 0 := by omega
        rw [h0]
        have : (0 + n - 1) / n = 0 := Nat.div_eq_zero_iff.mpr (Or.inr (by omega))
        rw [this]
        have : (l.length + n - 1) / n = 1 := by
          apply Nat.div_eq_of_lt_le <;> omega
        omega
      · have : l.length + n - 1 = (l.length - n + n - 1) + n := by omega
        rw [this, Nat.add_div_right _ hn]

/-- every chunk is non-empty and has at most `n` elements; all but possibly the last have exactly `n`. -/
theorem chunksFuel_mem_length (n : Nat) (hn : 0 < n) :
    ∀ (fuel : Nat) (l : List α), l.length ≤ fuel →
      ∀ c ∈ chunksFuel fuel l n, 0 < c.length ∧ c.length ≤ n := by
  intro fuel
  induction fuel with
  | zero => intro l _ c hc; simp [chunksFuel] at hc
  | succ f ih =>
    intro l h c hc
    unfold chunksFuel at hc
    by_cases he : l.isEmpty
    · simp [he] at hc
    · simp only [he, Bool.false_eq_true, ↓reduceIte, List.mem_cons] at hc
      have hl : 0 < l.length := by
        cases l with
        | nil => simp at he
        | cons _ _ => simp
      rcases hc with rfl | hc
      · simp [List.length_take]; omega
      · exact ih (l.drop n) (by simp; omega) c hc

/-! ### identifier blocks -/

theorem allZero_zeros (n : Nat) : allZero (zeros n) = true := by
  simp [allZero, zeros]

theorem allZero_iff (b : Bytes) : allZero b = true ↔ b = zeros b.length := by
  induction b with
  | nil => simp [allZero, zeros]
  | cons x xs ih =>
    simp only [allZero, List.all_cons, Bool.and_eq_true, beq_iff_eq, List.length_cons, zeros,
      List.replicate_succ, List.cons.injEq] at ih ⊢
    constructor
    · rintro ⟨h1, h2⟩; exact ⟨h1, ih.mp h2⟩
    · rintro ⟨h1, h2⟩; exact ⟨h1, ih.mpr h2⟩

/-- parsing `ids.flatten ++ zero padding` gives back `ids` when every id has length `sz > 0` and is not all-zero -/
theorem parseLoop_flatten_zeros (sz : Nat) (hsz : 0 < sz) :
    ∀ (ids : List Bytes) (pad fuel : Nat),
      (∀ id ∈ ids, id.length = sz ∧ allZero id = false) →
      (ids.flatten ++ zeros pad).length ≤ fuel →
      parseLoop fuel (ids.flatten ++ zeros pad) sz = ids := by
  intro ids
  induction ids with
  | nil =>
    intro pad fuel _ _
    simp only [List.flatten_nil, List.nil_append]
    cases fuel with
    | zero => simp [parseLoop]
    | succ f =>
      unfold parseLoop
      by_cases hp : pad = 0
      · subst hp; simp [zeros]
      · have : (zeros pad).isEmpty = false := by
          cases pad with
          | zero => contradiction
          | succ p => simp [zeros, List.replicate_succ]
        simp only [this, Bool.false_eq_true, ↓reduceIte]
        have : allZero (List.take sz (zeros pad)) = true := by
          simp [zeros, allZero, List.take_replicate]
        simp [this]
  | cons id rest ih =>
    intro pad fuel hids hfuel
    have hid := hids id (by simp)
    have hrest : ∀ x ∈ rest, x.length = sz ∧ allZero x = false := fun x hx => hids x (by simp [hx])
    simp only [List.flatten_cons, List.append_assoc] at hfuel ⊢
    cases fuel with
    | zero =>
      simp at hfuel
      have := hfuel.1
      have : id.length = 0 := by simp [this]
      omega
    | succ f =>
      unfold parseLoop
      have hne : (id ++ (rest.flatten ++ zeros pad)).isEmpty = false := by
        cases id with
        | nil => simp at hid; omega
        | cons _ _ => simp
      simp only [hne, Bool.false_eq_true, ↓reduceIte]
      have htake : List.take sz (id ++ (rest.flatten ++ zeros pad)) = id := by
        rw [List.take_append_of_le_length (by omega)]
        exact List.take_of_length_le (by omega)
      have hdrop : List.drop sz (id ++ (rest.flatten ++ zeros pad)) = rest.flatten ++ zeros pad := by
        rw [← hid.1]; exact List.drop_left
      simp only [htake, hid.2, Bool.false_eq_true, ↓reduceIte, hdrop, List.cons.injEq, true_and]
      apply ih pad f hrest
      simp only [List.length_append] at hfuel ⊢
      omega

theorem flatten_length_of_all (sz : Nat) (ids : List Bytes) (h : ∀ id ∈ ids, id.length = sz) :
    ids.flatten.length = ids.length * sz := by
  induction ids with
  | nil => simp
  | cons x xs ih =>
    simp only [List.flatten_cons, List.length_append, List.length_cons]
    rw [ih (fun id hid => h id (by simp [hid])), h x (by simp)]
    rw [Nat.add_mul]; omega

/-! ### xor -/

theorem xorPrefix_length : ∀ (a b : Bytes), (xorPrefix a b).length = a.length
  | a, [] => by simp [xorPrefix]
  | [], _ :: _ => by simp [xorPrefix]
  | x :: a, y :: b => by simp [xorPrefix, xorPrefix_length a b]

theorem xorPrefix_involution : ∀ (a b : Bytes), xorPrefix (xorPrefix a b) b = a
  | a, [] => by simp [xorPrefix]
  | [], _ :: _ => by simp [xorPrefix]
  | x :: a, y :: b => by
    simp only [xorPrefix, List.cons.injEq]
    refine ⟨?_, xorPrefix_involution a b⟩
    rw [UInt8.xor_assoc, UInt8.xor_self, UInt8.xor_zero]

/-! ### integers -/

theorem toBE_length : ∀ (w x : Nat), (toBE w x).length = w
  | 0, _ => by simp [toBE]
  | w + 1, x => by simp [toBE, toBE_length w]

theorem foldl_be (b : Bytes) : ∀ acc : Nat,
    b.foldl (fun acc d => acc * 256 + d.toNat) acc
      = acc * 256 ^ b.length + b.foldl (fun acc d => acc * 256 + d.toNat) 0 := by
  induction b with
  | nil => intro acc; simp
  | cons x xs ih =>
    intro acc
    simp only [List.foldl_cons, List.length_cons, Nat.zero_mul, Nat.zero_add]
    rw [ih (acc * 256 + x.toNat), ih x.toNat, Nat.pow_succ, Nat.add_mul]
    rw [Nat.mul_assoc, Nat.mul_comm 256 (256 ^ xs.length)]; omega

theorem fromBE_append (a b : Bytes) : fromBE (a ++ b) = fromBE a * 256 ^ b.length + fromBE b := by
  unfold fromBE
  rw [List.foldl_append, foldl_be b]

theorem fromBE_toBE : ∀ (w x : Nat), x < 256 ^ w → fromBE (toBE w x) = x
  | 0, x, h => by simp at h; subst h; simp [toBE, fromBE]
  | w + 1, x, h => by
    unfold toBE
    rw [fromBE_append]
    have hlt : x / 256 < 256 ^ w := by
      rw [Nat.pow_succ] at h
      exact Nat.div_lt_of_lt_mul (by rw [Nat.mul_comm]; exact h)
    rw [fromBE_toBE w (x / 256) hlt]
    simp only [List.length_cons, List.length_nil, Nat.zero_add, Nat.pow_one]
    have : fromBE [UInt8.ofNat (x % 256)] = x % 256 := by
      simp [fromBE, UInt8.toNat_ofNat']
    rw [this]
    exact Nat.div_add_mod' x 256

/-! ### hex -/

theorem char_le_iff (a b : Char) : a ≤ b ↔ a.toNat ≤ b.toNat := by
  rw [Char.le_def, UInt32.le_iff_toNat_le]; rfl

theorem hexVal_spec (c : Char) (v : Nat) (h : hexVal c = some v) :
    v < 16 ∧ hexDigit v = lowerHexChar c := by
  unfold hexVal at h
  simp only [char_le_iff] at h
  have e0 : '0'.toNat = 48 := rfl
  have e9 : '9'.toNat = 57 := rfl
  have ea : 'a'.toNat = 97 := rfl
  have ef : 'f'.toNat = 102 := rfl
  have eA : 'A'.toNat = 65 := rfl
  have eF : 'F'.toNat = 70 := rfl
  rw [e0, e9, ea, ef, eA, eF] at h
  unfold lowerHexChar hexDigit
  simp only [char_le_iff, eA, eF]
  split at h
  · rename_i h1
    cases h
    have : c.toNat - 48 < 10 := by omega
    have h2 : ¬ (65 ≤ c.toNat ∧ c.toNat ≤ 70) := by omega
    simp only [this, h2, ↓reduceIte]
    refine ⟨by omega, ?_⟩
    have : 48 + (c.toNat - 48) = c.toNat := by omega
    rw [this]; exact Char.ofNat_toNat c
  · split at h
    · rename_i h0 h1
      cases h
      have : ¬ (c.toNat - 87 < 10) := by omega
      have h2 : ¬ (65 ≤ c.toNat ∧ c.toNat ≤ 70) := by omega
      simp only [this, h2, ↓reduceIte]
      refine ⟨by omega, ?_⟩
      have : 87 + (c.toNat - 87) = c.toNat := by omega
      rw [this]; exact Char.ofNat_toNat c
    · split at h
      · rename_i h0 h1 h2
        cases h
        have : ¬ (c.toNat - 55 < 10) := by omega
        simp only [this, h2, ↓reduceIte, and_self]
        refine ⟨by omega, ?_⟩
        congr 1; omega
      · cases h

end SSEPy
