import SSEPyVerif.Model.Feistel
import SSEPyVerif.Props.C18
namespace SSEPy
open Bitset

/-! ### abstract Feistel network on pairs of bit strings -/

/-- a total round function -/
abbrev PureRound := Nat → Bitset → Nat → Bitset

/-- the only facts the inversion argument needs: the requested positive length is delivered, well-formed -/
def GoodRound (G : PureRound) : Prop := ∀ i s L, 0 < L → (G i s L).length = L ∧ (G i s L).WF

def liftRound (G : PureRound) : RoundFn := fun i s L => .ok (G i s L)

def encStep (G : PureRound) (p : Bitset × Bitset) (i : Nat) : Bitset × Bitset :=
  (p.2, p.1.xor (G i p.2 p.1.length))

def decStep (G : PureRound) (p : Bitset × Bitset) (i : Nat) : Bitset × Bitset :=
  (p.2.xor (G i p.1 p.2.length), p.1)

def PairOk (p : Bitset × Bitset) : Prop := p.1.WF ∧ p.2.WF ∧ 0 < p.1.length ∧ 0 < p.2.length

theorem ffxEncLoop_lift (G : PureRound) : ∀ (is : List Nat) (a b : Bitset),
    ffxEncLoop (liftRound G) is a b = .ok (is.foldl (encStep G) (a, b)) := by
  intro is
  induction is with
  | nil => intro a b; rfl
  | cons i is ih => intro a b; simp [ffxEncLoop, liftRound, bind, Except.bind, ih, encStep]

theorem ffxDecLoop_lift (G : PureRound) : ∀ (is : List Nat) (a b : Bitset),
    ffxDecLoop (liftRound G) is a b = .ok (is.foldl (decStep G) (a, b)) := by
  intro is
  induction is with
  | nil => intro a b; rfl
  | cons i is ih => intro a b; simp [ffxDecLoop, liftRound, bind, Except.bind, ih, decStep]

theorem xor_cancel (a g : Bitset) (h : g.length = a.length) : (a.xor g).xor g = a := by
  cases a with | mk av al =>
  cases g with | mk gv gl =>
  simp only at h; subst h
  simp [Bitset.xor, Nat.xor_assoc]

theorem encStep_ok (G : PureRound) (hG : GoodRound G) (p : Bitset × Bitset) (i : Nat) (hp : PairOk p) :
    PairOk (encStep G p i) ∧ (encStep G p i).1.length = p.2.length ∧ (encStep G p i).2.length = p.1.length := by
  obtain ⟨h1, h2, h3, h4⟩ := hp
  obtain ⟨gl, gw⟩ := hG i p.2 p.1.length h3
  have hx := C18.xor_spec p.1 (G i p.2 p.1.length) h1 gw
  have hlen : (p.1.xor (G i p.2 p.1.length)).length = p.1.length := by rw [hx.1, gl]; simp
  exact ⟨⟨h2, hx.2.1, h4, by show 0 < (p.1.xor (G i p.2 p.1.length)).length; rw [hlen]; exact h3⟩, rfl, hlen⟩

theorem decStep_ok (G : PureRound) (hG : GoodRound G) (p : Bitset × Bitset) (i : Nat) (hp : PairOk p) :
    PairOk (decStep G p i) ∧ (decStep G p i).1.length = p.2.length ∧ (decStep G p i).2.length = p.1.length := by
  obtain ⟨h1, h2, h3, h4⟩ := hp
  obtain ⟨gl, gw⟩ := hG i p.1 p.2.length h4
  have hx := C18.xor_spec p.2 (G i p.1 p.2.length) h2 gw
  have hlen : (p.2.xor (G i p.1 p.2.length)).length = p.2.length := by rw [hx.1, gl]; simp
  exact ⟨⟨hx.2.1, h1, by show 0 < (p.2.xor (G i p.1 p.2.length)).length; rw [hlen]; exact h4, h3⟩, hlen, rfl⟩

theorem decStep_encStep (G : PureRound) (hG : GoodRound G) (p : Bitset × Bitset) (i : Nat) (hp : PairOk p) :
    decStep G (encStep G p i) i = p := by
  obtain ⟨_, _, h3, _⟩ := hp
  obtain ⟨gl, _⟩ := hG i p.2 p.1.length h3
  have hlen : (p.1.xor (G i p.2 p.1.length)).length = p.1.length := by
    simp [Bitset.xor, gl]
  simp only [decStep, encStep, hlen]
  rw [xor_cancel _ _ gl]

theorem encStep_decStep (G : PureRound) (hG : GoodRound G) (p : Bitset × Bitset) (i : Nat) (hp : PairOk p) :
    encStep G (decStep G p i) i = p := by
  obtain ⟨_, _, _, h4⟩ := hp
  obtain ⟨gl, _⟩ := hG i p.1 p.2.length h4
  have hlen : (p.2.xor (G i p.1 p.2.length)).length = p.2.length := by
    simp [Bitset.xor, gl]
  simp only [decStep, encStep, hlen]
  rw [xor_cancel _ _ gl]

/-- lengths after `k` rounds: swapped `k` times -/
theorem encFold_ok (G : PureRound) (hG : GoodRound G) : ∀ (is : List Nat) (p : Bitset × Bitset), PairOk p →
    PairOk (is.foldl (encStep G) p) ∧
    (is.foldl (encStep G) p).1.length = (if is.length % 2 = 0 then p.1.length else p.2.length) ∧
    (is.foldl (encStep G) p).2.length = (if is.length % 2 = 0 then p.2.length else p.1.length) := by
  intro is
  induction is with
  | nil => intro p hp; simp [hp]
  | cons i is ih =>
    intro p hp
    obtain ⟨hok, hl1, hl2⟩ := encStep_ok G hG p i hp
    obtain ⟨h1, h2, h3⟩ := ih _ hok
    simp only [List.foldl_cons, List.length_cons]
    refine ⟨h1, ?_, ?_⟩
    · rw [h2, hl1, hl2]; split <;> split <;> first | rfl | omega
    · rw [h3, hl1, hl2]; split <;> split <;> first | rfl | omega

theorem decFold_ok (G : PureRound) (hG : GoodRound G) : ∀ (is : List Nat) (p : Bitset × Bitset), PairOk p →
    PairOk (is.foldl (decStep G) p) ∧
    (is.foldl (decStep G) p).1.length = (if is.length % 2 = 0 then p.1.length else p.2.length) ∧
    (is.foldl (decStep G) p).2.length = (if is.length % 2 = 0 then p.2.length else p.1.length) := by
  intro is
  induction is with
  | nil => intro p hp; simp [hp]
  | cons i is ih =>
    intro p hp
    obtain ⟨hok, hl1, hl2⟩ := decStep_ok G hG p i hp
    obtain ⟨h1, h2, h3⟩ := ih _ hok
    simp only [List.foldl_cons, List.length_cons]
    refine ⟨h1, ?_, ?_⟩
    · rw [h2, hl1, hl2]; split <;> split <;> first | rfl | omega
    · rw [h3, hl1, hl2]; split <;> split <;> first | rfl | omega

theorem decFold_encFold (G : PureRound) (hG : GoodRound G) : ∀ (is : List Nat) (p : Bitset × Bitset), PairOk p →
    is.reverse.foldl (decStep G) (is.foldl (encStep G) p) = p := by
  intro is
  induction is with
  | nil => intro p _; rfl
  | cons i is ih =>
    intro p hp
    simp only [List.foldl_cons, List.reverse_cons, List.foldl_append, List.foldl_nil]
    rw [ih _ (encStep_ok G hG p i hp).1]
    exact decStep_encStep G hG p i hp

theorem encFold_decFold' (G : PureRound) (hG : GoodRound G) : ∀ (js : List Nat) (p : Bitset × Bitset), PairOk p →
    js.reverse.foldl (encStep G) (js.foldl (decStep G) p) = p := by
  intro js
  induction js with
  | nil => intro p _; rfl
  | cons i js ih =>
    intro p hp
    simp only [List.foldl_cons, List.reverse_cons, List.foldl_append, List.foldl_nil]
    rw [ih _ (decStep_ok G hG p i hp).1]
    exact encStep_decStep G hG p i hp

theorem encFold_decFold (G : PureRound) (hG : GoodRound G) (is : List Nat) (p : Bitset × Bitset) (hp : PairOk p) :
    is.foldl (encStep G) (is.reverse.foldl (decStep G) p) = p := by
  have := encFold_decFold' G hG is.reverse p hp
  simpa using this


/-! ### split / concat glue -/

theorem concat_length (a b c : Bitset) (ha : a.WF) (hb : b.WF) (h : a.concat b = .ok c) :
    c.length = a.length + b.length ∧ c.WF := by
  obtain ⟨c', hc', hwf, hbits⟩ := C18.concat_spec a b ha hb
  rw [hc'] at h; cases h
  refine ⟨?_, hwf⟩
  rw [← toBits_length c, hbits]; simp [toBits]

theorem half_of_concat (a b : Bitset) (ha : a.WF) (hb : b.WF)
    (hlen : a.length ≤ b.length ∧ b.length ≤ a.length + 1) :
    ∃ c, a.concat b = .ok c ∧ c.WF ∧ c.length = a.length + b.length ∧ c.halfNotPadding = .ok (a, b) := by
  obtain ⟨c, hc, hh, hl⟩ := C18.higher_lower_concat a b ha hb
  obtain ⟨hclen, hcwf⟩ := concat_length a b c ha hb hc
  refine ⟨c, hc, hcwf, hclen, ?_⟩
  have e1 : (c.length + 1) / 2 = b.length := by omega
  have e2 : c.length - b.length = a.length := by omega
  simp only [halfNotPadding, e1, e2, hl, hh, bind, Except.bind]

theorem concat_of_half (v l r : Bitset) (hv : v.WF) (h : v.halfNotPadding = .ok (l, r)) :
    l.concat r = .ok v ∧ l.WF ∧ r.WF ∧ l.length = v.length / 2 ∧ r.length = (v.length + 1) / 2 := by
  obtain ⟨l', r', h', hlw, hrw, hll, hrl, hbits⟩ := C18.half_not_padding_spec v hv
  rw [h'] at h; cases h
  refine ⟨?_, hlw, hrw, hll, hrl⟩
  obtain ⟨c, hc, hcw, hcb⟩ := C18.concat_spec l r hlw hrw
  rw [hc]; congr 1
  exact eq_of_toBits_eq _ _ hcw hv (by rw [hcb, hbits])

theorem half_exists (v : Bitset) (hv : v.WF) : ∃ l r, v.halfNotPadding = .ok (l, r) := by
  obtain ⟨l, r, h, _⟩ := C18.half_not_padding_spec v hv
  exact ⟨l, r, h⟩

/-- encryption followed by decryption, for any good round function -/
theorem ffx_dec_enc_pure (G : PureRound) (hG : GoodRound G) (rounds : Nat) (v : Bitset) (hv : v.WF)
    (hn : 2 ≤ v.length) (hpar : rounds % 2 = 0 ∨ v.length % 2 = 0) :
    ∃ w, ffxEncrypt (liftRound G) rounds v = .ok w ∧ w.WF ∧ w.length = v.length ∧
      ffxDecrypt (liftRound G) rounds w = .ok v := by
  obtain ⟨l, r, hsplit⟩ := half_exists v hv
  obtain ⟨hcat, hlw, hrw, hll, hrl⟩ := concat_of_half v l r hv hsplit
  have hp : PairOk (l, r) := ⟨hlw, hrw, by simp only; omega, by simp only; omega⟩
  obtain ⟨hok', hl1, hl2⟩ := encFold_ok G hG (List.range rounds) (l, r) hp
  simp only [List.length_range] at hl1 hl2
  have hl1' : ((List.range rounds).foldl (encStep G) (l, r)).1.length
      = (if rounds % 2 = 0 then l.length else r.length) := hl1
  have hl2' : ((List.range rounds).foldl (encStep G) (l, r)).2.length
      = (if rounds % 2 = 0 then r.length else l.length) := hl2
  have hlen' : ((List.range rounds).foldl (encStep G) (l, r)).1.length = v.length / 2 ∧
      ((List.range rounds).foldl (encStep G) (l, r)).2.length = (v.length + 1) / 2 := by
    rcases hpar with h | h
    · simp only [h, ↓reduceIte] at hl1' hl2'; exact ⟨by rw [hl1', hll], by rw [hl2', hrl]⟩
    · have : v.length / 2 = (v.length + 1) / 2 := by omega
      constructor
      · rw [hl1']; split <;> omega
      · rw [hl2']; split <;> omega
  obtain ⟨w, hw, hww, hwl, hwh⟩ := half_of_concat _ _ hok'.1 hok'.2.1 (by omega)
  refine ⟨w, ?_, hww, by omega, ?_⟩
  · unfold ffxEncrypt
    simp only [hsplit, bind, Except.bind, ffxEncLoop_lift]
    exact hw
  · unfold ffxDecrypt
    simp only [hwh, bind, Except.bind, ffxDecLoop_lift]
    have := decFold_encFold G hG (List.range rounds) (l, r) hp
    rw [this]
    exact hcat

/-- decryption followed by encryption -/
theorem ffx_enc_dec_pure (G : PureRound) (hG : GoodRound G) (rounds : Nat) (v : Bitset) (hv : v.WF)
    (hn : 2 ≤ v.length) (hpar : rounds % 2 = 0 ∨ v.length % 2 = 0) :
    ∃ w, ffxDecrypt (liftRound G) rounds v = .ok w ∧ w.WF ∧ w.length = v.length ∧
      ffxEncrypt (liftRound G) rounds w = .ok v := by
  obtain ⟨l, r, hsplit⟩ := half_exists v hv
  obtain ⟨hcat, hlw, hrw, hll, hrl⟩ := concat_of_half v l r hv hsplit
  have hp : PairOk (l, r) := ⟨hlw, hrw, by simp only; omega, by simp only; omega⟩
  obtain ⟨hok', hl1, hl2⟩ := decFold_ok G hG (List.range rounds).reverse (l, r) hp
  simp only [List.length_reverse, List.length_range] at hl1 hl2
  have hl1' : ((List.range rounds).reverse.foldl (decStep G) (l, r)).1.length
      = (if rounds % 2 = 0 then l.length else r.length) := hl1
  have hl2' : ((List.range rounds).reverse.foldl (decStep G) (l, r)).2.length
      = (if rounds % 2 = 0 then r.length else l.length) := hl2
  have hlen' : ((List.range rounds).reverse.foldl (decStep G) (l, r)).1.length = v.length / 2 ∧
      ((List.range rounds).reverse.foldl (decStep G) (l, r)).2.length = (v.length + 1) / 2 := by
    rcases hpar with h | h
    · simp only [h, ↓reduceIte] at hl1' hl2'; exact ⟨by rw [hl1', hll], by rw [hl2', hrl]⟩
    · have : v.length / 2 = (v.length + 1) / 2 := by omega
      constructor
      · rw [hl1']; split <;> omega
      · rw [hl2']; split <;> omega
  obtain ⟨w, hw, hww, hwl, hwh⟩ := half_of_concat _ _ hok'.1 hok'.2.1 (by omega)
  refine ⟨w, ?_, hww, by omega, ?_⟩
  · unfold ffxDecrypt
    simp only [hsplit, bind, Except.bind, ffxDecLoop_lift]
    exact hw
  · unfold ffxEncrypt
    simp only [hwh, bind, Except.bind, ffxEncLoop_lift]
    have := encFold_decFold G hG (List.range rounds) (l, r) hp
    rw [this]
    exact hcat


/-! ### the concrete round function delivers the requested length -/

theorem fromBE_lt (b : Bytes) : fromBE b < 256 ^ b.length := by
  induction b with
  | nil => simp [fromBE]
  | cons x xs ih =>
    have e : fromBE (x :: xs) = x.toNat * 256 ^ xs.length + fromBE xs := by
      unfold fromBE
      simp only [List.foldl_cons, Nat.zero_mul, Nat.zero_add]
      exact foldl_be xs x.toNat
    rw [e, List.length_cons, Nat.pow_succ]
    have hx := x.toNat_lt
    calc x.toNat * 256 ^ xs.length + fromBE xs < x.toNat * 256 ^ xs.length + 256 ^ xs.length := by omega
      _ = (x.toNat + 1) * 256 ^ xs.length := by rw [Nat.add_mul]; omega
      _ ≤ 256 * 256 ^ xs.length := Nat.mul_le_mul_right _ (by omega)
      _ = 256 ^ xs.length * 256 := Nat.mul_comm _ _

theorem ffxRoundLoop_spec (d : Bitset) (hd : d.WF) (hd0 : 0 < d.length) (outLen : Nat) :
    ∀ (fuel : Nat) (res : Bitset), res.WF → 1 ≤ fuel → outLen + 1 ≤ fuel + res.length →
      ∃ r, ffxRoundLoop d outLen fuel res = .ok r ∧ r.WF ∧ outLen ≤ r.length := by
  intro fuel
  induction fuel with
  | zero => intro res _ h _; omega
  | succ f ih =>
    intro res hres _ h
    obtain ⟨c, hc, hcw, _⟩ := C18.concat_spec res d hres hd
    have hcl := (concat_length res d c hres hd hc).1
    unfold ffxRoundLoop
    simp only [hc, bind, Except.bind]
    by_cases hge : c.length ≥ outLen
    · simp only [hge, ↓reduceIte]; exact ⟨c, rfl, hcw, hge⟩
    · simp only [hge, ↓reduceIte]
      exact ih c hcw (by omega) (by omega)

theorem round_len (hmac : Hmac) (dB : Nat) (hlen : ∀ k m, (hmac k m).length = dB) (hdB : 0 < dB)
    (key : Bytes) (i : Nat) (s : Bitset) (L : Nat) :
    ∃ g, ffxRound hmac dB key i s L = .ok g ∧ g.WF ∧ g.length = (if L = 0 then s.length else L) := by
  unfold ffxRound
  have hv : fromBE (hmac key (ffxPre i s ++ packI 0)) < 2 ^ (dB * 8) := by
    have := fromBE_lt (hmac key (ffxPre i s ++ packI 0))
    rw [hlen] at this
    have e : (256 : Nat) = 2 ^ 8 := by decide
    rw [e, ← Nat.pow_mul, Nat.mul_comm] at this
    exact this
  simp only [bind, Except.bind, mk'_of_lt _ _ hv]
  have hdw : (⟨fromBE (hmac key (ffxPre i s ++ packI 0)), dB * 8⟩ : Bitset).WF := hv
  obtain ⟨r, hr, hrw, hrl⟩ := ffxRoundLoop_spec _ hdw (by simp only; omega)
    (if (L == 0) = true then s.length else L) ((if (L == 0) = true then s.length else L) + 1) ⟨0, 0⟩
    (by decide) (by omega) (by simp)
  simp only [hr]
  obtain ⟨c, hc, hcw, hcl, _⟩ := C18.higher_spec r hrw _ hrl
  refine ⟨c, hc, hcw, ?_⟩
  rw [hcl]
  by_cases h0 : L = 0 <;> simp [h0]

/-- the total round function extracted from the code's round -/
def concreteRound (hmac : Hmac) (dB : Nat) (key : Bytes) : PureRound := fun i s L =>
  match ffxRound hmac dB key i s L with
  | .ok g => g
  | .error _ => ⟨0, L⟩

theorem concreteRound_good (hmac : Hmac) (dB : Nat) (hlen : ∀ k m, (hmac k m).length = dB) (hdB : 0 < dB)
    (key : Bytes) : GoodRound (concreteRound hmac dB key) ∧
      ffxRound hmac dB key = liftRound (concreteRound hmac dB key) := by
  constructor
  · intro i s L hL
    obtain ⟨g, hg, hw, hl⟩ := round_len hmac dB hlen hdB key i s L
    simp only [concreteRound, hg]
    have : L ≠ 0 := by omega
    simp only [this, ↓reduceIte] at hl
    exact ⟨hl, hw⟩
  · funext i s L
    obtain ⟨g, hg, _, _⟩ := round_len hmac dB hlen hdB key i s L
    simp only [liftRound, concreteRound, hg]

/-! ### Luby–Rackoff on bytes -/

theorem lrStep_eq (prf : Bytes → Bytes → Except Err Bytes) (k : Bytes) (p s : Bytes × Bytes)
    (hp : lrStep prf k p = .ok s) :
    ∃ f, prf k p.2 = .ok f ∧ s = (p.2, xorPrefix p.1 f) := by
  unfold lrStep at hp
  cases hfp : prf k p.2 with
  | error e => simp [hfp, bind, Except.bind] at hp
  | ok fp =>
    simp only [hfp, bind, Except.bind] at hp
    unfold bytesXor at hp
    by_cases hl : fp.length > p.1.length
    · simp [hl] at hp
    · simp only [hl, ↓reduceIte, Except.ok.injEq] at hp
      exact ⟨fp, rfl, hp.symm⟩

theorem lrStep_inj (prf : Bytes → Bytes → Except Err Bytes) (k : Bytes) (p q s : Bytes × Bytes)
    (hp : lrStep prf k p = .ok s) (hq : lrStep prf k q = .ok s) : p = q := by
  obtain ⟨fp, hfp, hsp⟩ := lrStep_eq prf k p s hp
  obtain ⟨fq, hfq, hsq⟩ := lrStep_eq prf k q s hq
  have h2 : p.2 = q.2 := by rw [hsp] at hsq; exact (Prod.mk.inj hsq).1
  have hf : fp = fq := by rw [h2] at hfp; rw [hfp] at hfq; exact Except.ok.inj hfq
  subst hf
  have hx : xorPrefix p.1 fp = xorPrefix q.1 fp := by rw [hsp] at hsq; exact (Prod.mk.inj hsq).2
  have h1 : p.1 = q.1 := by
    have := congrArg (fun z => xorPrefix z fp) hx
    simpa [xorPrefix_involution] using this
  exact Prod.ext h1 h2

theorem lrStep_len (prf : Bytes → Bytes → Except Err Bytes) (k : Bytes) (p s : Bytes × Bytes)
    (hp : lrStep prf k p = .ok s) : s.1.length = p.2.length ∧ s.2.length = p.1.length := by
  obtain ⟨fp, _, hsp⟩ := lrStep_eq prf k p s hp
  rw [hsp]; exact ⟨rfl, xorPrefix_length _ _⟩


theorem lr3_eq (prf : Bytes → Bytes → Except Err Bytes) (k0 k1 k2 : Bytes) (s0 s3 : Bytes × Bytes)
    (h : lr3 prf k0 k1 k2 s0 = .ok s3) :
    ∃ s1 s2, lrStep prf k0 s0 = .ok s1 ∧ lrStep prf k1 s1 = .ok s2 ∧ lrStep prf k2 s2 = .ok s3 := by
  unfold lr3 at h
  cases h1 : lrStep prf k0 s0 with
  | error e => simp [h1, bind, Except.bind] at h
  | ok s1 =>
    simp only [h1, bind, Except.bind] at h
    cases h2 : lrStep prf k1 s1 with
    | error e => simp [h2] at h
    | ok s2 =>
      simp only [h2] at h
      exact ⟨s1, s2, rfl, h2, h⟩

theorem lr3_inj (prf : Bytes → Bytes → Except Err Bytes) (k0 k1 k2 : Bytes) (p q s : Bytes × Bytes)
    (hp : lr3 prf k0 k1 k2 p = .ok s) (hq : lr3 prf k0 k1 k2 q = .ok s) : p = q := by
  obtain ⟨p1, p2, a1, a2, a3⟩ := lr3_eq prf k0 k1 k2 p s hp
  obtain ⟨q1, q2, b1, b2, b3⟩ := lr3_eq prf k0 k1 k2 q s hq
  have e2 := lrStep_inj prf k2 p2 q2 s a3 b3
  subst e2
  have e1 := lrStep_inj prf k1 p1 q1 p2 a2 b2
  subst e1
  exact lrStep_inj prf k0 p q p1 a1 b1

theorem lr3_len (prf : Bytes → Bytes → Except Err Bytes) (k0 k1 k2 : Bytes) (p s : Bytes × Bytes)
    (hp : lr3 prf k0 k1 k2 p = .ok s) : s.1.length = p.2.length ∧ s.2.length = p.1.length := by
  obtain ⟨p1, p2, a1, a2, a3⟩ := lr3_eq prf k0 k1 k2 p s hp
  have l1 := lrStep_len prf k0 p p1 a1
  have l2 := lrStep_len prf k1 p1 p2 a2
  have l3 := lrStep_len prf k2 p2 s a3
  omega

theorem lrCore_eq (prf : Bytes → Bytes → Except Err Bytes) (key msg c : Bytes) (h : lrCore prf key msg = .ok c) :
    ∃ s3, lr3 prf (slice key (0 * (key.length / 3)) (0 * (key.length / 3) + key.length / 3))
        (slice key (1 * (key.length / 3)) (1 * (key.length / 3) + key.length / 3))
        (slice key (2 * (key.length / 3)) (2 * (key.length / 3) + key.length / 3))
        (msg.take (msg.length / 2), msg.drop (msg.length / 2)) = .ok s3 ∧ c = s3.1 ++ s3.2 := by
  unfold lrCore at h
  simp only [bind, Except.bind] at h
  split at h
  · cases h
  · rename_i s3 hs
    simp only [Except.ok.injEq] at h
    exact ⟨s3, hs, h.symm⟩

end SSEPy
