/-
  Helper lemmas for C18 (bit strings) — `Nat.testBit` extensionality.
-/
import SSEPyVerif.Model.Bits
namespace SSEPy
namespace Bitset

/-- MSB-first list of bits → Bitset (the reference model's constructor). -/
def ofBits (l : List Bool) : Bitset := ⟨l.foldl (fun acc b => 2 * acc + (if b then 1 else 0)) 0, l.length⟩

theorem toBits_length (a : Bitset) : a.toBits.length = a.length := by simp [toBits]

theorem getElem_toBits (a : Bitset) (i : Nat) (h : i < a.toBits.length) :
    a.toBits[i] = a.value.testBit (a.length - i - 1) := by
  simp [toBits, bitAt]

theorem bitLength_le_iff (v n : Nat) : bitLength v ≤ n ↔ v < 2 ^ n := by
  unfold bitLength
  split
  · subst_vars; simp; exact Nat.pow_pos (by omega)
  · rename_i h
    constructor
    · intro hle
      calc v < 2 ^ (v.log2 + 1) := Nat.lt_log2_self
        _ ≤ 2 ^ n := Nat.pow_le_pow_right (by omega) hle
    · intro hlt
      have := (Nat.log2_lt h).mpr hlt
      omega

theorem lt_two_pow_bitLength (v : Nat) : v < 2 ^ bitLength v := (bitLength_le_iff v _).mp (Nat.le_refl _)

/-- fold value of an MSB-first bit list, with accumulator -/
theorem foldl_bits (l : List Bool) : ∀ acc : Nat,
    l.foldl (fun acc b => 2 * acc + (if b then 1 else 0)) acc
      = acc * 2 ^ l.length + l.foldl (fun acc b => 2 * acc + (if b then 1 else 0)) 0 := by
  induction l with
  | nil => intro acc; simp
  | cons x xs ih =>
    intro acc
    simp only [List.foldl_cons, List.length_cons, Nat.mul_zero, Nat.zero_add]
    rw [ih (2 * acc + _), ih (if x then 1 else 0), Nat.pow_succ, Nat.add_mul]
    rw [Nat.mul_comm 2 acc, Nat.mul_assoc, Nat.mul_comm 2 (2 ^ xs.length)]; omega

theorem ofBits_value_lt (l : List Bool) : (ofBits l).value < 2 ^ l.length := by
  unfold ofBits
  simp only
  induction l with
  | nil => simp
  | cons x xs ih =>
    simp only [List.foldl_cons, List.length_cons, Nat.mul_zero, Nat.zero_add]
    rw [foldl_bits, Nat.pow_succ]
    have : (if x then 1 else 0) ≤ 1 := by split <;> omega
    calc _ ≤ 1 * 2 ^ xs.length + _ := Nat.add_le_add_right (Nat.mul_le_mul_right _ this) _
      _ < 1 * 2 ^ xs.length + 2 ^ xs.length := Nat.add_lt_add_left ih _
      _ = _ := by omega

theorem ofBits_cons_value (x : Bool) (xs : List Bool) :
    (ofBits (x :: xs)).value = 2 ^ xs.length * (if x then 1 else 0) + (ofBits xs).value := by
  unfold ofBits
  simp only [List.foldl_cons, Nat.mul_zero, Nat.zero_add]
  rw [foldl_bits, Nat.mul_comm]

theorem testBit_ofBits : ∀ (l : List Bool) (j : Nat) (h : j < l.length),
    (ofBits l).value.testBit j = l[l.length - 1 - j] := by
  intro l
  induction l with
  | nil => intro j h; simp at h
  | cons x xs ih =>
    intro j h
    rw [ofBits_cons_value, Nat.testBit_two_pow_mul_add _ (ofBits_value_lt xs)]
    simp only [List.length_cons] at h ⊢
    by_cases hj : j < xs.length
    · simp only [hj, ↓reduceIte]
      rw [ih j hj]
      have e : xs.length + 1 - 1 - j = (xs.length - 1 - j) + 1 := by omega
      simp only [e, List.getElem_cons_succ]
    · have hj' : j = xs.length := by omega
      subst hj'
      simp
      cases x <;> simp

theorem toBits_ofBits (l : List Bool) : (ofBits l).toBits = l := by
  apply List.ext_getElem
  · simp [toBits, ofBits]
  · intro i h1 h2
    rw [getElem_toBits]
    have hl : (ofBits l).length = l.length := rfl
    rw [hl, testBit_ofBits l _ (by omega)]
    congr 1; omega

theorem eq_of_toBits_eq (a b : Bitset) (ha : a.WF) (hb : b.WF) (h : a.toBits = b.toBits) : a = b := by
  have hl : a.length = b.length := by rw [← toBits_length a, ← toBits_length b, h]
  cases a with | mk av al =>
  cases b with | mk bv bl =>
  simp only at hl; subst hl
  congr 1
  apply Nat.eq_of_testBit_eq
  intro i
  by_cases hi : i < al
  · have h1 := getElem_toBits ⟨av, al⟩ (al - 1 - i) (by simp [toBits]; omega)
    have h2 := getElem_toBits ⟨bv, al⟩ (al - 1 - i) (by simp [toBits]; omega)
    simp only at h1 h2
    have e : al - (al - 1 - i) - 1 = i := by omega
    rw [e] at h1 h2
    rw [← h1, ← h2]
    simp [h]
  · have h1 : av < 2 ^ i := Nat.lt_of_lt_of_le ha (Nat.pow_le_pow_right (by omega) (by simp at hi; exact hi))
    have h2 : bv < 2 ^ i := Nat.lt_of_lt_of_le hb (Nat.pow_le_pow_right (by omega) (by simp at hi; exact hi))
    rw [Nat.testBit_lt_two_pow h1, Nat.testBit_lt_two_pow h2]

theorem ofBits_toBits (a : Bitset) (ha : a.WF) : ofBits a.toBits = a := by
  apply eq_of_toBits_eq _ _ _ ha (toBits_ofBits _)
  unfold WF
  have := ofBits_value_lt a.toBits
  simpa [ofBits, toBits] using this

theorem mk'_ok_of_lt (v len : Nat) (h : v < 2 ^ len) (hlen : len ≠ 0) : mk' v len = .ok ⟨v, len⟩ := by
  unfold mk'
  have : ¬ (bitLength v > len) := by have := (bitLength_le_iff v len).mpr h; omega
  simp [hlen, this]

/-- `Bitset(v, 0)` with `v < 2^0` is the empty bitset -/
theorem mk'_zero : mk' 0 0 = .ok ⟨0, 0⟩ := by simp [mk', autoLen, bitLength]

theorem mk'_of_lt (v len : Nat) (h : v < 2 ^ len) : mk' v len = .ok ⟨v, len⟩ := by
  by_cases hlen : len = 0
  · subst hlen; simp at h; subst h; exact mk'_zero
  · exact mk'_ok_of_lt v len h hlen

end Bitset
end SSEPy
