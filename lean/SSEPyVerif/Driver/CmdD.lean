import SSEPyVerif.Driver.Proto
import SSEPyVerif.Model.Commands
namespace SSEPy.Driver
open SSEPy.Proto SSEPy.Cmd

/-- `cmd reset | create CFGOK NAME SID | resolve NAME | world` — names and sids are opaque tokens (the harness sends the hex
    of the UTF-8 name and `s<k>` for the k-th service it saw created) -/
def cmdReq (w : World) : List String → World × String
  | ["reset"] => ({}, "ok")
  | ["create", c, name, sid] =>
    let (w', acc) := create w (c == "1") name sid
    (w', if acc then "ok accepted" else "ok refused")
  | ["resolve", name] => (w, match resolve w name with | some s => "ok " ++ s | none => "err KeyError")
  | ["world"] => (w, "ok " ++ ",".intercalate w.services ++ " | " ++ ",".intercalate (w.names.map fun p => p.1 ++ "=" ++ p.2))
  | _ => (w, bad)

end SSEPy.Driver
