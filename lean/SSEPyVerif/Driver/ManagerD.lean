import SSEPyVerif.Driver.ServerD
import SSEPyVerif.Model.Manager
namespace SSEPy.Driver
open SSEPy.Proto SSEPy.ServerIR SSEPy.Manager

structure MgrD where
  s : MState := {}
  tokens : Nat := 0

def mgrP : Program := SSEPy.Generated.serverProgram

/-- the event loop runs every enabled internal step before the next client action; a cleanup leaves its
    delay only when the harness has released a token -/
def settleOnce (d : MgrD) : MgrD × Bool :=
  let n := d.s.conns.length
  let tryActs (d : MgrD) (acts : List Act) : MgrD × Bool :=
    acts.foldl (fun (acc : MgrD × Bool) a =>
      match step mgrP acc.1.s a with
      | some s' => ({ acc.1 with s := s' }, true)
      | none => acc) (d, false)
  -- tasks already queued for the lock get it first (asyncio locks are FIFO), then the serve loops run
  let (d0, ch0) := tryActs d ((List.range n).flatMap fun j => [Act.enter j, Act.wake j])
  let (d1, ch1') := if ch0 then (d0, true) else
    tryActs d0 ((List.range n).flatMap fun j => [Act.deliver j, Act.finish j, Act.cleanupStart j])
  let ch1 := ch0 || ch1'
  -- release one held cleanup per available token
  let cleaning := (List.range n).filter fun j => (d1.s.conns[j]?.map (·.phase == Phase.cleaning)).getD false
  match cleaning, d1.tokens with
  | j :: _, t + 1 =>
    match step mgrP d1.s (.cleanupEnd j) with
    | some s' => ({ s := s', tokens := t }, true)
    | none => (d1, ch1)
  | _, _ => (d1, ch1)

def settle : Nat → MgrD → MgrD
  | 0, d => d
  | f + 1, d => let (d', ch) := settleOnce d; if ch then settle f d' else d'

def showConnOuts (c : CRec) : String :=
  let os := c.outs.reverse.filter fun o => match o with | .closed => false | .refused _ => false | _ => true
  ",".intercalate (os.map showSOut)

def parseMsgKind (kind arg : String) : Option Msg :=
  if kind == "config" then (parseOptNat arg).map .config
  else if kind == "upload" then arg.toNat?.map .upload
  else if kind == "search" then (parseOptNat arg).map .search
  else none

/-- `mgr reset` | `mgr open J` | `mgr req J KIND ARG` | `mgr close J` | `mgr cleanup` | `mgr drain` | `mgr dump` -/
def mgrReq (d : MgrD) : List String → MgrD × String
  | ["reset"] => ({}, "ok")
  | ["open", _] =>
    let s' := (step mgrP d.s .openConn).getD d.s
    (settle 200 { d with s := s' }, "ok")
  | ["req", j, kind, arg] => match j.toNat?, parseMsgKind kind arg with
    | some j, some m => (settle 200 { d with s := (step mgrP d.s (.send j m)).getD d.s }, "ok")
    | _, _ => (d, bad)
  | ["close", j] => match j.toNat? with
    | some j => (settle 200 { d with s := (step mgrP d.s (.clientClose j)).getD d.s }, "ok")
    | none => (d, bad)
  | ["cleanup"] => (settle 200 { d with tokens := d.tokens + 1 }, "ok")
  | ["drain"] => (settle 400 { d with tokens := d.tokens + 1000 }, "ok")
  | ["dump"] =>
    (d, "ok " ++ "|".intercalate ((List.range d.s.conns.length).map fun j =>
      s!"{j}" ++ ((d.s.conns[j]?.map fun c => if c.dead then "!" else "").getD "") ++ ":" ++
        (d.s.conns[j]?.map showConnOuts).getD "?") ++ " # " ++ showDisk d.s.disk)
  | ["state"] =>
    -- what the harness can see of the real manager: registered?, waiting-list length, a cleanup at its delay?
    let cl := d.s.conns.any fun c => c.phase == Phase.cleaning
    let nout := d.s.conns.map fun c => (c.outs.filter fun o => match o with | .closed => false | .refused _ => false | _ => true).length
    (d, s!"ok reg={d.s.registry.isSome} q={d.s.queue.length} cl={cl} n={nout}")
  | _ => (d, bad)

end SSEPy.Driver
