import SSEPyVerif.Driver.Tables
import SSEPyVerif.Model.PHash
import SSEPyVerif.Model.Cbc
namespace SSEPy.Driver
open SSEPy.Proto

/-- C16 requests.
    `prf call DIGEST HASHLEN OUT KEYLEN MSGLEN KEY MSG`   (table `hmac:DIGEST`)
    `hash call NAME ISXOF OUT MSG`                        (tables `hash:NAME`, `xof:NAME`) -/
def prfReq (t : Tables) : List String → String
  | ["call", dg, hl, out, kl, ml, key, msg] =>
    match parseNat hl, parseInt out, parseInt kl, parseInt ml, parseBytes key, parseBytes msg with
    | some hl, some out, some kl, some ml, some key, some msg =>
      showExcept showBytes ((HmacPRF.new out kl ml hl).call (t.get2 ("hmac:" ++ dg)) key msg)
    | _, _, _, _, _, _ => bad
  | _ => bad

def hashReq (t : Tables) : List String → String
  | ["call", name, isXof, hl, out, msg] =>
    match parseNat hl, parseInt out, parseBytes msg with
    | some hl, some out, some msg =>
      let out := hashWrapperNew out hl
      let xof : Bytes → Nat → Bytes := fun m n => t.get2 ("xof:" ++ name) m (toBE 4 n)
      showExcept showBytes (hashWrapperCall (isXof == "1") (t.get1 ("hash:" ++ name)) xof msg out)
    | _, _, _ => bad
  | _ => bad

/-- C14 requests (tables `aesenc`, `aesdec`: key2(key, block) ↦ block)
    `aes new KL CL ML` / `aes enc KL CL ML KEY IV MSG` / `aes dec KL CL ML KEY CT` -/
def aesReq (t : Tables) : List String → String
  | ["new", kl, cl, ml] => match parseInt kl, parseInt cl, parseInt ml with
    | some kl, some cl, some ml => showExcept (fun _ => "-") (AESxCBC.new kl cl ml)
    | _, _, _ => bad
  | ["enc", kl, cl, ml, key, iv, msg] =>
    match parseInt kl, parseInt cl, parseInt ml, parseBytes key, parseBytes iv, parseBytes msg with
    | some kl, some cl, some ml, some key, some iv, some msg =>
      showExcept showBytes (do let s ← AESxCBC.new kl cl ml; s.encrypt (t.get2 "aesenc") key iv msg)
    | _, _, _, _, _, _ => bad
  | ["dec", kl, cl, ml, key, ct] =>
    match parseInt kl, parseInt cl, parseInt ml, parseBytes key, parseBytes ct with
    | some kl, some cl, some ml, some key, some ct =>
      showExcept showBytes (do let s ← AESxCBC.new kl cl ml; s.decrypt (t.get2 "aesdec") key ct)
    | _, _, _, _, _ => bad
  | _ => bad

end SSEPy.Driver
