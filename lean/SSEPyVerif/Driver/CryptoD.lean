import SSEPyVerif.Driver.Tables
import SSEPyVerif.Model.PHash
import SSEPyVerif.Model.Cbc
import SSEPyVerif.Model.Feistel
import SSEPyVerif.Driver.BytesD
namespace SSEPy.Driver
open SSEPy.Proto

/-- C16 requests.
    `prf call DIGEST HASHLEN OUT KEYLEN MSGLEN KEY MSG`   (table `hmac:DIGEST`)
    `hash call NAME ISXOF OUT MSG`                        (tables `hash:NAME`, `xof:NAME`) -/
def prfReq (t : Tables) : List String → String
  | ["call", dg, hl, out, kl, ml, key, msg] =>
    match parseNat hl, parseInt out, parseInt kl, parseInt ml, parseBytes key, parseBytes msg with
    | some hl, some out, some kl, some ml, some key, some msg =>
      showExcept showBytes ((HmacPRF.new out kl ml hl).call (t.get2 ("hmac:" ++ dg)) key msg)
    | _, _, _, _, _, _ => bad
  | _ => bad

def hashReq (t : Tables) : List String → String
  | ["call", name, isXof, hl, out, msg] =>
    match parseNat hl, parseInt out, parseBytes msg with
    | some hl, some out, some msg =>
      let out := hashWrapperNew out hl
      let xof : Bytes → Nat → Bytes := fun m n => t.get2 ("xof:" ++ name) m (toBE 4 n)
      showExcept showBytes (hashWrapperCall (isXof == "1") (t.get1 ("hash:" ++ name)) xof msg out)
    | _, _, _ => bad
  | _ => bad

/-- C14 requests (tables `aesenc`, `aesdec`: key2(key, block) ↦ block)
    `aes new KL CL ML` / `aes enc KL CL ML KEY IV MSG` / `aes dec KL CL ML KEY CT` -/
def aesReq (t : Tables) : List String → String
  | ["new", kl, cl, ml] => match parseInt kl, parseInt cl, parseInt ml with
    | some kl, some cl, some ml => showExcept (fun _ => "-") (AESxCBC.new kl cl ml)
    | _, _, _ => bad
  | ["enc", kl, cl, ml, key, iv, msg] =>
    match parseInt kl, parseInt cl, parseInt ml, parseBytes key, parseBytes iv, parseBytes msg with
    | some kl, some cl, some ml, some key, some iv, some msg =>
      showExcept showBytes (do let s ← AESxCBC.new kl cl ml; s.encrypt (t.get2 "aesenc") key iv msg)
    | _, _, _, _, _, _ => bad
  | ["dec", kl, cl, ml, key, ct] =>
    match parseInt kl, parseInt cl, parseInt ml, parseBytes key, parseBytes ct with
    | some kl, some cl, some ml, some key, some ct =>
      showExcept showBytes (do let s ← AESxCBC.new kl cl ml; s.decrypt (t.get2 "aesdec") key ct)
    | _, _, _, _, _ => bad
  | _ => bad

end SSEPy.Driver

namespace SSEPy.Driver
open SSEPy.Proto

/-- C15 requests (table `hmac:sha1`):
    `ffx enc|dec ROUNDS KEY V L` ; `ffx round KEY I V L OUTLEN` ;
    `ffx prp MSGBITS KEYBITS KV KL MV ML` ;
    `lr new DIGEST HASHLEN MSGLEN KEYLEN` ; `lr call DIGEST HASHLEN MSGLEN KEYLEN KEY MSG` -/
def ffxReq (t : Tables) : List String → String
  | [op, rounds, key, v, l] =>
    match parseNat rounds, parseBytes key, parseBits v l with
    | some r, some key, some x =>
      let F := ffxRound (t.get2 "hmac:sha1") 20 key
      if op == "enc" then showExcept showBits (ffxEncrypt F r x)
      else if op == "dec" then showExcept showBits (ffxDecrypt F r x)
      else bad
    | _, _, _ => bad
  | ["round", key, i, v, l, ol] =>
    match parseBytes key, parseNat i, parseBits v l, parseNat ol with
    | some key, some i, some x, some ol => showExcept showBits (ffxRound (t.get2 "hmac:sha1") 20 key i x ol)
    | _, _, _, _ => bad
  | ["prp", mb, kb, kv, kl, mv, ml] =>
    match parseInt mb, parseInt kb, parseBits kv kl, parseBits mv ml with
    | some mb, some kb, some k, some m => showExcept showBits (bitwiseFpePrp (t.get2 "hmac:sha1") 20 mb kb k m)
    | _, _, _, _ => bad
  | _ => bad

def lrReq (t : Tables) : List String → String
  | ["new", dg, hl, ml, kl] =>
    match parseNat hl, parseInt ml, parseInt kl with
    | some hl, some ml, some kl => showExcept (fun _ => "-") (hmacLubyRackoffNew (t.get2 ("hmac:" ++ dg)) hl ml kl)
    | _, _, _ => bad
  | ["call", dg, hl, ml, kl, key, msg] =>
    match parseNat hl, parseInt ml, parseInt kl, parseBytes key, parseBytes msg with
    | some hl, some ml, some kl, some key, some msg =>
      showExcept showBytes (do let p ← hmacLubyRackoffNew (t.get2 ("hmac:" ++ dg)) hl ml kl; p.call key msg)
    | _, _, _, _, _ => bad
  | _ => bad

end SSEPy.Driver
