/-
  Recorded-oracle tables for the driver: the leaves (HMAC / hash digests, AES block function, and the
  recorded randomness) are replayed as look-up tables.  A miss yields the marker `MISS`, which the
  harness reports as a disagreement of its own kind.
-/
import Std.Data.HashMap
import SSEPyVerif.Driver.Proto
namespace SSEPy.Driver
open SSEPy.Proto

def MISS : Bytes := [0x4d, 0x49, 0x53, 0x53, 0x21, 0x21, 0x21]   -- "MISS!!!"

structure Tables where
  m : Std.HashMap String (Std.HashMap Bytes Bytes) := {}

/-- two-argument key: 4-byte big-endian length of the first argument, then both arguments -/
def key2 (a b : Bytes) : Bytes := toBE 4 a.length ++ a ++ b

def Tables.put (t : Tables) (name : String) (k v : Bytes) : Tables :=
  { m := t.m.insert name ((t.m.getD name {}).insert k v) }

def Tables.get1 (t : Tables) (name : String) : Bytes → Bytes :=
  let tbl := t.m.getD name {}
  fun k => (tbl.get? k).getD MISS

def Tables.get2 (t : Tables) (name : String) : Bytes → Bytes → Bytes :=
  let tbl := t.m.getD name {}
  fun a b => (tbl.get? (key2 a b)).getD MISS

def Tables.clear (t : Tables) (pfx : String) : Tables :=
  { m := t.m.filter fun k _ => !(k.startsWith pfx) }

/-- `tbl put NAME KEY VAL` / `tbl put2 NAME A B VAL` / `tbl clear PREFIX` -/
def tblReq (t : Tables) : List String → Tables × String
  | ["put", name, k, v] => match parseBytes k, parseBytes v with
    | some k, some v => (t.put name k v, "ok") | _, _ => (t, bad)
  | ["put2", name, a, b, v] => match parseBytes a, parseBytes b, parseBytes v with
    | some a, some b, some v => (t.put name (key2 a b) v, "ok") | _, _, _ => (t, bad)
  | ["clear", pfx] => (t.clear pfx, "ok")
  | ["clear"] => ({}, "ok")
  | _ => (t, bad)

end SSEPy.Driver
