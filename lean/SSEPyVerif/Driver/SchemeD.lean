/-
  Driver requests for the scheme layer (C01–C08).

    sch cfg SCHEME f=i:32 f=s:HmacPRF f=f:1/5 f=o ...   -> ok | err E        (build the configuration)
    sch db clear | sch db add KW ID,ID,...
    sch tape clear | sch tape add b:HEX n:12 l:1,2,3 ...
    sch keygen                                         -> ok K1 K2 ..        (consumes the tape)
    sch key K1 K2 ...
    sch setup                                          -> ok REST | err E    (REST = draws left on the tape)
    sch edb                                            -> canonical dump of the index
    sch token KW                                       -> ok T1 T2 ..
    sch search KW                                      -> ok ID,ID,.. | err E
  Leaves come from the tables `hmac:sha1`, `aesenc`, `aesdec`, `hash:sha1`.
-/
import SSEPyVerif.Driver.Tables
import SSEPyVerif.Model.Schemes.Chain
import SSEPyVerif.Model.Schemes.PiPtr
import SSEPyVerif.Model.Schemes.Levels
import SSEPyVerif.Model.Schemes.SSE2
import SSEPyVerif.Model.Schemes.SSE1
import SSEPyVerif.Model.Schemes.DP17
import SSEPyVerif.Model.Schemes.Pi2Lev
namespace SSEPy.Driver
open SSEPy.Proto SSEPy.Sch

structure Built where
  dump : String
  search : Leaves → List Bytes → Except Err (List Bytes)

structure SchemeOps where
  /-- the no-collision / freshness hypotheses of the theorems, evaluated on this run (tape as before setup) -/
  hyps : Leaves → List Bytes → DB → Tape → List Bytes → Bool := fun _ _ _ _ _ => false
  keyGen : Tape → Except Err (List Bytes × Tape)
  setup : Leaves → List Bytes → DB → Tape → Except Err (Built × Tape)
  token : Leaves → List Bytes → Bytes → Except Err (List Bytes)

def showTable (t : Table) : String :=
  showList (fun p => showBytes p.1 ++ ":" ++ showBytes p.2) t

def key1 : List Bytes → Except Err Bytes
  | [k] => .ok k
  | _ => .error .typeError

def tok2 : List Bytes → Except Err (Bytes × Bytes)
  | [a, b] => .ok (a, b)
  | _ => .error .typeError

def chainOps (cfg : ChainCfg) : SchemeOps where
  hyps lv key db t absent := match key1 key with
    | .ok K => Chain.hypsB cfg lv K db t absent
    | .error _ => false
  keyGen t := do let (k, t') ← Chain.keyGen cfg t; pure ([k], t')
  setup lv key db t := do
    let K ← key1 key
    let (D, t') ← Chain.setup cfg lv K db t
    pure ({ dump := "D " ++ showTable D, search := fun lv tk => do Chain.search cfg lv D (← tok2 tk) }, t')
  token lv key w := do
    let K ← key1 key
    let (a, b) ← Chain.token cfg lv K w
    pure [a, b]

def showCells (a : List (Option Bytes)) : String :=
  showList (fun c => match c with | some b => showBytes b | none => "N") a

def piPtrOps (cfg : PiPtrCfg) : SchemeOps where
  hyps lv key db t absent := match key1 key with
    | .ok K => PiPtr.hypsB cfg lv K db t absent
    | .error _ => false
  keyGen t := do let (k, t') ← PiPtr.keyGen cfg t; pure ([k], t')
  setup lv key db t := do
    let K ← key1 key
    let (e, t') ← PiPtr.setup cfg lv K db t
    pure ({ dump := "D " ++ showTable e.D ++ " | A " ++ showCells e.A,
            search := fun lv tk => do PiPtr.search cfg lv e (← tok2 tk) }, t')
  token lv key w := do
    let K ← key1 key
    let (a, b) ← PiPtr.token cfg lv K w
    pure [a, b]

def ct14Ops (cfg : CT14Cfg) : SchemeOps where
  hyps lv key db t absent := match key1 key with
    | .ok K => CT14.hypsB cfg lv K db t absent
    | .error _ => false
  keyGen t := do let (k, t') ← CT14.keyGen cfg t; pure ([k], t')
  setup lv key db t := do
    let K ← key1 key
    let (HT, t') ← CT14.setup cfg lv K db t
    pure ({ dump := "HT " ++ " | ".intercalate (HT.map showTable),
            search := fun lv tk => do CT14.search cfg lv HT (← tok2 tk) }, t')
  token lv key w := do
    let K ← key1 key
    let (a, b) ← CT14.token cfg lv K w
    pure [a, b]

def anssOps (cfg : ANSSCfg) : SchemeOps where
  hyps lv key db t absent := match key1 key with
    | .ok K => ANSS16.hypsB cfg lv K db t absent
    | .error _ => false
  keyGen t := do let (k, t') ← ANSS16.keyGen cfg t; pure ([k], t')
  setup lv key db t := do
    let K ← key1 key
    let (e, t') ← ANSS16.setup cfg lv K db t
    pure ({ dump := "S " ++ showTable e.HTS ++ " | L " ++ " | ".intercalate (e.HTL.map showTable),
            search := fun lv tk => match tk with
              | [a, b, c, d] => ANSS16.search cfg lv e { li := a, Ki := b, liP := c, KiP := d }
              | _ => .error .typeError }, t')
  token lv key w := do
    let K ← key1 key
    let tk ← ANSS16.token cfg lv K w
    pure [tk.li, tk.Ki, tk.liP, tk.KiP]

def sse2Ops (cfg : SSE2Cfg) : SchemeOps where
  hyps lv key db _ absent := match key with
    | [K1, _] => SSE2.hypsB cfg lv K1 db absent
    | _ => false
  keyGen t := do let (a, b, t') ← SSE2.keyGen cfg t; pure ([a, b], t')
  setup lv key db t := do
    match key with
    | [K1, _] =>
      let I ← SSE2.setup cfg lv K1 db
      pure ({ dump := "I " ++ showList (fun p => toString p.1 ++ ":" ++ showBytes p.2) I,
              search := fun _ tk => .ok (SSE2.search I (tk.map fromBE)) }, t)
    | _ => throw .typeError
  token lv key w :=
    match key with
    | [K1, _] => do pure ((← SSE2.token cfg lv K1 w).map natToBytesMin)
    | _ => throw .typeError

def sse1Ops (cfg : SSE1Cfg) : SchemeOps where
  hyps lv key db t absent := SSE1.hypsB cfg lv key db t absent
  keyGen t := SSE1.keyGen cfg t
  setup lv key db t := do
    let (e, t') ← SSE1.setup cfg lv key db t
    pure ({ dump := "A " ++ showList showBytes e.A ++ " | T " ++ showTable e.T,
            search := fun lv tk => do SSE1.search cfg lv e (← tok2 tk) }, t')
  token lv key w := do
    let (a, b) ← SSE1.token cfg lv key w
    pure [a, b]

def dp17Ops (cfg : DP17Cfg) : SchemeOps where
  hyps lv key db t absent := DP17.hypsB cfg lv key db t absent
  keyGen t := DP17.keyGen cfg t
  setup lv key db t := do
    let (e, t') ← DP17.setup cfg lv key db t
    pure ({ dump := "HT " ++ showTable e.HT ++ " | A " ++
              ";".intercalate (e.A.map fun p => toString p.1 ++ "=" ++ showList showBytes p.2),
            search := fun lv tk => DP17.search cfg lv e tk }, t')
  token lv key w := DP17.token cfg lv key w

def pi2LevOps (cfg : Pi2LevCfg) : SchemeOps where
  hyps lv key db t absent := match key1 key with
    | .ok K => Pi2Lev.hypsB cfg lv K db t absent
    | .error _ => false
  keyGen t := do let (k, t') ← Pi2Lev.keyGen cfg t; pure ([k], t')
  setup lv key db t := do
    let K ← key1 key
    let (e, t') ← Pi2Lev.setup cfg lv K db t
    pure ({ dump := "D " ++ showTable e.D ++ " | A " ++ showCells e.A,
            search := fun lv tk => do Pi2Lev.search cfg lv e (← tok2 tk) }, t')
  token lv key w := do
    let K ← key1 key
    let (a, b) ← Pi2Lev.token cfg lv K w
    pure [a, b]

def buildScheme (name : String) (raw : RawCfg) : Except Err SchemeOps :=
  match name with
  | "PiBas" => do pure (chainOps (← PiBas.cfgBuild raw))
  | "PiPack" => do pure (chainOps (← PiPack.cfgBuild raw))
  | "PiPtr" => do pure (piPtrOps (← PiPtr.cfgBuild raw))
  | "CT14" => do pure (ct14Ops (← CT14.cfgBuild raw))
  | "SSE2" => do pure (sse2Ops (← SSE2.cfgBuild raw))
  | "SSE1" => do pure (sse1Ops (← SSE1.cfgBuild raw))
  | "DP17" => do pure (dp17Ops (← DP17.cfgBuild raw))
  | "Pi2Lev" => do pure (pi2LevOps (← Pi2Lev.cfgBuild raw))
  | "ANSS16" => do pure (anssOps (← ANSS16.cfgBuild raw))
  | _ => .error .other

structure SchD where
  ops : Option SchemeOps := none
  db : DB := []
  tape : Tape := []
  key : List Bytes := []
  built : Option Built := none
  tape0 : Tape := []          -- the tape as it was when `setup` started
  hashTbl : String := "hash:sha1"

def parseRawVal (s : String) : Option RawVal :=
  match s.splitOn ":" with
  | ["i", z] => (z.toInt?).map .int
  | ["s", v] => some (.str v)
  | ["f", q] => match q.splitOn "/" with
    | [n, d] => match n.toInt?, d.toInt? with
      | some n, some d => some (.float n d) | _, _ => none
    | _ => none
  | ["o"] => some .other
  | _ => none

def parseField (s : String) : Option (String × RawVal) :=
  match s.splitOn "=" with
  | [f, v] => (parseRawVal v).map (f, ·)
  | _ => none

def parseDraw (s : String) : Option Draw :=
  match s.splitOn ":" with
  | ["b", h] => (parseBytes h).map .bytes
  | ["n", v] => (v.toNat?).map .nat
  | ["l", v] => (parseList parseNat v).map .nats
  | _ => none

def leavesOfH (hashTbl : String) (t : Tables) : Leaves :=
  { hmac := t.get2 "hmac:sha1", E := t.get2 "aesenc", D := t.get2 "aesdec", sha := t.get1 hashTbl }

def schReq (t : Tables) (s : SchD) (req : List String) : SchD × String :=
  let leavesOf := leavesOfH s.hashTbl
  match req with
  | "cfg" :: name :: fields =>
    match fields.mapM parseField with
    | none => (s, bad)
    | some raw =>
      let s := { s with hashTbl := "hash:" ++ (getName raw "hash_h").toLower }
      match buildScheme name raw with
      | .ok ops => ({ s with ops := some ops, built := none }, "ok")
      | .error e => ({ s with ops := none, built := none }, "err " ++ e.name)
  | ["db", "clear"] => ({ s with db := [] }, "ok")
  | ["db", "add", kw, ids] =>
    match parseBytes kw, parseList parseBytes ids with
    | some kw, some ids => ({ s with db := s.db ++ [(kw, ids)] }, "ok")
    | _, _ => (s, bad)
  | ["tape", "clear"] => ({ s with tape := [] }, "ok")
  | "tape" :: "add" :: ds =>
    match ds.mapM parseDraw with
    | some ds => ({ s with tape := s.tape ++ ds }, "ok")
    | none => (s, bad)
  | ["keygen"] =>
    match s.ops with
    | none => (s, "err NoScheme")
    | some ops =>
      match ops.keyGen s.tape with
      | .ok (k, t') => ({ s with key := k, tape := t' }, "ok " ++ " ".intercalate (k.map showBytes))
      | .error e => (s, "err " ++ e.name)
  | "key" :: ks =>
    match ks.mapM parseBytes with
    | some ks => ({ s with key := ks }, "ok")
    | none => (s, bad)
  | ["setup"] =>
    match s.ops with
    | none => (s, "err NoScheme")
    | some ops =>
      match ops.setup (leavesOf t) s.key s.db s.tape with
      | .ok (b, t') => ({ s with built := some b, tape := t', tape0 := s.tape }, s!"ok {t'.length}")
      | .error e => ({ s with built := none }, "err " ++ e.name)
  | "hyps" :: absent =>
    match s.ops, absent.mapM parseBytes with
    | some ops, some ws => (s, showBool (ops.hyps (leavesOf t) s.key s.db s.tape0 ws))
    | _, _ => (s, bad)
  | ["edb"] => (s, match s.built with | some b => b.dump | none => "none")
  | ["token", kw] =>
    match s.ops, parseBytes kw with
    | some ops, some kw =>
      (s, match ops.token (leavesOf t) s.key kw with
          | .ok tk => "ok " ++ " ".intercalate (tk.map showBytes)
          | .error e => "err " ++ e.name)
    | _, _ => (s, bad)
  | ["search", kw] =>
    match s.ops, s.built, parseBytes kw with
    | some ops, some b, some kw =>
      (s, match (do let tk ← ops.token (leavesOf t) s.key kw; b.search (leavesOf t) tk) with
          | .ok r => "ok " ++ showList showBytes r
          | .error e => "err " ++ e.name)
    | _, _, _ => (s, bad)
  | _ => (s, bad)

end SSEPy.Driver
