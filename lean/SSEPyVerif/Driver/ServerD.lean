import SSEPyVerif.Driver.Proto
import SSEPyVerif.Generated.ServerIR
namespace SSEPy.Driver
open SSEPy.Proto SSEPy.ServerIR

def showSOut : ServerIR.Out → String
  | .initEcho s => s!"init:{s}"
  | .ok mt => "ok:" ++ mt
  | .refused mt => "refused:" ++ mt
  | .result c e t => s!"result:{c},{e},{t}"
  | .control => "control"
  | .closed => "closed"
  | .unknownStatement s => "UNKNOWN-STATEMENT:" ++ (s.replace " " "_")

def showSOuts (l : List ServerIR.Out) : String :=
  if l.isEmpty then "-" else " ".intercalate (l.map showSOut)

def parseOptNat (s : String) : Option (Option Nat) :=
  if s == "X" then some none else (s.toNat?).map some

def parseEv : List String → Option Ev
  | ["reconnect"] => some .reconnect
  | ["reconnect_fast"] => some .reconnectFast
  | ["config", c] => (parseOptNat c).map fun c => .msg (.config c)
  | ["upload", e] => (s!"{e}".toNat?).map fun e => .msg (.upload e)
  | ["search", t] => (parseOptNat t).map fun t => .msg (.search t)
  | ["foreign"] => some (.msg .foreignSid)
  | ["notype"] => some (.msg .noType)
  | ["nosid"] => some (.msg .noSid)
  | ["unknown"] => some (.msg .unknownType)
  | _ => none

def showDisk (d : Disk) : String :=
  let f {α} (sh : α → String) : FileSt α → String
    | .absent => "absent" | .empty => "empty" | .full v => "full:" ++ sh v
  s!"dir={d.dir} config={f toString d.config} meta={f toString d.metaSt} edb={f toString d.edb}"

/-- `srv reset` | `srv ev …` | `srv disk` -/
def srvReq (st : SrvD) : List String → SrvD × String
  | ["reset"] => ({}, "ok")
  | ["disk"] => (st, "ok " ++ showDisk st.disk)
  | ["crash", k, "config", c] => match parseNat k, parseNat c with
    -- kill the server after k file-system mutations of the request, then restart: disk and the new echo
    | some k, some c =>
      let (s1, _) := if st.alive then (st, []) else reconnectSlow SSEPy.Generated.serverProgram st
      match s1.conn with
      | some conn =>
        let r := handleMsg SSEPy.Generated.serverProgram s1.disk conn (.config (some c)) (some k)
        let s2 : SrvD := { disk := r.1, conn := none, alive := false }      -- process death: no cleanup runs
        let (s3, o) := connectOn SSEPy.Generated.serverProgram s2.disk s2.disk
        (s3, "ok " ++ showDisk r.1 ++ " | " ++ showSOuts o)
      | none => (st, "err no-connection")
    | _, _ => (st, bad)
  | ["crash", k, "upload", e] => match parseNat k, parseNat e with
    | some k, some e =>
      let (s1, _) := if st.alive then (st, []) else reconnectSlow SSEPy.Generated.serverProgram st
      match s1.conn with
      | some conn =>
        let r := handleMsg SSEPy.Generated.serverProgram s1.disk conn (.upload e) (some k)
        let s2 : SrvD := { disk := r.1, conn := none, alive := false }
        let (s3, o) := connectOn SSEPy.Generated.serverProgram s2.disk s2.disk
        (s3, "ok " ++ showDisk r.1 ++ " | " ++ showSOuts o)
      | none => (st, "err no-connection")
    | _, _ => (st, bad)
  | ["fsops", h] =>
    -- the primitive mutations of one handler, as the interposer would log them
    let p := SSEPy.Generated.serverProgram
    let show1 (o : FsOp) : Option String := match o with
      | .mkdir | .mkdirExistOk => some "mkdir" | .openTrunc f => some ("open " ++ f) | .write f => some ("write " ++ f)
      | .openTmp f => some ("open " ++ f ++ ".tmp") | .writeTmp f => some ("write " ++ f ++ ".tmp")
      | .replace f => some ("replace " ++ f) | .unlink f => some ("unlink " ++ f) | .rmtree => some "rmtree"
      | .unknown s => some ("UNKNOWN:" ++ s) | _ => none
    let fsOf (e : Eff) : List FsOp := match e with
      | .mkdirSid => p.fmCreateSidFolder | .writeConfig => p.fmWriteConfig | .writeMeta => p.fmWriteMeta
      | .writeEdb => p.fmWriteEdb | _ => []
    let effs := if h == "config" then p.handleConfig else if h == "upload" then p.handleUpload else p.handleSearch
    (st, "ok " ++ ",".intercalate ((effs.flatMap fsOf).filterMap show1))
  | "ev" :: rest => match parseEv rest with
    | some ev => let (s', o) := stepEv SSEPy.Generated.serverProgram st ev; (s', "ok " ++ showSOuts o)
    | none => (st, bad)
  | _ => (st, bad)

end SSEPy.Driver
