import SSEPyVerif.Driver.Proto
import SSEPyVerif.Generated.ServerIR
namespace SSEPy.Driver
open SSEPy.Proto SSEPy.ServerIR

def showSOut : ServerIR.Out → String
  | .initEcho s => s!"init:{s}"
  | .ok mt => "ok:" ++ mt
  | .refused mt => "refused:" ++ mt
  | .result c e t => s!"result:{c},{e},{t}"
  | .control => "control"
  | .closed => "closed"
  | .unknownStatement s => "UNKNOWN-STATEMENT:" ++ (s.replace " " "_")

def showSOuts (l : List ServerIR.Out) : String :=
  if l.isEmpty then "-" else " ".intercalate (l.map showSOut)

def parseOptNat (s : String) : Option (Option Nat) :=
  if s == "X" then some none else (s.toNat?).map some

def parseEv : List String → Option Ev
  | ["reconnect"] => some .reconnect
  | ["reconnect_fast"] => some .reconnectFast
  | ["config", c] => (parseOptNat c).map fun c => .msg (.config c)
  | ["upload", e] => (s!"{e}".toNat?).map fun e => .msg (.upload e)
  | ["search", t] => (parseOptNat t).map fun t => .msg (.search t)
  | ["foreign"] => some (.msg .foreignSid)
  | ["notype"] => some (.msg .noType)
  | ["nosid"] => some (.msg .noSid)
  | ["unknown"] => some (.msg .unknownType)
  | _ => none

def showDisk (d : Disk) : String :=
  let f {α} (sh : α → String) : FileSt α → String
    | .absent => "absent" | .empty => "empty" | .full v => "full:" ++ sh v
  s!"dir={d.dir} config={f toString d.config} meta={f toString d.metaSt} edb={f toString d.edb}"

/-- `srv reset` | `srv ev …` | `srv disk` -/
def srvReq (st : SrvD) : List String → SrvD × String
  | ["reset"] => ({}, "ok")
  | ["disk"] => (st, "ok " ++ showDisk st.disk)
  | "ev" :: rest => match parseEv rest with
    | some ev => let (s', o) := stepEv SSEPy.Generated.serverProgram st ev; (s', "ok " ++ showSOuts o)
    | none => (st, bad)
  | _ => (st, bad)

end SSEPy.Driver
