/-
  Line protocol helpers for the model driver: one request per line, tokens separated by one space.
  bytes = lowercase hex ("-" for the empty string), ints = decimal, None = "N",
  lists = comma separated ("." for the empty list).
-/
import SSEPyVerif.Model.Basic
import SSEPyVerif.Model.Bytes
namespace SSEPy.Proto

def hexNib (c : Char) : Option Nat := hexVal c

def parseHexAux : List Char → List UInt8 → Option Bytes
  | [], acc => some acc.reverse
  | [_], _ => none
  | a :: b :: rest, acc =>
    match hexVal a, hexVal b with
    | some x, some y => parseHexAux rest (UInt8.ofNat (x * 16 + y) :: acc)
    | _, _ => none

def parseBytes (s : String) : Option Bytes :=
  if s == "-" then some [] else parseHexAux s.toList []

def showBytes (b : Bytes) : String :=
  if b.isEmpty then "-" else String.ofList (toHex b)

def parseInt (s : String) : Option Int := s.toInt?
def parseNat (s : String) : Option Nat := s.toNat?
def parseOptInt (s : String) : Option (Option Int) :=
  if s == "N" then some none else (s.toInt?).map some

def parseList (f : String → Option α) (s : String) : Option (List α) :=
  if s == "." then some [] else (s.splitOn ",").mapM f

def showList (f : α → String) (l : List α) : String :=
  if l.isEmpty then "." else ",".intercalate (l.map f)

def showBool (b : Bool) : String := if b then "1" else "0"

def showExcept (f : α → String) : Except Err α → String
  | .ok a => "ok " ++ f a
  | .error e => "err " ++ e.name

def bad : String := "bad-request"

end SSEPy.Proto
