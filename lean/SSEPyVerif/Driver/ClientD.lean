import SSEPyVerif.Driver.Proto
import SSEPyVerif.Generated.ClientIR
import SSEPyVerif.Model.Client
namespace SSEPy.Driver
open SSEPy.Proto SSEPy.ServerIR SSEPy.ClientIR

def showFsOp : FsOp → Option String
  | .mkdir | .mkdirExistOk => some "mkdir" | .openTrunc f => some ("open " ++ f) | .write f => some ("write " ++ f)
  | .openTmp f => some ("open " ++ f ++ ".tmp") | .writeTmp f => some ("write " ++ f ++ ".tmp")
  | .replace f => some ("replace " ++ f) | .unlink f => some ("unlink " ++ f) | .rmtree => some "rmtree"
  | .unknown s => some ("UNKNOWN:" ++ s) | _ => none

/-- `cli fsops HANDLER`: the file-system mutations of one client step as the interposer logs them
    (the upload steps = acknowledgement handler followed by `close_service`) -/
def cliReq : List String → String
  | ["fsops", h] =>
    let p := SSEPy.Generated.clientProgram
    let effs : Option (List ClientIR.Eff) :=
      if h == "create" then some p.createConfig
      else if h == "key" then some p.createKey
      else if h == "encrypt" then some p.encryptDatabase
      else if h == "upload_config" then some (p.uploadConfigEcho ++ p.closeService)
      else if h == "upload_edb" then some (p.uploadEdbEcho ++ p.closeService)
      else none
    match effs with
    | some e => "ok " ++ ",".intercalate ((fsOps p e).filterMap showFsOp)
    | none => bad
  | _ => bad

end SSEPy.Driver

namespace SSEPy.Driver
open SSEPy.Proto SSEPy.ServerIR SSEPy.ClientIR

def showBitsN (b : Bits) : String :=
  let f (x : Bool) (n : Nat) := if x then n else 0
  toString (f b.created 1 + f b.uploaded 2 + f b.key 4 + f b.encrypted 8 + f b.dbUploaded 16)

def showWorld (w : World) : String :=
  let fs {α} (sh : α → String) : FileSt α → String
    | .absent => "-" | .empty => "empty" | .full v => sh v
  s!"dir={w.cdisk.dir} bits={fs showBitsN w.cdisk.metaSt} key={fs toString w.cdisk.key} " ++
  s!"edb={fs (fun _ => "present") w.cdisk.edb} server={w.server.st}"

def showCOut : COut → String
  | .ok => "ok" | .refused => "refused"
  | .result e k => if e == k then "result:correct" else "result:WRONG"

def parseCmd : List String → Option Cmd
  | ["create", c, v] => c.toNat?.map fun c => .create c (v == "1")
  | ["key"] => some .key
  | ["encrypt"] => some .encrypt
  | ["upload_config"] => some .uploadConfig
  | ["upload_edb"] => some .uploadEdb
  | ["search"] => some .search
  | _ => none

/-- `cli reset` | `cli cmd …` (answer: outcome, then the persisted state) -/
def cliStateReq (w : World) : List String → World × String
  | ["reset"] => ({}, "ok")
  | "cmd" :: rest => match parseCmd rest with
    | some c => let (w', o) := runCmd SSEPy.Generated.clientProgram w c; (w', "ok " ++ showCOut o ++ " | " ++ showWorld w')
    | none => (w, bad)
  | _ => (w, bad)

end SSEPy.Driver
