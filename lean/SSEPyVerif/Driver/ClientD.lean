import SSEPyVerif.Driver.Proto
import SSEPyVerif.Generated.ClientIR
namespace SSEPy.Driver
open SSEPy.Proto SSEPy.ServerIR SSEPy.ClientIR

def showFsOp : FsOp → Option String
  | .mkdir | .mkdirExistOk => some "mkdir" | .openTrunc f => some ("open " ++ f) | .write f => some ("write " ++ f)
  | .openTmp f => some ("open " ++ f ++ ".tmp") | .writeTmp f => some ("write " ++ f ++ ".tmp")
  | .replace f => some ("replace " ++ f) | .unlink f => some ("unlink " ++ f) | .rmtree => some "rmtree"
  | .unknown s => some ("UNKNOWN:" ++ s) | _ => none

/-- `cli fsops HANDLER`: the file-system mutations of one client step as the interposer logs them
    (the upload steps = acknowledgement handler followed by `close_service`) -/
def cliReq : List String → String
  | ["fsops", h] =>
    let p := SSEPy.Generated.clientProgram
    let effs : Option (List ClientIR.Eff) :=
      if h == "create" then some p.createConfig
      else if h == "key" then some p.createKey
      else if h == "encrypt" then some p.encryptDatabase
      else if h == "upload_config" then some (p.uploadConfigEcho ++ p.closeService)
      else if h == "upload_edb" then some (p.uploadEdbEcho ++ p.closeService)
      else none
    match effs with
    | some e => "ok " ++ ",".intercalate ((fsOps p e).filterMap showFsOp)
    | none => bad
  | _ => bad

end SSEPy.Driver
