import SSEPyVerif.Driver.Proto
import SSEPyVerif.Model.Bits
namespace SSEPy.Driver
open SSEPy.Proto

def showBL (l : List Bytes) : String := showList showBytes l

/-- C17 requests -/
def bytesReq : List String → String
  | ["xor", a, b] => match parseBytes a, parseBytes b with
    | some a, some b => showExcept showBytes (bytesXor a b) | _, _ => bad
  | ["i2b", x, w] => match parseInt x, parseInt w with
    | some x, some w => showExcept showBytes (intToBytes x w) | _, _ => bad
  | ["b2i", b] => match parseBytes b with
    | some b => s!"ok {intFromBytes b}" | _ => bad
  | ["alz", b, n] => match parseBytes b, parseInt n with
    | some b, some n => "ok " ++ showBytes (addLeadingZeros b n) | _, _ => bad
  | ["split", b, lens] => match parseBytes b, parseList parseNat lens with
    | some b, some lens => showExcept showBL (splitBytes b lens) | _, _ => bad
  | ["chunks", l, n] => match parseList parseBytes l, parseNat n with
    | some l, some n => showExcept (showList showBL) (chunks l n) |>.replace "," ";" |> fixChunks l n
    | _, _ => bad
  | ["part", ids, cap, size, bs] => match parseList parseBytes ids, parseInt cap, parseInt size, parseInt bs with
    | some ids, some cap, some size, some bs => showExcept showBL (partitionBlocks ids cap size bs)
    | _, _, _, _ => bad
  | ["parse_size", blk, size] => match parseBytes blk, parseInt size with
    | some blk, some size => showExcept showBL (parseBySize blk size) | _, _ => bad
  | ["parse_count", blk, cnt] => match parseBytes blk, parseInt cnt with
    | some blk, some cnt => showExcept showBL (parseByCount blk cnt) | _, _ => bad
  | ["tohex", b] => match parseBytes b with
    | some b => "ok " ++ String.ofList (toHex b) | _ => bad
  | ["utf8", cps] => match parseList parseNat cps with
    | some cps => "ok " ++ showBytes (String.ofList (cps.map Char.ofNat)).toUTF8.toList | _ => bad
  | ["utf8dec", b] => match parseBytes b with
    | some b => match String.fromUTF8? (ByteArray.mk b.toArray) with
      | some s => "ok " ++ showList (fun c => toString c.toNat) s.toList
      | none => "err ValueError"
    | _ => bad
  | ["fromhex", s] => showExcept showBytes (fromHex (if s == "-" then [] else s.toList))
  | _ => bad
where
  /-- chunks output: groups separated by "|", items by "," -/
  fixChunks (l : List Bytes) (n : Nat) (_ : String) : String :=
    match chunks l n with
    | .ok gs => "ok " ++ (if gs.isEmpty then "." else "|".intercalate (gs.map showBL))
    | .error e => "err " ++ e.name

def showBits (b : Bitset) : String := s!"{b.value} {b.length}"
def showBoolList (l : List Bool) : String := if l.isEmpty then "." else String.ofList (l.map fun b => if b then '1' else '0')

def parseBits (v l : String) : Option Bitset :=
  match parseNat v, parseNat l with
  | some v, some l => some ⟨v, l⟩ | _, _ => none

/-- C18 requests -/
def bitsReq : List String → String
  | ["mk", v, l] => match parseNat v, parseNat l with
    | some v, some l => showExcept showBits (Bitset.mk' v l) | _, _ => bad
  | ["ofbytes", b, l] => match parseBytes b, parseNat l with
    | some b, some l => showExcept showBits (Bitset.ofBytes b l) | _, _ => bad
  | [op, v1, l1, v2, l2] => match parseBits v1 l1, parseBits v2 l2 with
    | some a, some b =>
      if op == "and" then "ok " ++ showBits (a.and b)
      else if op == "or" then "ok " ++ showBits (a.or b)
      else if op == "xor" then "ok " ++ showBits (a.xor b)
      else if op == "concat" then showExcept showBits (a.concat b)
      else if op == "eq" then "ok " ++ showBool (a.beq b)
      else bad
    | _, _ => bad
  | ["slice", v, l, s, e, st] => match parseBits v l, parseOptInt s, parseOptInt e, parseOptInt st with
    | some a, some s, some e, some st => showExcept showBoolList (a.getSlice s e st)
    | _, _, _, _ => bad
  | [op, v, l, k] => match parseBits v l, parseInt k with
    | some a, some k =>
      if op == "shl" then (if k < 0 then "err ValueError" else "ok " ++ showBits (a.shl k.toNat))
      else if op == "shr" then (if k < 0 then "err ValueError" else "ok " ++ showBits (a.shr k.toNat))
      else if op == "higher" then showExcept showBits (a.getHigherBits k)
      else if op == "lower" then showExcept showBits (a.getLowerBits k)
      else if op == "idx" then showExcept showBool (a.getIdx k)
      else bad
    | _, _ => bad
  | [op, v, l] => match parseBits v l with
    | some a =>
      if op == "invert" then "ok " ++ showBits a.invert
      else if op == "int" then s!"ok {a.toInt}"
      else if op == "bytes" then showExcept showBytes a.toBytes
      else if op == "str" then "ok " ++ (if a.length == 0 then "." else String.ofList a.toStr)
      else if op == "iter" then "ok " ++ showBoolList a.toBits
      else if op == "half" then showExcept (fun p => showBits p.1 ++ " " ++ showBits p.2) a.half
      else if op == "halfnp" then showExcept (fun p => showBits p.1 ++ " " ++ showBits p.2) a.halfNotPadding
      else bad
    | _ => bad
  | ["fromseq", s] => showExcept showBits (Bitset.fromSequence (if s == "." then [] else s.toList.map (· == '1')))
  | _ => bad

end SSEPy.Driver
