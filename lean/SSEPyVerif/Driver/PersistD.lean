import SSEPyVerif.Driver.Proto
import SSEPyVerif.Model.PArray
namespace SSEPy.Driver
open SSEPy.Proto SSEPy.PArray

def showOut : Out → String
  | .item b => "ok " ++ showBytes b
  | .items l => "ok " ++ showList showBytes l
  | .unit => "ok"
  | .bool b => "ok " ++ showBool b
  | .nat n => s!"ok {n}"
  | .err e => "err " ++ e.name

def parseItem (s : String) : Option Item :=
  if s == "X" then some .nonBytes else (parseBytes s).map .bytes

def parseOp : List String → Option Op
  | ["get", i] => (parseInt i).map .get
  | ["getslice", a, b, c] => do pure (.getSlice (← parseOptInt a) (← parseOptInt b) (← parseOptInt c))
  | ["set", i, v] => do pure (.set (← parseInt i) (← parseItem v))
  | ["setslice", a, b, c, vs] => do
    pure (.setSlice (← parseOptInt a) (← parseOptInt b) (← parseOptInt c) (← parseList parseItem vs))
  | ["del", i] => (parseInt i).map .del
  | ["delslice", a, b, c] => do pure (.delSlice (← parseOptInt a) (← parseOptInt b) (← parseOptInt c))
  | ["clear"] => some .clear
  | ["iter"] => some .iter
  | ["contains", v] => (parseBytes v).map .contains
  | ["len"] => some .len
  | ["close"] => some .close
  | _ => none

/-- `parr create SZ LEN PER` | `parr reopen` | `parr ls` | `parr files` | `parr op …` | `parr full` -/
def parrReq (st : Option PArr) : List String → Option PArr × String
  | ["create", sz, len, per] => match parseNat sz, parseNat len, parseNat per with
    | some sz, some len, some per => (some (create sz len per), "ok")
    | _, _, _ => (st, bad)
  | ["reopen"] => match st with
    | some s => (some (reopen s), "ok")
    | none => (st, "err FileNotFoundError")
  | ["ls"] => match st with
    | some s => (st, "ok " ++ showList toString ((List.range (fileNum s + 3)).filter fun k => (s.files k).isSome))
    | none => (st, bad)
  | ["files"] => match st with
    | some s => (st, "ok " ++ showList (fun k => s!"{k}:{showBytes (fileOf s k)}")
        ((List.range (fileNum s + 3)).filter fun k => (s.files k).isSome))
    | none => (st, bad)
  | "op" :: rest => match st, parseOp rest with
    | some s, some op => let (s', o) := step s op; (some s', showOut o)
    | _, _ => (st, bad)
  | _ => (st, bad)

end SSEPy.Driver
