import SSEPyVerif.Driver.Proto
import SSEPyVerif.Model.PArray
import SSEPyVerif.Model.PDict
namespace SSEPy.Driver
open SSEPy.Proto SSEPy.PArray

def showOut : Out → String
  | .item b => "ok " ++ showBytes b
  | .items l => "ok " ++ showList showBytes l
  | .unit => "ok"
  | .bool b => "ok " ++ showBool b
  | .nat n => s!"ok {n}"
  | .err e => "err " ++ e.name

def parseItem (s : String) : Option Item :=
  if s == "X" then some .nonBytes else (parseBytes s).map .bytes

def parseOp : List String → Option Op
  | ["get", i] => (parseInt i).map .get
  | ["getslice", a, b, c] => do pure (.getSlice (← parseOptInt a) (← parseOptInt b) (← parseOptInt c))
  | ["set", i, v] => do pure (.set (← parseInt i) (← parseItem v))
  | ["setslice", a, b, c, vs] => do
    pure (.setSlice (← parseOptInt a) (← parseOptInt b) (← parseOptInt c) (← parseList parseItem vs))
  | ["del", i] => (parseInt i).map .del
  | ["delslice", a, b, c] => do pure (.delSlice (← parseOptInt a) (← parseOptInt b) (← parseOptInt c))
  | ["clear"] => some .clear
  | ["iter"] => some .iter
  | ["contains", v] => (parseBytes v).map .contains
  | ["len"] => some .len
  | ["close"] => some .close
  | _ => none

/-- `parr create SZ LEN PER` | `parr reopen` | `parr ls` | `parr files` | `parr op …` | `parr full` -/
def parrReq (st : Option PArr) : List String → Option PArr × String
  | ["create", sz, len, per] => match parseNat sz, parseNat len, parseNat per with
    | some sz, some len, some per => (some (create sz len per), "ok")
    | _, _, _ => (st, bad)
  | ["reopen"] => match st with
    | some s => (some (reopen s), "ok")
    | none => (st, "err FileNotFoundError")
  | ["ls"] => match st with
    | some s => (st, "ok " ++ showList toString ((List.range (fileNum s + 3)).filter fun k => (s.files k).isSome))
    | none => (st, bad)
  | ["files"] => match st with
    | some s => (st, "ok " ++ showList (fun k => s!"{k}:{showBytes (fileOf s k)}")
        ((List.range (fileNum s + 3)).filter fun k => (s.files k).isSome))
    | none => (st, bad)
  | "op" :: rest => match st, parseOp rest with
    | some s, some op => let (s', o) := step s op; (some s', showOut o)
    | _, _ => (st, bad)
  | _ => (st, bad)

end SSEPy.Driver

namespace SSEPy.Driver
open SSEPy.Proto SSEPy.PDict

def showDOut : PDict.Out → String
  | .unit => "ok"
  | .val b => "ok " ++ showBytes b
  | .optVal none => "ok N"
  | .optVal (some b) => "ok " ++ showBytes b
  | .bool b => "ok " ++ showBool b
  | .nat n => s!"ok {n}"
  | .keys l => "ok " ++ showList showBytes l
  | .err e => "err " ++ e.name

def parseVal (s : String) : Option Val :=
  if s == "X" then some .nonBytes else (parseBytes s).map .bytes

def parseDOp : List String → Option PDict.Op
  | ["set", k, v] => do pure (.set (← parseBytes k) (← parseVal v))
  | ["get", k] => (parseBytes k).map .get
  | ["del", k] => (parseBytes k).map .del
  | ["contains", k] => (parseBytes k).map .contains
  | ["len"] => some .len
  | ["iter"] => some .iter
  | ["getd", k, d] => do
    let k ← parseBytes k
    if d == "N" then pure (.getd k none) else pure (.getd k (some (← parseBytes d)))
  | ["clear"] => some .clear
  | ["sync"] => some .sync
  | ["close"] => some .close
  | _ => none

def parsePairs (s : String) : Option Assoc :=
  if s == "." then some [] else
  (s.splitOn ",").mapM fun kv => match kv.splitOn ":" with
    | [k, v] => do pure ((← parseBytes k), (← parseBytes v))
    | _ => none

/-- `pdict create` | `pdict fromdict K:V,…` | `pdict reopen` | `pdict op …` | `pdict items` -/
def pdictReq (st : Option PDict.PDict) : List String → Option PDict.PDict × String
  | ["create"] => (some PDict.create, "ok")
  | ["fromdict", ps] => match parsePairs ps with
    | some a => (some (PDict.fromDict (a.foldl (fun acc p => PDict.dinsert p.1 p.2 acc) [])), "ok")
    | none => (st, bad)
  | ["reopen"] => match st with
    | some d => match PDict.reopen d with
      | .ok d' => (some d', "ok")
      | .error e => (st, "err " ++ e.name)
    | none => (st, "err FileNotFoundError")
  | ["items"] => match st with
    | some d => (st, "ok " ++ showList (fun p => showBytes p.1 ++ ":" ++ showBytes p.2) d.data)
    | none => (st, bad)
  | "op" :: rest => match st, parseDOp rest with
    | some d, some op => let (d', o) := PDict.step d op; (some d', showDOut o)
    | _, _ => (st, bad)
  | _ => (st, bad)

end SSEPy.Driver
