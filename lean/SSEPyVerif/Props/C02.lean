/-
  C02 — Searching a keyword that is not in the database returns an empty result.

  For a keyword whose first probe label `F(K1, 0)` is not a stored label (true for every keyword outside the database
  unless HMAC collides on `1‖w'` vs `1‖w` — prefixes, suffixes and near-duplicates of stored keywords are just other
  inputs of the PRF), the search completes normally with the empty result.
-/
import SSEPyVerif.Proofs.Schemes.ChainCfg
namespace SSEPy.C02
open SSEPy.Sch SSEPy.Sch.Chain

/-- PiBas and PiPack -/
theorem Chain.search_absent_empty (cfg : ChainCfg) (lv : Leaves) (K : Bytes) (db : DB) (t t' : Tape) (D : Table)
    (hs : Chain.setup cfg lv K db t = .ok (D, t')) (w : Bytes) (K1 K2 l0 : Bytes)
    (htk : Chain.token cfg lv K w = .ok (K1, K2))
    (h0 : cfg.prfF.call lv.hmac K1 (natToBytesMin 0) = .ok l0)
    (hfresh : ∀ L, encDb cfg lv K db t = .ok (L, t') → l0 ∉ L.map (·.1)) :
    Chain.search cfg lv D (K1, K2) = .ok [] := by
  obtain ⟨L, hL, rfl⟩ := setup_eq cfg lv K db t t' D hs
  exact search_absent cfg lv K1 K2 L l0 h0 (hfresh L hL)

end SSEPy.C02
