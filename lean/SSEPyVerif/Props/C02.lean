/-
  C02 — Searching a keyword that is not in the database returns an empty result.

  For a keyword whose first probe label `F(K1, 0)` is not a stored label (true for every keyword outside the database
  unless HMAC collides on `1‖w'` vs `1‖w` — prefixes, suffixes and near-duplicates of stored keywords are just other
  inputs of the PRF), the search completes normally with the empty result.
-/
import SSEPyVerif.Proofs.Schemes.ChainCfg
import SSEPyVerif.Proofs.Schemes.SSE2
import SSEPyVerif.Proofs.Schemes.PiPtr
import SSEPyVerif.Proofs.Schemes.ANSS16
import SSEPyVerif.Proofs.Schemes.CT14
import SSEPyVerif.Proofs.Schemes.SSE1
import SSEPyVerif.Proofs.Schemes.Pi2Lev
import SSEPyVerif.Proofs.Schemes.DP17
import SSEPyVerif.Proofs.Schemes.SSE2Complete
namespace SSEPy.C02
open SSEPy.Sch SSEPy.Sch.Chain

/-- PiBas and PiPack -/
theorem Chain.search_absent_empty (cfg : ChainCfg) (lv : Leaves) (K : Bytes) (db : DB) (t t' : Tape) (D : Table)
    (hs : Chain.setup cfg lv K db t = .ok (D, t')) (w : Bytes) (K1 K2 l0 : Bytes)
    (htk : Chain.token cfg lv K w = .ok (K1, K2))
    (h0 : cfg.prfF.call lv.hmac K1 (natToBytesMin 0) = .ok l0)
    (hfresh : ∀ L, encDb cfg lv K db t = .ok (L, t') → l0 ∉ L.map (·.1)) :
    Chain.search cfg lv D (K1, K2) = .ok [] := by
  obtain ⟨L, hL, rfl⟩ := setup_eq cfg lv K db t t' D hs
  exact search_absent cfg lv K1 K2 L l0 h0 (hfresh L hL)

/-- PiPtr: a keyword whose first probe label is not in the dictionary gets the empty result (no pointer is read, the array
    is not touched) -/
theorem PiPtr.search_absent_empty (cfg : PiPtrCfg) (lv : Leaves) (edb : PiPtrEDB) (K1 K2 l0 : Bytes)
    (h0 : cfg.prfF.call lv.hmac K1 (natToBytesMin 0) = .ok l0) (hmiss : edb.D.get l0 = none) :
    PiPtr.search cfg lv edb (K1, K2) = .ok [] := by
  have h0' : cfg.chain.prfF.call lv.hmac K1 (natToBytesMin 0) = .ok l0 := h0
  simp [PiPtr.search, PiPtr.ptrLoop, Chain.searchLoop, h0', hmiss, PiPtr.fetch, bind, Except.bind, pure, Except.pure]

/-- ANSS16: a keyword whose HT(S) label is not stored gets the empty result -/
theorem ANSS16.search_absent_empty (cfg : ANSSCfg) (lv : Leaves) (edb : ANSSEDB) (tk : ANSSToken)
    (hmiss : edb.HTS.get tk.liP = none) : ANSS16.search cfg lv edb tk = .ok [] := by
  simp [ANSS16.search, hmiss]

/-- CT14: a keyword none of whose level labels is stored gets the empty result -/
theorem CT14.search_absent_empty (cfg : CT14Cfg) (lv : Leaves) (HT : List Table) (K0 K1 : Bytes)
    (hfresh : ∀ j, j < HT.length → ∃ l, cfg.prfFPrime.call lv.hmac K0 (natToBytesMin j) = .ok l ∧
      (HT[j]?).bind (·.get l) = none) :
    CT14.search cfg lv HT (K0, K1) = .ok [] := by
  unfold CT14.search
  simp only
  generalize hn : HT.length = n at hfresh
  clear hn
  induction n with
  | zero => rfl
  | succ i ih =>
    obtain ⟨l, hl, hnone⟩ := hfresh i (by omega)
    simp [CT14.searchLevels, hl, hnone, ih (fun j hj => hfresh j (by omega)), bind, Except.bind, pure, Except.pure]

/-- SSE-1: a keyword whose table label is not in the look-up table gets the empty result -/
theorem SSE1.search_absent_empty (cfg : SSE1Cfg) (lv : Leaves) (edb : SSE1EDB) (gamma eta : Bytes)
    (hmiss : edb.T.get gamma = none) : SSE1.search cfg lv edb (gamma, eta) = .ok [] := by
  simp [SSE1.search, hmiss]

/-- Pi2Lev: a keyword whose dictionary label is not stored gets the empty result (this is the behaviour repaired by
    commit b9f206a: before it the search raised KeyError) -/
theorem Pi2Lev.search_absent_empty (cfg : Pi2LevCfg) (lv : Leaves) (edb : PiPtrEDB) (K1 K2 l0 : Bytes)
    (h0 : cfg.prfF.call lv.hmac K1 [0] = .ok l0) (hmiss : edb.D.get l0 = none) :
    Pi2Lev.search cfg lv edb (K1, K2) = .ok [] := by
  simp [Pi2Lev.search, h0, hmiss, bind, Except.bind, pure, Except.pure]

/-- SSE-2: a keyword whose first address `π(w ‖ 1)` is not the address of a stored posting gets the empty result -/
theorem SSE2.search_absent_empty (cfg : SSE2Cfg) (lv : Leaves) (K1 : Bytes) (db : DB) (I : ITable)
    (hs : SSE2.setup cfg lv K1 db = .ok I) (hkeys : (db.map (·.1)).Nodup) (hinj : SSE2.AddrInj cfg lv K1 db)
    (hcap : ∀ I0 cnt, SSE2.encDb cfg lv K1 db [] [] = .ok (I0, cnt) → ∀ p ∈ cnt, p.2 ≤ cfg.max)
    (w : Bytes) (hfresh : ∀ a, SSE2.addr cfg lv K1 w ((1 + 0 : Nat) : Int) = .ok a → ¬ SSE2.IsStored cfg lv K1 db a)
    (tk : List Nat) (htk : SSE2.token cfg lv K1 w = .ok tk) : SSE2.search I tk = [] := by
  unfold SSE2.setup at hs
  simp only [bind, Except.bind] at hs
  split at hs
  · cases hs
  · rename_i r hr
    obtain ⟨I0, cnt⟩ := r
    have hI : I = I0 := by
      simp only at hs
      split at hs
      · rw [SSE2.fillAll_noop cfg lv K1 cnt _ I0 (hcap I0 cnt hr)] at hs; cases hs; rfl
      · simp only [pure, Except.pure] at hs; cases hs; rfl
    subst hI
    obtain ⟨_, l2⟩ := SSE2.encDb_lookup cfg lv K1 db [] [] I cnt hr hkeys hinj
    obtain ⟨tl, tg⟩ := SSE2.tokenLoop_get cfg lv K1 w cfg.n.toNat 1 tk htk
    apply SSE2.search_prefix I [] tk (fun i hi => absurd hi (by simp))
    by_cases hn : cfg.n.toNat = 0
    · left; rw [tl, hn]; rfl
    · right
      obtain ⟨a, ha, hg⟩ := tg 0 (by omega)
      refine ⟨a, by simpa using hg, ?_⟩
      rw [l2 a (hfresh a ha)]
      rfl

/-- SSE-2, the WHOLE of C02 with no hypothesis about the run: accepted configuration, key half of `param_k` bytes, valid
    database (as in `C01.SSE2.correct`), and a keyword that is NOT in the database (no leading NUL, at most `param_l`
    bytes): `TokenGen` returns and `Search` yields the empty result on the index `EDBSetup` returned — nothing raises.
    Freshness of the first address is derived from PRP injectivity (C15), not assumed. -/
theorem SSE2.absent_correct (raw : RawCfg) (cfg : SSE2Cfg) (hcfg : SSE2.cfgBuild raw = .ok cfg) (lv : Leaves)
    (hl : LeafLaws lv) (K1 : Bytes) (hK : (K1.length : Int) = cfg.k) (db : DB) (I : ITable)
    (hs : SSE2.setup cfg lv K1 db = .ok I) (hkeys : (db.map (·.1)).Nodup) (hvalid : ∀ p ∈ db, NoLeadingNul p.1)
    (hcap : ∀ id, (db.flatMap (·.2)).count id ≤ cfg.max)
    (w : Bytes) (hw : NoLeadingNul w) (hwl : (w.length : Int) ≤ cfg.l) (habs : w ∉ db.map (·.1)) :
    ∃ tk, SSE2.token cfg lv K1 w = .ok tk ∧ SSE2.search I tk = [] := by
  obtain ⟨hu, hn, _⟩ := SSE2.cfgBuild_usable raw cfg hcfg
  have hl8 : 0 < (cfg.l * 8).toNat := by have := hu.lpos; omega
  have hcap' : ∀ I0 cnt, SSE2.encDb cfg lv K1 db [] [] = .ok (I0, cnt) → ∀ p ∈ cnt, p.2 ≤ cfg.max := fun I0 cnt h p hp => by
    have := SSE2.encDb_cnt cfg lv K1 db [] [] [] I0 cnt h (fun q hq => by cases hq) p hp
    simp only [List.nil_append] at this
    exact Nat.le_trans this (hcap p.1)
  have addrOf_ok : ∀ w j a, SSE2.addrOf cfg lv K1 w j = some a → SSE2.addr cfg lv K1 w (j : Int) = .ok a := by
    intro w j a h
    unfold SSE2.addrOf at h
    split at h
    · rename_i a' ha; cases h; exact ha
    · cases h
  have inj := SSE2.addr_inj cfg lv hl.hmac_len hl8 hu.bits K1
  obtain ⟨tk, htk, _⟩ := SSE2.token_ok cfg lv hl.hmac_len hu K1 w hK hwl hn
  refine ⟨tk, htk, SSE2.search_absent_empty cfg lv K1 db I hs hkeys ?_ hcap' w ?_ tk htk⟩
  · intro w ids i w' ids' i' a h1 h2 hi hi' he he'
    have := inj w w' (1 + i) (1 + i') a (hvalid _ h1) (hvalid _ h2) (addrOf_ok _ _ _ he) (addrOf_ok _ _ _ he')
    exact ⟨this.1, by omega⟩
  · intro a ha ⟨w', ids', i, hm, _, he⟩
    have := (inj w w' (1 + 0) (1 + i) a hw (hvalid _ hm) ha (addrOf_ok _ _ _ he)).1
    subst this
    exact habs (List.mem_map.mpr ⟨(w, ids'), hm, rfl⟩)

/-- DP17: a keyword none of whose `L` probe keys `H(F_k1(w) ‖ c)` is in the hash table gets the empty result: no bucket is
    read, nothing is decrypted, nothing raises -/
theorem DP17.search_absent_empty (cfg : DP17Cfg) (lv : Leaves) (edb : DP17EDB) (tag vtag etag : Bytes)
    (hmiss : ∀ c, 1 ≤ c → c < 1 + cfg.L.toNat →
      ∃ key, DP17.hashH cfg lv (tag ++ natToBytesMin c) = .ok key ∧ edb.HT.get key = none) :
    DP17.search cfg lv edb [tag, vtag, etag] = .ok [] :=
  DP17.searchCounts_absent cfg lv edb tag vtag etag cfg.L.toNat 1 hmiss

end SSEPy.C02
