/-
  C07 — Setup and search leave their inputs intact; searches repeat in any order.

  In the models `Search` is a function of (index, token) that returns a result and nothing else: the index object the
  code holds after a search is the one it held before.  `history_independent` is the consequence the property names —
  any sequence of searches against one index, in any order and with any repetition, returns for each token what that
  token returns when it is the only search — stated for a state-passing `step` so that it applies verbatim to each of the
  nine scheme models (instances below).  The theorem is honest but easy: purity is true by construction in a functional
  model.  That the CODE is pure is what the correspondence (same model, recorded runs) and the before/after comparison
  on the real objects establish on every run.
-/
import SSEPyVerif.Model.Schemes.Wire
import SSEPyVerif.Model.Schemes.SSE2
import SSEPyVerif.Generated.MutationSites
namespace SSEPy.C07
open SSEPy.Sch

/-- run a history of requests, threading the state -/
def history (step : σ → τ → σ × ρ) : σ → List τ → σ × List ρ
  | s, [] => (s, [])
  | s, x :: xs => let r := step s x; let rest := history step r.1 xs; (rest.1, r.2 :: rest.2)

/-- if no request changes the state, a history answers every request as if it were the only one, and leaves the state
    unchanged -/
theorem history_independent (step : σ → τ → σ × ρ) (pure : ∀ s x, (step s x).1 = s) (s : σ) (xs : List τ) :
    history step s xs = (s, xs.map fun x => (step s x).2) := by
  induction xs with
  | nil => rfl
  | cons x xs ih => simp [history, pure, ih]

/-- order and repetition are immaterial: the answer to `x` is the same at every position of every history -/
theorem answer_at_any_position (step : σ → τ → σ × ρ) (pure : ∀ s x, (step s x).1 = s) (s : σ) (xs : List τ) (i : Nat)
    (h : i < xs.length) :
    (history step s xs).2[i]? = some (step s xs[i]).2 := by
  rw [history_independent step pure s xs]
  simp [h]

/-! the nine schemes: the index a search leaves behind is the index it was given -/

def PiBasPiPack.step (cfg : ChainCfg) (lv : Leaves) (D : Table) (tk : Bytes × Bytes) := (D, Chain.search cfg lv D tk)
def PiPtr.step (cfg : PiPtrCfg) (lv : Leaves) (e : PiPtrEDB) (tk : Bytes × Bytes) := (e, PiPtr.search cfg lv e tk)
def Pi2Lev.step (cfg : Pi2LevCfg) (lv : Leaves) (e : PiPtrEDB) (tk : Bytes × Bytes) := (e, Pi2Lev.search cfg lv e tk)
def CT14.step (cfg : CT14Cfg) (lv : Leaves) (HT : List Table) (tk : Bytes × Bytes) := (HT, CT14.search cfg lv HT tk)
def ANSS16.step (cfg : ANSSCfg) (lv : Leaves) (e : ANSSEDB) (tk : ANSSToken) := (e, ANSS16.search cfg lv e tk)
def SSE1.step (cfg : SSE1Cfg) (lv : Leaves) (e : SSE1EDB) (tk : Bytes × Bytes) := (e, SSE1.search cfg lv e tk)
def SSE2.step (I : ITable) (tk : List Nat) := (I, SSE2.search I tk)
def DP17.step (cfg : DP17Cfg) (lv : Leaves) (e : DP17EDB) (tk : List Bytes) := (e, DP17.search cfg lv e tk)

theorem all_schemes_history_independent :
    (∀ cfg lv D tks, history (PiBasPiPack.step cfg lv) D tks = (D, tks.map fun tk => Chain.search cfg lv D tk)) ∧
    (∀ cfg lv e tks, history (PiPtr.step cfg lv) e tks = (e, tks.map fun tk => PiPtr.search cfg lv e tk)) ∧
    (∀ cfg lv e tks, history (Pi2Lev.step cfg lv) e tks = (e, tks.map fun tk => Pi2Lev.search cfg lv e tk)) ∧
    (∀ cfg lv e tks, history (CT14.step cfg lv) e tks = (e, tks.map fun tk => CT14.search cfg lv e tk)) ∧
    (∀ cfg lv e tks, history (ANSS16.step cfg lv) e tks = (e, tks.map fun tk => ANSS16.search cfg lv e tk)) ∧
    (∀ cfg lv e tks, history (SSE1.step cfg lv) e tks = (e, tks.map fun tk => SSE1.search cfg lv e tk)) ∧
    (∀ I tks, history SSE2.step I tks = (I, tks.map fun tk => SSE2.search I tk)) ∧
    (∀ cfg lv e tks, history (DP17.step cfg lv) e tks = (e, tks.map fun tk => DP17.search cfg lv e tk)) :=
  ⟨fun _ _ D tks => history_independent _ (fun _ _ => rfl) D tks,
   fun _ _ e tks => history_independent _ (fun _ _ => rfl) e tks,
   fun _ _ e tks => history_independent _ (fun _ _ => rfl) e tks,
   fun _ _ e tks => history_independent _ (fun _ _ => rfl) e tks,
   fun _ _ e tks => history_independent _ (fun _ _ => rfl) e tks,
   fun _ _ e tks => history_independent _ (fun _ _ => rfl) e tks,
   fun I tks => history_independent _ (fun _ _ => rfl) I tks,
   fun _ _ e tks => history_independent _ (fun _ _ => rfl) e tks⟩

/-! ### the CODE changes only objects it created itself (table regenerated from the source on every run)

  `Generated/MutationSites.lean` lists every mutating statement of the scheme layer — subscript / attribute stores,
  augmented stores, `del`, calls of mutating methods, `random.shuffle`, calls of repository functions that change the
  parameter they are given — in `schemes/*/*/{construction,structures,config}.py`, `schemes/interface/*.py` and (for shared
  state and in-place helpers) `toolkit/`, each with the provenance of the object it changes as computed by the alias
  analysis of `harness/translate/mutation_sites.py`.  The theorem says that every one of them changes an object created
  inside the call (`fresh`) or initialises the object under construction (`init`), with two families of exceptions spelled
  out in `benign`.  A dropped deep copy (CT14 / ANSS16 pad a COPY of the database), a helper that starts working in place,
  a per-object or per-module cache, a mutable default argument — each turns a row into `param`, `self`, `global` or
  `default` and the theorem stops checking. -/

open SSEPy.Generated in
/-- state that outlives a call on the current tree, each kind benign for the stated reason -/
def benign (s : MutSite) : Bool :=
  -- the four primitive factories memoise the CLASS registered under a primitive's name (idempotent; no key, keyword or
  -- identifier is stored; what the factories return is checked by C14 / C16)
  (s.kind == .global && s.root == "cache" &&
    (s.func == "get_hash_implementation" || s.func == "get_prf_implementation" || s.func == "get_prp_implementation" ||
     s.func == "get_symmetric_encryption_implementation")) ||
  -- the module loader imports a scheme's three modules lazily and keeps the module objects
  (s.kind == .self && s.file == "schemes/interface/module_loader.py" &&
    (s.func == "SSEModuleClassLoader._load_construction_module" || s.func == "SSEModuleClassLoader._load_structure_module" ||
     s.func == "SSEModuleClassLoader._load_config_module"))

open SSEPy.Generated in
def siteOk (s : MutSite) : Bool := s.kind == .fresh || s.kind == .init || benign s

open SSEPy.Generated in
theorem scheme_layer_mutates_only_its_own_objects :
    ∀ s ∈ mutationSites, s.kind = .fresh ∨ s.kind = .init ∨ benign s = true := by
  have h : mutationSites.all siteOk = true := by decide +kernel
  intro s hs
  have := List.all_eq_true.mp h s hs
  simp only [siteOk, Bool.or_eq_true, beq_iff_eq] at this
  rcases this with (h1 | h1) | h1
  · exact Or.inl h1
  · exact Or.inr (Or.inl h1)
  · exact Or.inr (Or.inr h1)

open SSEPy.Generated in
/-- non-vacuity: the table is not empty and does contain stores into containers (the padded copy of CT14 / ANSS16 among them) -/
example : 100 < mutationSites.length ∧ (mutationSites.any fun s => s.root == "padded_database" && s.kind == .fresh) = true := by
  decide +kernel

/-- non-vacuity: a concrete history with a repetition -/
example : history (fun (s : Nat) (x : Nat) => (s, s + x)) 10 [1, 2, 1] = (10, [11, 12, 11]) := by decide

end SSEPy.C07
