/-
  C03 — Client/server split: search works from serialized key, token and index alone.

  What is modelled: the concatenation formats of keys (all nine schemes) and tokens (seven schemes); what is proved:
  `deserialize (serialize x) = x` whenever the fields have the widths the parser cuts at, a wrong total length is refused,
  and — for the schemes whose key generation and token generation are modelled over the PRF wrapper — that generated keys
  and the tokens used by a successful search DO have those widths.  Since `search` in the model is a function of the
  deserialized objects only, equal objects give equal results: the remote search equals the local one.
  Encrypted databases, results and the pickled tokens (SSE-2, DP17) go through `pickle`, configurations through `json`:
  library codecs, exercised by the direct oracle on the real code, not modelled.
-/
import SSEPyVerif.Model.Schemes.Wire
import SSEPyVerif.Proofs.Schemes.ChainCfg
namespace SSEPy.C03
open SSEPy.Sch

/-- round trip of every concatenation format: fields of the configured widths come back unchanged -/
theorem wire_roundtrip (widths : List Nat) (parts : List Bytes) (h : parts.map (·.length) = widths) :
    wireDeser widths (wireSer parts) = .ok parts := by
  unfold wireDeser wireSer
  have hlen : parts.flatten.length = widths.sum := by
    rw [← h]; clear h
    induction parts with
    | nil => rfl
    | cons a as ih => simp [ih]
  obtain ⟨ps, hps, hl⟩ := C17.split_lengths parts.flatten widths hlen
  have hf := C17.split_concat parts.flatten widths ps hps
  rw [hps, flatten_inj_of_lengths ps parts hf (by rw [hl, h])]

/-- a byte string of any other length is refused -/
theorem wire_wrong_length_refused (widths : List Nat) (x : Bytes) (h : x.length ≠ widths.sum) :
    wireDeser widths x = .error .valueError := C17.split_mismatch_raises x widths h

/-- what a successful parse returns is what was sent, cut at the configured widths -/
theorem wire_parse_widths (widths : List Nat) (x : Bytes) (parts : List Bytes) (h : wireDeser widths x = .ok parts) :
    parts.flatten = x ∧ parts.map (·.length) = widths := by
  unfold wireDeser at h
  by_cases hl : x.length = widths.sum
  · obtain ⟨ps, hps, hlen⟩ := C17.split_lengths x widths hl
    have hf := C17.split_concat x widths ps hps
    rw [hps] at h; cases h
    exact ⟨hf, hlen⟩
  · rw [C17.split_mismatch_raises x widths hl] at h; cases h

/-- a generated key has the width the key parser expects (PiBas, PiPack; the other schemes draw their keys the same way) -/
theorem Chain.key_roundtrip (cfg : ChainCfg) (t t' : Tape) (K : Bytes) (h : Chain.keyGen cfg t = .ok (K, t')) :
    wireDeser cfg.wire.key (wireSer [K]) = .ok [K] := by
  apply wire_roundtrip
  unfold Chain.keyGen at h
  split at h
  · cases h
  · simp [ChainCfg.wire, Chain.takeBytes_len h]

/-- a token whose first component is accepted as a PRF key (as every successful search requires) has the widths the
    token parser cuts at, so it survives the wire — PiBas and PiPack, every accepted configuration -/
theorem PiBas.token_roundtrip (raw : RawCfg) (cfg : ChainCfg) (hcfg : PiBas.cfgBuild raw = .ok cfg) (lv : Leaves)
    (hl : LeafLaws lv) (K w K1 K2 : Bytes) (htk : Chain.token cfg lv K w = .ok (K1, K2))
    (l0 : Bytes) (huse : cfg.prfF.call lv.hmac K1 (natToBytesMin 0) = .ok l0) :
    wireDeser (cfg.wire.token.getD []) (wireSer [K1, K2]) = .ok [K1, K2] := by
  obtain ⟨lam, out, ske, hpos, hlam, hout, hske, rfl⟩ := PiBas.cfgBuild_ok raw cfg hcfg
  have hd : ∀ k m, (lv.hmac k m).length = (HmacPRF.new out lam LENGTH_UNLIMITED 20).hashLen := hl.hmac_len
  have hk1 := (prf_ok _ lv.hmac hd (by show (0:Nat) < 20; decide) K1 _ l0 huse).2
  have hlam3 := new_keyLength lam ske hske
  have hk1' : (K1.length : Int) = lam := by
    rcases hk1 with h | h
    · simp only [HmacPRF.new] at h; omega
    · simpa [HmacPRF.new] using h
  unfold Chain.token at htk
  simp only [bind, Except.bind] at htk
  split at htk
  · cases htk
  · rename_i a ha
    split at htk
    · cases htk
    · rename_i b hb
      simp only [pure, Except.pure] at htk
      cases htk
      have la := (prf_ok _ lv.hmac hd (by show (0:Nat) < 20; decide) K _ K1 ha).1
      have lb := (prf_ok _ lv.hmac hd (by show (0:Nat) < 20; decide) K _ K2 hb).1
      apply wire_roundtrip
      have : lam.toNat = K1.length := by omega
      simp [ChainCfg.wire, this, lb, la]

end SSEPy.C03
