/-
  C03 — Client/server split: search works from serialized key, token and index alone.

  What is modelled: the concatenation formats of keys (all nine schemes) and tokens (seven schemes); what is proved:
  `deserialize (serialize x) = x` whenever the fields have the widths the parser cuts at, a wrong total length is refused,
  and — for the schemes whose key generation and token generation are modelled over the PRF wrapper — that generated keys
  and the tokens used by a successful search DO have those widths.  Since `search` in the model is a function of the
  deserialized objects only, equal objects give equal results: the remote search equals the local one.
  Encrypted databases, results and the pickled tokens (SSE-2, DP17) go through `pickle`, configurations through `json`:
  library codecs, exercised by the direct oracle on the real code, not modelled.
-/
import SSEPyVerif.Model.Schemes.Wire
import SSEPyVerif.Generated.WireLayout
import SSEPyVerif.Proofs.Schemes.ChainCfg
import SSEPyVerif.Proofs.Schemes.ANSS16Shape
import SSEPyVerif.Proofs.Schemes.SSE1Complete
namespace SSEPy.C03
open SSEPy.Sch

/-- round trip of every concatenation format: fields of the configured widths come back unchanged -/
theorem wire_roundtrip (widths : List Nat) (parts : List Bytes) (h : parts.map (·.length) = widths) :
    wireDeser widths (wireSer parts) = .ok parts := by
  unfold wireDeser wireSer
  have hlen : parts.flatten.length = widths.sum := by
    rw [← h]; clear h
    induction parts with
    | nil => rfl
    | cons a as ih => simp [ih]
  obtain ⟨ps, hps, hl⟩ := C17.split_lengths parts.flatten widths hlen
  have hf := C17.split_concat parts.flatten widths ps hps
  rw [hps, flatten_inj_of_lengths ps parts hf (by rw [hl, h])]

/-- a byte string of any other length is refused -/
theorem wire_wrong_length_refused (widths : List Nat) (x : Bytes) (h : x.length ≠ widths.sum) :
    wireDeser widths x = .error .valueError := C17.split_mismatch_raises x widths h

/-- what a successful parse returns is what was sent, cut at the configured widths -/
theorem wire_parse_widths (widths : List Nat) (x : Bytes) (parts : List Bytes) (h : wireDeser widths x = .ok parts) :
    parts.flatten = x ∧ parts.map (·.length) = widths := by
  unfold wireDeser at h
  by_cases hl : x.length = widths.sum
  · obtain ⟨ps, hps, hlen⟩ := C17.split_lengths x widths hl
    have hf := C17.split_concat x widths ps hps
    rw [hps] at h; cases h
    exact ⟨hf, hlen⟩
  · rw [C17.split_mismatch_raises x widths hl] at h; cases h

/-- a generated key has the width the key parser expects (PiBas, PiPack; the other schemes draw their keys the same way) -/
theorem Chain.key_roundtrip (cfg : ChainCfg) (t t' : Tape) (K : Bytes) (h : Chain.keyGen cfg t = .ok (K, t')) :
    wireDeser cfg.wire.key (wireSer [K]) = .ok [K] := by
  apply wire_roundtrip
  unfold Chain.keyGen at h
  split at h
  · cases h
  · simp [ChainCfg.wire, Chain.takeBytes_len h]

/-- a token whose first component is accepted as a PRF key (as every successful search requires) has the widths the
    token parser cuts at, so it survives the wire — PiBas and PiPack, every accepted configuration -/
theorem PiBas.token_roundtrip (raw : RawCfg) (cfg : ChainCfg) (hcfg : PiBas.cfgBuild raw = .ok cfg) (lv : Leaves)
    (hl : LeafLaws lv) (K w K1 K2 : Bytes) (htk : Chain.token cfg lv K w = .ok (K1, K2))
    (l0 : Bytes) (huse : cfg.prfF.call lv.hmac K1 (natToBytesMin 0) = .ok l0) :
    wireDeser (cfg.wire.token.getD []) (wireSer [K1, K2]) = .ok [K1, K2] := by
  obtain ⟨lam, out, ske, hpos, hlam, hout, hske, rfl⟩ := PiBas.cfgBuild_ok raw cfg hcfg
  have hd : ∀ k m, (lv.hmac k m).length = (HmacPRF.new out lam LENGTH_UNLIMITED 20).hashLen := hl.hmac_len
  have hk1 := (prf_ok _ lv.hmac hd (by show (0:Nat) < 20; decide) K1 _ l0 huse).2
  have hlam3 := new_keyLength lam ske hske
  have hk1' : (K1.length : Int) = lam := by
    rcases hk1 with h | h
    · simp only [HmacPRF.new] at h; omega
    · simpa [HmacPRF.new] using h
  unfold Chain.token at htk
  simp only [bind, Except.bind] at htk
  split at htk
  · cases htk
  · rename_i a ha
    split at htk
    · cases htk
    · rename_i b hb
      simp only [pure, Except.pure] at htk
      cases htk
      have la := (prf_ok _ lv.hmac hd (by show (0:Nat) < 20; decide) K _ K1 ha).1
      have lb := (prf_ok _ lv.hmac hd (by show (0:Nat) < 20; decide) K _ K2 hb).1
      apply wire_roundtrip
      have : lam.toNat = K1.length := by omega
      simp [ChainCfg.wire, this, lb, la]

/-! ### generated keys and tokens of the other schemes have the widths their parsers cut at -/

theorem takeBytesN_lens (n k : Nat) (t t' : Tape) (bs : List Bytes) (h : takeBytesN n k t = .ok (bs, t')) :
    bs.map (·.length) = List.replicate k n := by
  obtain ⟨h1, h2⟩ := ANSS16.takeBytesN_spec n k t t' bs h
  apply List.eq_replicate_iff.mpr
  refine ⟨by simp [h1], ?_⟩
  intro x hx
  simp only [List.mem_map] at hx
  obtain ⟨b, hb, rfl⟩ := hx
  exact h2 b hb

/-- ANSS16: a generated key has `param_lambda` bytes and is what the key parser accepts (the parser compared with
    `param_k` before commit 0c28862) -/
theorem ANSS16.key_roundtrip (cfg : ANSSCfg) (t t' : Tape) (K : Bytes) (h : ANSS16.keyGen cfg t = .ok (K, t')) :
    wireDeser cfg.wire.key (wireSer [K]) = .ok [K] := by
  apply wire_roundtrip
  unfold ANSS16.keyGen at h
  split at h
  · cases h
  · simp [ANSSCfg.wire, Chain.takeBytes_len h]

/-- ANSS16: every token `_Trap` produces has the four widths `[l, k, l', k']` of the token parser -/
theorem ANSS16.token_roundtrip (cfg : ANSSCfg) (lv : Leaves) (K w : Bytes) (tk : ANSSToken)
    (h : ANSS16.token cfg lv K w = .ok tk) :
    wireDeser (cfg.wire.token.getD []) (wireSer [tk.li, tk.Ki, tk.liP, tk.KiP]) = .ok [tk.li, tk.Ki, tk.liP, tk.KiP] := by
  apply wire_roundtrip
  simp only [ANSS16.token, bind, Except.bind] at h
  split at h
  · cases h
  · rename_i x hx
    split at h
    · cases h
    · rename_i pieces hp
      split at h
      · rename_i a b c d
        simp only [pure, Except.pure] at h
        cases h
        obtain ⟨h1, h2, h3, h4⟩ := ANSS16.split4_lengths x _ _ _ _ a b c d hp
        simp [ANSSCfg.wire, h1, h2, h3, h4]
      · simp [throw, throwThe, MonadExceptOf.throw] at h

theorem CT14.key_roundtrip (cfg : CT14Cfg) (t t' : Tape) (K : Bytes) (h : CT14.keyGen cfg t = .ok (K, t')) :
    wireDeser cfg.wire.key (wireSer [K]) = .ok [K] := by
  apply wire_roundtrip
  unfold CT14.keyGen at h
  split at h
  · cases h
  · simp [CT14Cfg.wire, Chain.takeBytes_len h]

/-- CT14: a token is `F(K, w)` cut at `param_k`; with a PRF output of `k + k'` bytes (what an accepted configuration
    declares) the two parts have the parser's widths -/
theorem CT14.token_roundtrip (cfg : CT14Cfg) (lv : Leaves) (hl : LeafLaws lv) (hk : 0 ≤ cfg.k) (hk' : 0 ≤ cfg.kPrime)
    (hout : cfg.prfF.outputLength = cfg.k + cfg.kPrime) (hh : cfg.prfF.hashLen = 20) (K w K0 K1 : Bytes)
    (h : CT14.token cfg lv K w = .ok (K0, K1)) :
    wireDeser (cfg.wire.token.getD []) (wireSer [K0, K1]) = .ok [K0, K1] := by
  apply wire_roundtrip
  simp only [CT14.token, bind, Except.bind] at h
  split at h
  · cases h
  · rename_i x hx
    simp only [pure, Except.pure] at h
    cases h
    have hxl := (prf_ok cfg.prfF lv.hmac (by rw [hh]; exact hl.hmac_len) (by rw [hh]; decide) K w x hx).1
    rw [hout] at hxl
    simp only [CT14Cfg.wire, Option.getD_some, List.map_cons, List.map_nil, List.length_take, List.length_drop, hxl]
    have : (cfg.k + cfg.kPrime).toNat = cfg.k.toNat + cfg.kPrime.toNat := by omega
    rw [this]
    simp

theorem PiPtr.key_roundtrip (cfg : PiPtrCfg) (t t' : Tape) (K : Bytes) (h : PiPtr.keyGen cfg t = .ok (K, t')) :
    wireDeser cfg.wire.key (wireSer [K]) = .ok [K] := by
  apply wire_roundtrip
  unfold PiPtr.keyGen at h
  split at h
  · cases h
  · simp [PiPtrCfg.wire, Chain.takeBytes_len h]

theorem Pi2Lev.key_roundtrip (cfg : Pi2LevCfg) (t t' : Tape) (K : Bytes) (h : Pi2Lev.keyGen cfg t = .ok (K, t')) :
    wireDeser cfg.wire.key (wireSer [K]) = .ok [K] := by
  apply wire_roundtrip
  unfold Pi2Lev.keyGen at h
  split at h
  · cases h
  · simp [Pi2LevCfg.wire, Chain.takeBytes_len h]

/-- SSE-1: the four generated keys have `param_k` bytes each -/
theorem SSE1.key_roundtrip (cfg : SSE1Cfg) (t t' : Tape) (Ks : List Bytes) (h : SSE1.keyGen cfg t = .ok (Ks, t')) :
    wireDeser cfg.wire.key (wireSer Ks) = .ok Ks := by
  apply wire_roundtrip
  unfold SSE1.keyGen at h
  split at h
  · cases h
  · exact takeBytesN_lens _ _ _ _ _ h

/-- DP17: the three generated keys have `param_lambda` bytes each -/
theorem DP17.key_roundtrip (cfg : DP17Cfg) (t t' : Tape) (Ks : List Bytes) (h : DP17.keyGen cfg t = .ok (Ks, t')) :
    wireDeser cfg.wire.key (wireSer Ks) = .ok Ks := by
  apply wire_roundtrip
  unfold DP17.keyGen at h
  split at h
  · cases h
  · exact takeBytesN_lens _ _ _ _ _ h

theorem SSE2.key_roundtrip (cfg : SSE2Cfg) (t t' : Tape) (a b : Bytes) (h : SSE2.keyGen cfg t = .ok (a, b, t')) :
    wireDeser cfg.wire.key (wireSer [a, b]) = .ok [a, b] := by
  apply wire_roundtrip
  simp only [SSE2.keyGen, bind, Except.bind] at h
  split at h
  · simp [throw, throwThe, MonadExceptOf.throw] at h
  · simp only [pure, Except.pure] at h
    split at h
    · cases h
    · rename_i r1 h1
      obtain ⟨a', t1⟩ := r1
      simp only at h
      split at h
      · cases h
      · rename_i r2 h2
        obtain ⟨b', t2⟩ := r2
        simp only at h
        cases h
        simp [SSE2Cfg.wire, Chain.takeBytes_len h1, Chain.takeBytes_len h2]

/-- PiPtr: a token is two PRF outputs; with `prf_f_output_length = param_lambda` (what a working configuration declares —
    K1 is used as a PRF key of `param_lambda` bytes) both have the parser's width -/
theorem PiPtr.token_roundtrip (cfg : PiPtrCfg) (lv : Leaves) (hl : LeafLaws lv) (hh : cfg.prfF.hashLen = 20)
    (hout : cfg.prfF.outputLength = cfg.lambda) (K w K1 K2 : Bytes) (h : PiPtr.token cfg lv K w = .ok (K1, K2)) :
    wireDeser (cfg.wire.token.getD []) (wireSer [K1, K2]) = .ok [K1, K2] := by
  apply wire_roundtrip
  simp only [PiPtr.token, bind, Except.bind] at h
  split at h
  · cases h
  · rename_i a ha
    split at h
    · cases h
    · rename_i b hb
      simp only [pure, Except.pure] at h
      cases h
      have la := (prf_ok cfg.prfF lv.hmac (by rw [hh]; exact hl.hmac_len) (by rw [hh]; decide) K _ K1 ha).1
      have lb := (prf_ok cfg.prfF lv.hmac (by rw [hh]; exact hl.hmac_len) (by rw [hh]; decide) K _ K2 hb).1
      simp [PiPtrCfg.wire, la, lb, hout]

/-- Pi2Lev: the same -/
theorem Pi2Lev.token_roundtrip (cfg : Pi2LevCfg) (lv : Leaves) (hl : LeafLaws lv) (hh : cfg.prfF.hashLen = 20)
    (hout : cfg.prfF.outputLength = cfg.lambda) (K w K1 K2 : Bytes) (h : Pi2Lev.token cfg lv K w = .ok (K1, K2)) :
    wireDeser (cfg.wire.token.getD []) (wireSer [K1, K2]) = .ok [K1, K2] := by
  apply wire_roundtrip
  simp only [Pi2Lev.token, bind, Except.bind] at h
  split at h
  · cases h
  · rename_i a ha
    split at h
    · cases h
    · rename_i b hb
      simp only [pure, Except.pure] at h
      cases h
      have la := (prf_ok cfg.prfF lv.hmac (by rw [hh]; exact hl.hmac_len) (by rw [hh]; decide) K _ K1 ha).1
      have lb := (prf_ok cfg.prfF lv.hmac (by rw [hh]; exact hl.hmac_len) (by rw [hh]; decide) K _ K2 hb).1
      simp [Pi2LevCfg.wire, la, lb, hout]

/-- SSE-1: a token is `(π_K3(w), f_K2(w))` — a label of exactly `param_l` bytes (π is the bit PRP on `8·l` bits) and a mask
    of `param_k + ⌈log2 s / 8⌉` bytes (the PRF's declared output length): the two widths of the token parser, for every
    accepted configuration -/
theorem SSE1.token_roundtrip (raw : RawCfg) (cfg : SSE1Cfg) (hcfg : SSE1.cfgBuild raw = .ok cfg) (lv : Leaves)
    (hl : LeafLaws lv) (K1 K2 K3 K4 w gamma eta : Bytes) (h : SSE1.token cfg lv [K1, K2, K3, K4] w = .ok (gamma, eta)) :
    wireDeser (cfg.wire.token.getD []) (wireSer [gamma, eta]) = .ok [gamma, eta] := by
  have hu := SSE1.cfgBuild_usable cfg raw hcfg
  apply wire_roundtrip
  simp only [SSE1.token, bind, Except.bind] at h
  split at h
  · cases h
  · rename_i g hg
    split at h
    · cases h
    · rename_i e he
      simp only [pure, Except.pure] at h
      cases h
      have lg := SSE1.pi_len cfg lv hl.hmac_len (by have := hu.lpos; omega) K3 w gamma hg
      have le := (prf_ok cfg.prfF lv.hmac (by rw [hu.fHash]; exact hl.hmac_len) (by rw [hu.fHash]; decide) K2 _ eta he).1
      have : cfg.prfF.outputLength.toNat = cfg.k.toNat + cfg.log2sBytes := by rw [hu.fOut]; have := hu.kpos; omega
      simp [SSE1Cfg.wire, lg, le, this]


/-! ### the wire model IS what `structures.py` does (layouts regenerated from the source on every run)

  `Generated/WireLayout.lean` holds, per scheme and object, the length `deserialize` insists on and the widths it cuts at,
  translated from the source as functions of the configuration's fields.  For EVERY configuration they coincide with the
  widths of the wire model the theorems above are about (`*.wire`), the checked length is the sum of the cut widths (so a
  parse that passes the check consumes exactly the input), `serialize` joins as many fields as `deserialize` cuts, and the
  objects the model treats as pickled are pickled in the source.  A changed offset, a swapped field, a check against another
  parameter changes the generated file and these theorems stop checking. -/

open SSEPy.Generated.Wire

theorem PiBas.wire_is_source (c : ChainCfg) :
    (PiBas_key_widths c.field).map Int.toNat = c.wire.key ∧ (PiBas_token_widths c.field).map Int.toNat = c.wire.token.getD [] ∧
    PiBas_key_check c.field = (PiBas_key_widths c.field).sum ∧ PiBas_token_check c.field = (PiBas_token_widths c.field).sum ∧
    PiBas_key_fields.length = (PiBas_key_widths c.field).length ∧ PiBas_token_fields.length = (PiBas_token_widths c.field).length := by
  refine ⟨?_, ?_, ?_, ?_, rfl, rfl⟩ <;>
    simp [PiBas_key_widths, PiBas_token_widths, PiBas_key_check, PiBas_token_check, ChainCfg.field, ChainCfg.wire] <;> omega

theorem PiPack.wire_is_source (c : ChainCfg) :
    (PiPack_key_widths c.field).map Int.toNat = c.wire.key ∧ (PiPack_token_widths c.field).map Int.toNat = c.wire.token.getD [] ∧
    PiPack_key_check c.field = (PiPack_key_widths c.field).sum ∧ PiPack_token_check c.field = (PiPack_token_widths c.field).sum ∧
    PiPack_key_fields.length = (PiPack_key_widths c.field).length ∧ PiPack_token_fields.length = (PiPack_token_widths c.field).length := by
  refine ⟨?_, ?_, ?_, ?_, rfl, rfl⟩ <;>
    simp [PiPack_key_widths, PiPack_token_widths, PiPack_key_check, PiPack_token_check, ChainCfg.field, ChainCfg.wire] <;> omega

theorem PiPtr.wire_is_source (c : PiPtrCfg) :
    (PiPtr_key_widths c.field).map Int.toNat = c.wire.key ∧ (PiPtr_token_widths c.field).map Int.toNat = c.wire.token.getD [] ∧
    PiPtr_key_check c.field = (PiPtr_key_widths c.field).sum ∧ PiPtr_token_check c.field = (PiPtr_token_widths c.field).sum ∧
    PiPtr_key_fields.length = (PiPtr_key_widths c.field).length ∧ PiPtr_token_fields.length = (PiPtr_token_widths c.field).length := by
  refine ⟨?_, ?_, ?_, ?_, rfl, rfl⟩ <;>
    simp [PiPtr_key_widths, PiPtr_token_widths, PiPtr_key_check, PiPtr_token_check, PiPtrCfg.field, PiPtrCfg.wire] <;> omega

theorem Pi2Lev.wire_is_source (c : Pi2LevCfg) :
    (Pi2Lev_key_widths c.field).map Int.toNat = c.wire.key ∧ (Pi2Lev_token_widths c.field).map Int.toNat = c.wire.token.getD [] ∧
    Pi2Lev_key_check c.field = (Pi2Lev_key_widths c.field).sum ∧ Pi2Lev_token_check c.field = (Pi2Lev_token_widths c.field).sum ∧
    Pi2Lev_key_fields.length = (Pi2Lev_key_widths c.field).length ∧ Pi2Lev_token_fields.length = (Pi2Lev_token_widths c.field).length := by
  refine ⟨?_, ?_, ?_, ?_, rfl, rfl⟩ <;>
    simp [Pi2Lev_key_widths, Pi2Lev_token_widths, Pi2Lev_key_check, Pi2Lev_token_check, Pi2LevCfg.field, Pi2LevCfg.wire] <;> omega

theorem CT14.wire_is_source (c : CT14Cfg) :
    (CT14_key_widths c.field).map Int.toNat = c.wire.key ∧ (CT14_token_widths c.field).map Int.toNat = c.wire.token.getD [] ∧
    CT14_key_check c.field = (CT14_key_widths c.field).sum ∧ CT14_token_check c.field = (CT14_token_widths c.field).sum ∧
    CT14_key_fields.length = (CT14_key_widths c.field).length ∧ CT14_token_fields.length = (CT14_token_widths c.field).length := by
  refine ⟨?_, ?_, ?_, ?_, rfl, rfl⟩ <;>
    simp [CT14_key_widths, CT14_token_widths, CT14_key_check, CT14_token_check, CT14Cfg.field, CT14Cfg.wire] <;> omega

theorem ANSS16.wire_is_source (c : ANSSCfg) :
    (ANSS16_key_widths c.field).map Int.toNat = c.wire.key ∧ (ANSS16_token_widths c.field).map Int.toNat = c.wire.token.getD [] ∧
    ANSS16_key_check c.field = (ANSS16_key_widths c.field).sum ∧ ANSS16_token_check c.field = (ANSS16_token_widths c.field).sum ∧
    ANSS16_key_fields.length = (ANSS16_key_widths c.field).length ∧ ANSS16_token_fields.length = (ANSS16_token_widths c.field).length := by
  refine ⟨?_, ?_, ?_, ?_, rfl, rfl⟩ <;>
    simp [ANSS16_key_widths, ANSS16_token_widths, ANSS16_key_check, ANSS16_token_check, ANSSCfg.field, ANSSCfg.wire] <;> omega

/-- SSE-1: the key parser cuts `len / param_k` pieces of `param_k` bytes — four, for a positive key length -/
theorem SSE1.wire_is_source (c : SSE1Cfg) (hk : 0 < c.k) :
    (SSE1_key_widths c.field).map Int.toNat = c.wire.key ∧ (SSE1_token_widths c.field).map Int.toNat = c.wire.token.getD [] ∧
    SSE1_key_check c.field = (SSE1_key_widths c.field).sum ∧ SSE1_token_check c.field = (SSE1_token_widths c.field).sum ∧
    SSE1_key_fields.length = (SSE1_key_widths c.field).length ∧ SSE1_token_fields.length = (SSE1_token_widths c.field).length := by
  have h4 : ((4 : Int) * c.k / c.k).toNat = 4 := by
    rw [Int.mul_ediv_cancel _ (by omega)]; rfl
  refine ⟨?_, ?_, ?_, ?_, ?_, rfl⟩
  · simp [SSE1_key_widths, SSE1Cfg.field, SSE1Cfg.wire, h4, List.replicate]
  · simp [SSE1_token_widths, SSE1Cfg.field, SSE1Cfg.wire]; omega
  · simp [SSE1_key_widths, SSE1_key_check, SSE1Cfg.field, h4, List.replicate]; omega
  · simp [SSE1_token_widths, SSE1_token_check, SSE1Cfg.field]; omega
  · simp [SSE1_key_widths, SSE1_key_fields, SSE1Cfg.field, h4]

/-- SSE-2: the key is two halves of `param_k` bytes; the token is pickled in the source as in the model -/
theorem SSE2.wire_is_source (c : SSE2Cfg) (hk : 0 < c.k) :
    (SSE2_key_widths c.field).map Int.toNat = c.wire.key ∧ SSE2_key_check c.field = (SSE2_key_widths c.field).sum ∧
    SSE2_key_fields.length = (SSE2_key_widths c.field).length ∧ SSE2_token_pickled = true ∧ c.wire.token = none := by
  have h2 : ((2 : Int) * c.k / c.k).toNat = 2 := by
    rw [Int.mul_ediv_cancel _ (by omega)]; rfl
  refine ⟨?_, ?_, ?_, rfl, rfl⟩
  · simp [SSE2_key_widths, SSE2Cfg.field, SSE2Cfg.wire, h2, List.replicate]
  · simp [SSE2_key_widths, SSE2_key_check, SSE2Cfg.field, h2, List.replicate]; omega
  · simp [SSE2_key_widths, SSE2_key_fields, SSE2Cfg.field, h2]

/-- DP17: three keys of `param_lambda` bytes; the token is pickled in the source as in the model -/
theorem DP17.wire_is_source (c : DP17Cfg) :
    (DP17_key_widths c.field).map Int.toNat = c.wire.key ∧ DP17_key_check c.field = (DP17_key_widths c.field).sum ∧
    DP17_key_fields.length = (DP17_key_widths c.field).length ∧ DP17_token_pickled = true ∧ c.wire.token = none := by
  refine ⟨?_, ?_, rfl, rfl, rfl⟩
  · simp [DP17_key_widths, DP17Cfg.field, DP17Cfg.wire, List.replicate]
  · simp [DP17_key_widths, DP17_key_check, DP17Cfg.field, List.replicate]; omega

/-- none of the seven concatenation formats is pickled in the source -/
theorem concatenation_formats_are_not_pickled :
    PiBas_key_pickled = false ∧ PiBas_token_pickled = false ∧ PiPack_key_pickled = false ∧ PiPack_token_pickled = false ∧
    PiPtr_key_pickled = false ∧ PiPtr_token_pickled = false ∧ Pi2Lev_key_pickled = false ∧ Pi2Lev_token_pickled = false ∧
    CT14_key_pickled = false ∧ CT14_token_pickled = false ∧ ANSS16_key_pickled = false ∧ ANSS16_token_pickled = false ∧
    SSE1_key_pickled = false ∧ SSE1_token_pickled = false ∧ SSE2_key_pickled = false ∧ DP17_key_pickled = false := by
  decide


/-! ### the encrypted database's envelope (header ‖ pickled parts), with the headers and the field order read off the source -/

/-- the envelope round-trips for every header and payload … -/
theorem edb_envelope_roundtrip (hdr payload : Bytes) : edbDeser hdr (edbSer hdr payload) = .ok payload := by
  simp [edbDeser, edbSer]

/-- … and with a codec that round-trips (`loads (dumps x) = x`: the law assumed of `pickle`) the whole object does -/
theorem edb_roundtrip {α : Type} (dumps : α → Bytes) (loads : Bytes → Except Err α) (hcodec : ∀ x, loads (dumps x) = .ok x)
    (hdr : Bytes) (e : α) : (edbDeser hdr (edbSer hdr (dumps e))).bind loads = .ok e := by
  rw [edb_envelope_roundtrip]; exact hcodec e

/-- bytes that do not start with the scheme's header are refused -/
theorem edb_wrong_header_refused (hdr x : Bytes) (h : x.take hdr.length ≠ hdr) : edbDeser hdr x = .error .valueError := by
  simp [edbDeser, h]

/-- in the SOURCE (regenerated on every run): every `deserialize` of an encrypted database checks the header it cuts off, the nine
    headers are pairwise different (an index of one scheme is refused by every other scheme), and the parts are handed to the
    constructor in the order `serialize` pickled them -/
theorem edb_envelopes_are_source :
    (ANSS16_edb_checks_header && CT14_edb_checks_header && DP17_edb_checks_header && Pi2Lev_edb_checks_header &&
     PiBas_edb_checks_header && PiPack_edb_checks_header && PiPtr_edb_checks_header && SSE1_edb_checks_header &&
     SSE2_edb_checks_header) = true ∧
    [ANSS16_edb_header, CT14_edb_header, DP17_edb_header, Pi2Lev_edb_header, PiBas_edb_header, PiPack_edb_header,
     PiPtr_edb_header, SSE1_edb_header, SSE2_edb_header].Nodup ∧
    ANSS16_edb_ser_fields = ANSS16_edb_deser_fields ∧ CT14_edb_ser_fields = CT14_edb_deser_fields ∧
    DP17_edb_ser_fields = DP17_edb_deser_fields ∧ Pi2Lev_edb_ser_fields = Pi2Lev_edb_deser_fields ∧
    PiBas_edb_ser_fields = PiBas_edb_deser_fields ∧ PiPack_edb_ser_fields = PiPack_edb_deser_fields ∧
    PiPtr_edb_ser_fields = PiPtr_edb_deser_fields ∧ SSE1_edb_ser_fields = SSE1_edb_deser_fields ∧
    SSE2_edb_ser_fields = SSE2_edb_deser_fields := by
  decide

end SSEPy.C03
