/-
  C05 — Index size and layout reveal only the scheme's public size parameter.

  Counter-chain schemes (PiBas, PiPack): the list of (label length, value length) pairs of the stored table is, up to
  order, `db.flatMap kwLens` — a function of the configuration and of the chunk lengths only (`Chain.shape`).  For PiBas
  with identifiers of one size this is N copies of one pair (`PiBas.shape`): the number of entries is the total number of
  postings and every entry has the same label length and the same value length — nothing else about the database shows,
  so two databases with the same N have identically shaped indexes (`PiBas.shape_indistinguishable`) whatever their
  keywords, contents and list-length distributions.
  The other schemes' shape claims are decided by the correspondence (padding cells included) and the direct oracle on
  pairs of databases with equal size parameter; the level-table bound that makes ANSS16's padding sufficient
  (fewer than 2^(t+1-i) lists at level i) is checked there, not yet proved.
-/
import SSEPyVerif.Proofs.Schemes.ChainShape
namespace SSEPy.C05
open SSEPy.Sch SSEPy.Sch.Chain

/-- lengths of the stored entries, as a multiset: a function of configuration and chunk lengths only -/
theorem Chain.shape (cfg : ChainCfg) (lv : Leaves) (hl : LeafLaws lv) (hh : cfg.prfF.hashLen = 20)
    (K : Bytes) (db : DB) (t t' : Tape) (D : Table) (h : Chain.setup cfg lv K db t = .ok (D, t'))
    (hn : ∀ L, encDb cfg lv K db t = .ok (L, t') → (L.map (·.1)).Nodup) :
    (D.map fun p => (p.1.length, p.2.length)).Perm (db.flatMap (kwLens cfg)) := by
  obtain ⟨L, hL, rfl⟩ := setup_eq cfg lv K db t t' D h
  have hs := encDb_shape cfg lv (by rw [hh]; exact hl.hmac_len) (by rw [hh]; decide) hl.enc_len K db t t' L hL
  rw [← hs]
  exact (buildTable_perm L (hn L hL)).map _

/-- PiBas: N entries, all alike -/
theorem PiBas.shape (raw : RawCfg) (cfg : ChainCfg) (hcfg : PiBas.cfgBuild raw = .ok cfg) (lv : Leaves) (hl : LeafLaws lv)
    (K : Bytes) (db : DB) (t t' : Tape) (D : Table) (h : Chain.setup cfg lv K db t = .ok (D, t'))
    (hn : ∀ L, encDb cfg lv K db t = .ok (L, t') → (L.map (·.1)).Nodup)
    (sz : Nat) (hsz : ∀ p ∈ db, ∀ id ∈ p.2, id.length = sz) :
    (D.map fun p => (p.1.length, p.2.length)).Perm
      (List.replicate db.total (cfg.prfF.outputLength.toNat, 16 + 16 * (sz / 16 + 1))) := by
  obtain ⟨lam, out, ske, _, _, _, _, rfl⟩ := PiBas.cfgBuild_ok raw cfg hcfg
  have := Chain.shape _ lv hl rfl K db t t' D h hn
  refine this.trans (List.Perm.of_eq ?_)
  clear this h hn hcfg
  induction db with
  | nil => rfl
  | cons p rest ih =>
    have h1 : ∀ id ∈ p.2, id.length = sz := hsz p (by simp)
    have hrest := ih (fun q hq => hsz q (by simp [hq]))
    simp only [List.flatMap_cons, hrest, DB.total, List.map_cons, List.sum_cons]
    rw [← List.replicate_append_replicate]
    congr 1
    simp only [kwLens]
    generalize p.2 = ids at h1
    induction ids with
    | nil => rfl
    | cons a as iha =>
      simp only [List.map_cons, List.length_cons, List.replicate_succ]
      rw [h1 a (by simp)]
      congr 1
      exact iha (fun id hid => h1 id (by simp [hid]))

/-- two databases with the same number of postings (and identifier size) give identically shaped PiBas indexes -/
theorem PiBas.shape_indistinguishable (raw : RawCfg) (cfg : ChainCfg) (hcfg : PiBas.cfgBuild raw = .ok cfg) (lv : Leaves)
    (hl : LeafLaws lv) (K K' : Bytes) (db db' : DB) (t t1 u u1 : Tape) (D D' : Table)
    (h : Chain.setup cfg lv K db t = .ok (D, t1)) (h' : Chain.setup cfg lv K' db' u = .ok (D', u1))
    (hn : ∀ L, encDb cfg lv K db t = .ok (L, t1) → (L.map (·.1)).Nodup)
    (hn' : ∀ L, encDb cfg lv K' db' u = .ok (L, u1) → (L.map (·.1)).Nodup)
    (sz : Nat) (hsz : ∀ p ∈ db, ∀ id ∈ p.2, id.length = sz) (hsz' : ∀ p ∈ db', ∀ id ∈ p.2, id.length = sz)
    (hN : db.total = db'.total) :
    (D.map fun p => (p.1.length, p.2.length)).Perm (D'.map fun p => (p.1.length, p.2.length)) := by
  have a := PiBas.shape raw cfg hcfg lv hl K db t t1 D h hn sz hsz
  have b := PiBas.shape raw cfg hcfg lv hl K' db' u u1 D' h' hn' sz hsz'
  rw [hN] at a
  exact a.trans b.symm

end SSEPy.C05
