/-
  C05 — Index size and layout reveal only the scheme's public size parameter.

  Counter-chain schemes (PiBas, PiPack): the list of (label length, value length) pairs of the stored table is, up to
  order, `db.flatMap kwLens` — a function of the configuration and of the chunk lengths only (`Chain.shape`).  For PiBas
  with identifiers of one size this is N copies of one pair (`PiBas.shape`): the number of entries is the total number of
  postings and every entry has the same label length and the same value length — nothing else about the database shows,
  so two databases with the same N have identically shaped indexes (`PiBas.shape_indistinguishable`) whatever their
  keywords, contents and list-length distributions.
  PiPack: one entry per block, all alike (`PiPack.shape`), so equal block counts give identically shaped indexes
  (`PiPack.shape_indistinguishable`).
  The other schemes' shape claims are decided by the correspondence (padding cells included) and the direct oracle on
  pairs of databases with equal size parameter; the level-table bound that makes ANSS16's padding sufficient
  (fewer than 2^(t+1-i) lists at level i) is checked there, not yet proved.
-/
import SSEPyVerif.Proofs.Schemes.ChainShape
import SSEPyVerif.Proofs.Schemes.ChainCfg
namespace SSEPy.C05
open SSEPy.Sch SSEPy.Sch.Chain

/-- lengths of the stored entries, as a multiset: a function of configuration and chunk lengths only -/
theorem Chain.shape (cfg : ChainCfg) (lv : Leaves) (hl : LeafLaws lv) (hh : cfg.prfF.hashLen = 20)
    (K : Bytes) (db : DB) (t t' : Tape) (D : Table) (h : Chain.setup cfg lv K db t = .ok (D, t'))
    (hn : ∀ L, encDb cfg lv K db t = .ok (L, t') → (L.map (·.1)).Nodup) :
    (D.map fun p => (p.1.length, p.2.length)).Perm (db.flatMap (kwLens cfg)) := by
  obtain ⟨L, hL, rfl⟩ := setup_eq cfg lv K db t t' D h
  have hs := encDb_shape cfg lv (by rw [hh]; exact hl.hmac_len) (by rw [hh]; decide) hl.enc_len K db t t' L hL
  rw [← hs]
  exact (buildTable_perm L (hn L hL)).map _

/-- PiBas: N entries, all alike -/
theorem PiBas.shape (raw : RawCfg) (cfg : ChainCfg) (hcfg : PiBas.cfgBuild raw = .ok cfg) (lv : Leaves) (hl : LeafLaws lv)
    (K : Bytes) (db : DB) (t t' : Tape) (D : Table) (h : Chain.setup cfg lv K db t = .ok (D, t'))
    (hn : ∀ L, encDb cfg lv K db t = .ok (L, t') → (L.map (·.1)).Nodup)
    (sz : Nat) (hsz : ∀ p ∈ db, ∀ id ∈ p.2, id.length = sz) :
    (D.map fun p => (p.1.length, p.2.length)).Perm
      (List.replicate db.total (cfg.prfF.outputLength.toNat, 16 + 16 * (sz / 16 + 1))) := by
  obtain ⟨lam, out, ske, _, _, _, _, rfl⟩ := PiBas.cfgBuild_ok raw cfg hcfg
  have := Chain.shape _ lv hl rfl K db t t' D h hn
  refine this.trans (List.Perm.of_eq ?_)
  clear this h hn hcfg
  induction db with
  | nil => rfl
  | cons p rest ih =>
    have h1 : ∀ id ∈ p.2, id.length = sz := hsz p (by simp)
    have hrest := ih (fun q hq => hsz q (by simp [hq]))
    simp only [List.flatMap_cons, hrest, DB.total, List.map_cons, List.sum_cons]
    rw [← List.replicate_append_replicate]
    congr 1
    simp only [kwLens]
    generalize p.2 = ids at h1
    induction ids with
    | nil => rfl
    | cons a as iha =>
      simp only [List.map_cons, List.length_cons, List.replicate_succ]
      rw [h1 a (by simp)]
      congr 1
      exact iha (fun id hid => h1 id (by simp [hid]))

/-- two databases with the same number of postings (and identifier size) give identically shaped PiBas indexes -/
theorem PiBas.shape_indistinguishable (raw : RawCfg) (cfg : ChainCfg) (hcfg : PiBas.cfgBuild raw = .ok cfg) (lv : Leaves)
    (hl : LeafLaws lv) (K K' : Bytes) (db db' : DB) (t t1 u u1 : Tape) (D D' : Table)
    (h : Chain.setup cfg lv K db t = .ok (D, t1)) (h' : Chain.setup cfg lv K' db' u = .ok (D', u1))
    (hn : ∀ L, encDb cfg lv K db t = .ok (L, t1) → (L.map (·.1)).Nodup)
    (hn' : ∀ L, encDb cfg lv K' db' u = .ok (L, u1) → (L.map (·.1)).Nodup)
    (sz : Nat) (hsz : ∀ p ∈ db, ∀ id ∈ p.2, id.length = sz) (hsz' : ∀ p ∈ db', ∀ id ∈ p.2, id.length = sz)
    (hN : db.total = db'.total) :
    (D.map fun p => (p.1.length, p.2.length)).Perm (D'.map fun p => (p.1.length, p.2.length)) := by
  have a := PiBas.shape raw cfg hcfg lv hl K db t t1 D h hn sz hsz
  have b := PiBas.shape raw cfg hcfg lv hl K' db' u u1 D' h' hn' sz hsz'
  rw [hN] at a
  exact a.trans b.symm

/-- PiPack's public size parameter: the number of blocks `Σ_w ⌈|DB(w)| / B⌉` -/
def PiPack.blocks (B : Nat) (db : DB) : Nat := (db.map fun p => ceilDiv p.2.length B).sum

/-- PiPack: one entry per block, all alike — the label length and the ciphertext length of a FULL block, also for the
    last, partly filled block of every keyword (it is padded before it is encrypted) -/
theorem PiPack.shape (raw : RawCfg) (cfg : ChainCfg) (hcfg : PiPack.cfgBuild raw = .ok cfg) (lv : Leaves) (hl : LeafLaws lv)
    (K : Bytes) (db : DB) (t t' : Tape) (D : Table) (h : Chain.setup cfg lv K db t = .ok (D, t'))
    (hn : ∀ L, encDb cfg lv K db t = .ok (L, t') → (L.map (·.1)).Nodup)
    (B sz : Int) (hB : getInt raw "param_B" = .ok B) (hsz : getInt raw "param_identifier_size" = .ok sz)
    (hids : ∀ p ∈ db, ∀ id ∈ p.2, id.length = sz.toNat) :
    (D.map fun p => (p.1.length, p.2.length)).Perm
      (List.replicate (PiPack.blocks B.toNat db) (cfg.prfF.outputLength.toNat, 16 + 16 * (B.toNat * sz.toNat / 16 + 1))) := by
  obtain ⟨lam, B', out, sz', ske, hpos, hex, _, hB', _, hsz', _, rfl⟩ := PiPack.cfgBuild_ok raw cfg hcfg
  rw [hB] at hB'; cases hB'
  rw [hsz] at hsz'; cases hsz'
  have hBpos : 0 < B := param_pos _ raw "param_B" B hpos hex (by decide +kernel) (by simp) hB
  have hszpos : 0 < sz := param_pos _ raw "param_identifier_size" sz hpos hex (by decide +kernel) (by simp) hsz
  have := Chain.shape _ lv hl rfl K db t t' D h hn
  refine this.trans (List.Perm.of_eq ?_)
  clear this h hn hcfg
  induction db with
  | nil => rfl
  | cons p rest ih =>
    have hrest := ih (fun q hq => hids q (by simp [hq]))
    simp only [List.flatMap_cons, hrest, PiPack.blocks, List.map_cons, List.sum_cons]
    rw [← List.replicate_append_replicate]
    congr 1
    simp only [kwLens]
    have e : partitionBlocks p.2 B sz = partitionBlocksNat p.2 B.toNat sz.toNat 0 := by
      unfold partitionBlocks
      have : (0 ≤ B ∧ 0 ≤ sz ∧ (0 : Int) ≤ 0) := ⟨by omega, by omega, by omega⟩
      simp [this]
    rw [e]
    cases hp : partitionBlocksNat p.2 B.toNat sz.toNat 0 with
    | error err =>
      unfold partitionBlocksNat at hp
      have : B.toNat ≠ 0 := by omega
      simp [this] at hp
    | ok blocks =>
      simp only
      have hc := C17.partition_count p.2 B.toNat sz.toNat 0 (by omega) blocks hp
      have hlen := C17.partition_block_len p.2 B.toNat sz.toNat 0 (by omega) (hids p (by simp)) blocks hp
      rw [← hc]
      clear hc hp e
      induction blocks with
      | nil => rfl
      | cons b bs ihb =>
        simp only [List.map_cons, List.length_cons, List.replicate_succ]
        rw [hlen b (by simp)]
        congr 1
        exact ihb (fun x hx => hlen x (by simp [hx]))

/-- two databases with the same number of blocks give identically shaped PiPack indexes, whatever their keywords,
    contents and list lengths -/
theorem PiPack.shape_indistinguishable (raw : RawCfg) (cfg : ChainCfg) (hcfg : PiPack.cfgBuild raw = .ok cfg) (lv : Leaves)
    (hl : LeafLaws lv) (K K' : Bytes) (db db' : DB) (t t1 u u1 : Tape) (D D' : Table)
    (h : Chain.setup cfg lv K db t = .ok (D, t1)) (h' : Chain.setup cfg lv K' db' u = .ok (D', u1))
    (hn : ∀ L, encDb cfg lv K db t = .ok (L, t1) → (L.map (·.1)).Nodup)
    (hn' : ∀ L, encDb cfg lv K' db' u = .ok (L, u1) → (L.map (·.1)).Nodup)
    (B sz : Int) (hB : getInt raw "param_B" = .ok B) (hsz : getInt raw "param_identifier_size" = .ok sz)
    (hids : ∀ p ∈ db, ∀ id ∈ p.2, id.length = sz.toNat) (hids' : ∀ p ∈ db', ∀ id ∈ p.2, id.length = sz.toNat)
    (hN : PiPack.blocks B.toNat db = PiPack.blocks B.toNat db') :
    (D.map fun p => (p.1.length, p.2.length)).Perm (D'.map fun p => (p.1.length, p.2.length)) := by
  have a := PiPack.shape raw cfg hcfg lv hl K db t t1 D h hn B sz hB hsz hids
  have b := PiPack.shape raw cfg hcfg lv hl K' db' u u1 D' h' hn' B sz hB hsz hids'
  rw [hN] at a
  exact a.trans b.symm

end SSEPy.C05
