/-
  C05 — Index size and layout reveal only the scheme's public size parameter.

  Counter-chain schemes (PiBas, PiPack): the list of (label length, value length) pairs of the stored table is, up to
  order, `db.flatMap kwLens` — a function of the configuration and of the chunk lengths only (`Chain.shape`).  For PiBas
  with identifiers of one size this is N copies of one pair (`PiBas.shape`): the number of entries is the total number of
  postings and every entry has the same label length and the same value length — nothing else about the database shows,
  so two databases with the same N have identically shaped indexes (`PiBas.shape_indistinguishable`) whatever their
  keywords, contents and list-length distributions.
  PiPack: one entry per block, all alike (`PiPack.shape`), so equal block counts give identically shaped indexes
  (`PiPack.shape_indistinguishable`).
  SSE1: array length, cell lengths, table size and entry lengths are functions of the configuration (`SSE1.shape`).
  DP17: the arrays A_j (bucket count and byte length of every bucket) are a function of N and the configuration
  (`DP17.arrays_shape`); the hash table has exactly N entries of `param_digest_size`-byte keys and values (`DP17.ht_shape`).
  SSE2: exactly N entries, one per posting, with addresses in the PRP's `8·l + bits(n+max)`-bit range (`SSE2.shape`), so
  equal N give equally large indexes (`SSE2.shape_indistinguishable`); the identifiers are stored in clear by design.
  PiPtr: the array has `blocks + 1` cells, every occupied one the ciphertext of a full identifier block, and the dictionary
  is `pointer blocks` entries, all alike (`PiPtr.shape`): equal (blocks, pointer blocks) give identically shaped indexes
  (`PiPtr.shape_indistinguishable`).
  Pi2Lev: the array has `arrayLen` cells, every occupied one the ciphertext of `mark ‖ block` with a block of exactly
  `B · idsize` bytes — identifier blocks and pointer blocks of both levels alike —, and the dictionary is one entry per
  keyword, all alike (`Pi2Lev.shape`): equal (keywords, array length) give identically shaped indexes
  (`Pi2Lev.shape_indistinguishable`).
  CT14: the whole index shape is `CT14.shapeFor cfg ⌈log2 N⌉` (`CT14.shape`).
  ANSS16: the whole index shape is `shapeFor cfg ⌈log2 N⌉` (`ANSS16.shape`): number of tables, entries per table and all
  lengths; the level-table bound that makes the padding sufficient (at most 2^(t+1-j) lists at level j) is part of it.
  All nine schemes have a shape theorem; the correspondence (padding cells included) and the direct oracle on pairs of
  databases with equal size parameter tie them to the code.
-/
import SSEPyVerif.Proofs.Schemes.ChainShape
import SSEPyVerif.Proofs.Schemes.ChainCfg
import SSEPyVerif.Proofs.Schemes.ANSS16Shape
import SSEPyVerif.Proofs.Schemes.CT14Shape
import SSEPyVerif.Proofs.Schemes.SSE1Shape
import SSEPyVerif.Proofs.Schemes.DP17Shape
import SSEPyVerif.Proofs.Schemes.SSE2Shape
import SSEPyVerif.Proofs.Schemes.PiPtrShape
import SSEPyVerif.Proofs.Schemes.Pi2LevShape
import SSEPyVerif.Proofs.Schemes.DP17HT
namespace SSEPy.C05
open SSEPy.Sch SSEPy.Sch.Chain

/-- lengths of the stored entries, as a multiset: a function of configuration and chunk lengths only -/
theorem Chain.shape (cfg : ChainCfg) (lv : Leaves) (hl : LeafLaws lv) (hh : cfg.prfF.hashLen = 20)
    (K : Bytes) (db : DB) (t t' : Tape) (D : Table) (h : Chain.setup cfg lv K db t = .ok (D, t'))
    (hn : ∀ L, encDb cfg lv K db t = .ok (L, t') → (L.map (·.1)).Nodup) :
    (D.map fun p => (p.1.length, p.2.length)).Perm (db.flatMap (kwLens cfg)) := by
  obtain ⟨L, hL, rfl⟩ := setup_eq cfg lv K db t t' D h
  have hs := encDb_shape cfg lv (by rw [hh]; exact hl.hmac_len) (by rw [hh]; decide) hl.enc_len K db t t' L hL
  rw [← hs]
  exact (buildTable_perm L (hn L hL)).map _

/-- PiBas: N entries, all alike -/
theorem PiBas.shape (raw : RawCfg) (cfg : ChainCfg) (hcfg : PiBas.cfgBuild raw = .ok cfg) (lv : Leaves) (hl : LeafLaws lv)
    (K : Bytes) (db : DB) (t t' : Tape) (D : Table) (h : Chain.setup cfg lv K db t = .ok (D, t'))
    (hn : ∀ L, encDb cfg lv K db t = .ok (L, t') → (L.map (·.1)).Nodup)
    (sz : Nat) (hsz : ∀ p ∈ db, ∀ id ∈ p.2, id.length = sz) :
    (D.map fun p => (p.1.length, p.2.length)).Perm
      (List.replicate db.total (cfg.prfF.outputLength.toNat, 16 + 16 * (sz / 16 + 1))) := by
  obtain ⟨lam, out, ske, _, _, _, _, rfl⟩ := PiBas.cfgBuild_ok raw cfg hcfg
  have := Chain.shape _ lv hl rfl K db t t' D h hn
  refine this.trans (List.Perm.of_eq ?_)
  clear this h hn hcfg
  induction db with
  | nil => rfl
  | cons p rest ih =>
    have h1 : ∀ id ∈ p.2, id.length = sz := hsz p (by simp)
    have hrest := ih (fun q hq => hsz q (by simp [hq]))
    simp only [List.flatMap_cons, hrest, DB.total, List.map_cons, List.sum_cons]
    rw [← List.replicate_append_replicate]
    congr 1
    simp only [kwLens]
    generalize p.2 = ids at h1
    induction ids with
    | nil => rfl
    | cons a as iha =>
      simp only [List.map_cons, List.length_cons, List.replicate_succ]
      rw [h1 a (by simp)]
      congr 1
      exact iha (fun id hid => h1 id (by simp [hid]))

/-- two databases with the same number of postings (and identifier size) give identically shaped PiBas indexes -/
theorem PiBas.shape_indistinguishable (raw : RawCfg) (cfg : ChainCfg) (hcfg : PiBas.cfgBuild raw = .ok cfg) (lv : Leaves)
    (hl : LeafLaws lv) (K K' : Bytes) (db db' : DB) (t t1 u u1 : Tape) (D D' : Table)
    (h : Chain.setup cfg lv K db t = .ok (D, t1)) (h' : Chain.setup cfg lv K' db' u = .ok (D', u1))
    (hn : ∀ L, encDb cfg lv K db t = .ok (L, t1) → (L.map (·.1)).Nodup)
    (hn' : ∀ L, encDb cfg lv K' db' u = .ok (L, u1) → (L.map (·.1)).Nodup)
    (sz : Nat) (hsz : ∀ p ∈ db, ∀ id ∈ p.2, id.length = sz) (hsz' : ∀ p ∈ db', ∀ id ∈ p.2, id.length = sz)
    (hN : db.total = db'.total) :
    (D.map fun p => (p.1.length, p.2.length)).Perm (D'.map fun p => (p.1.length, p.2.length)) := by
  have a := PiBas.shape raw cfg hcfg lv hl K db t t1 D h hn sz hsz
  have b := PiBas.shape raw cfg hcfg lv hl K' db' u u1 D' h' hn' sz hsz'
  rw [hN] at a
  exact a.trans b.symm

/-- PiPack's public size parameter: the number of blocks `Σ_w ⌈|DB(w)| / B⌉` -/
def PiPack.blocks (B : Nat) (db : DB) : Nat := (db.map fun p => ceilDiv p.2.length B).sum

/-- PiPack: one entry per block, all alike — the label length and the ciphertext length of a FULL block, also for the
    last, partly filled block of every keyword (it is padded before it is encrypted) -/
theorem PiPack.shape (raw : RawCfg) (cfg : ChainCfg) (hcfg : PiPack.cfgBuild raw = .ok cfg) (lv : Leaves) (hl : LeafLaws lv)
    (K : Bytes) (db : DB) (t t' : Tape) (D : Table) (h : Chain.setup cfg lv K db t = .ok (D, t'))
    (hn : ∀ L, encDb cfg lv K db t = .ok (L, t') → (L.map (·.1)).Nodup)
    (B sz : Int) (hB : getInt raw "param_B" = .ok B) (hsz : getInt raw "param_identifier_size" = .ok sz)
    (hids : ∀ p ∈ db, ∀ id ∈ p.2, id.length = sz.toNat) :
    (D.map fun p => (p.1.length, p.2.length)).Perm
      (List.replicate (PiPack.blocks B.toNat db) (cfg.prfF.outputLength.toNat, 16 + 16 * (B.toNat * sz.toNat / 16 + 1))) := by
  obtain ⟨lam, B', out, sz', ske, hpos, hex, _, hB', _, hsz', _, rfl⟩ := PiPack.cfgBuild_ok raw cfg hcfg
  rw [hB] at hB'; cases hB'
  rw [hsz] at hsz'; cases hsz'
  have hBpos : 0 < B := param_pos _ raw "param_B" B hpos hex (by decide +kernel) (by simp) hB
  have hszpos : 0 < sz := param_pos _ raw "param_identifier_size" sz hpos hex (by decide +kernel) (by simp) hsz
  have := Chain.shape _ lv hl rfl K db t t' D h hn
  refine this.trans (List.Perm.of_eq ?_)
  clear this h hn hcfg
  induction db with
  | nil => rfl
  | cons p rest ih =>
    have hrest := ih (fun q hq => hids q (by simp [hq]))
    simp only [List.flatMap_cons, hrest, PiPack.blocks, List.map_cons, List.sum_cons]
    rw [← List.replicate_append_replicate]
    congr 1
    simp only [kwLens]
    have e : partitionBlocks p.2 B sz = partitionBlocksNat p.2 B.toNat sz.toNat 0 := by
      unfold partitionBlocks
      have : (0 ≤ B ∧ 0 ≤ sz ∧ (0 : Int) ≤ 0) := ⟨by omega, by omega, by omega⟩
      simp [this]
    rw [e]
    cases hp : partitionBlocksNat p.2 B.toNat sz.toNat 0 with
    | error err =>
      unfold partitionBlocksNat at hp
      have : B.toNat ≠ 0 := by omega
      simp [this] at hp
    | ok blocks =>
      simp only
      have hc := C17.partition_count p.2 B.toNat sz.toNat 0 (by omega) blocks hp
      have hlen := C17.partition_block_len p.2 B.toNat sz.toNat 0 (by omega) (hids p (by simp)) blocks hp
      rw [← hc]
      clear hc hp e
      induction blocks with
      | nil => rfl
      | cons b bs ihb =>
        simp only [List.map_cons, List.length_cons, List.replicate_succ]
        rw [hlen b (by simp)]
        congr 1
        exact ihb (fun x hx => hlen x (by simp [hx]))

/-- two databases with the same number of blocks give identically shaped PiPack indexes, whatever their keywords,
    contents and list lengths -/
theorem PiPack.shape_indistinguishable (raw : RawCfg) (cfg : ChainCfg) (hcfg : PiPack.cfgBuild raw = .ok cfg) (lv : Leaves)
    (hl : LeafLaws lv) (K K' : Bytes) (db db' : DB) (t t1 u u1 : Tape) (D D' : Table)
    (h : Chain.setup cfg lv K db t = .ok (D, t1)) (h' : Chain.setup cfg lv K' db' u = .ok (D', u1))
    (hn : ∀ L, encDb cfg lv K db t = .ok (L, t1) → (L.map (·.1)).Nodup)
    (hn' : ∀ L, encDb cfg lv K' db' u = .ok (L, u1) → (L.map (·.1)).Nodup)
    (B sz : Int) (hB : getInt raw "param_B" = .ok B) (hsz : getInt raw "param_identifier_size" = .ok sz)
    (hids : ∀ p ∈ db, ∀ id ∈ p.2, id.length = sz.toNat) (hids' : ∀ p ∈ db', ∀ id ∈ p.2, id.length = sz.toNat)
    (hN : PiPack.blocks B.toNat db = PiPack.blocks B.toNat db') :
    (D.map fun p => (p.1.length, p.2.length)).Perm (D'.map fun p => (p.1.length, p.2.length)) := by
  have a := PiPack.shape raw cfg hcfg lv hl K db t t1 D h hn B sz hB hsz hids
  have b := PiPack.shape raw cfg hcfg lv hl K' db' u u1 D' h' hn' B sz hB hsz hids'
  rw [hN] at a
  exact a.trans b.symm

/-- the shape of a table: the list of (label length, value length) of its entries in stored order -/
def shapeOf (T : Table) : List (Nat × Nat) := T.map fun p => (p.1.length, p.2.length)

/-- what an ANSS16 index looks like for `t = ⌈log2 N⌉`: `t+1` level tables, level `j` with `2^(t+1-j)` entries of
    (`l`, `2^j · c`) bytes, and `HT(S)` with `2^t` entries of (`l'`, `c'`) bytes — `c`, `c'` the ciphertext lengths of one
    identifier and of one length field -/
def ANSS16.shapeFor (cfg : ANSSCfg) (t : Nat) : List (Nat × Nat) × List (List (Nat × Nat)) :=
  (List.replicate (2 ^ t) (cfg.lPrime.toNat, 16 + 16 * (ceilDiv (t + 1) 8 / 16 + 1)),
   (List.range (t + 1)).map fun j => List.replicate (2 ^ (t + 1 - j)) (cfg.l.toNat, 2 ^ j * ANSS16.clen cfg))

theorem shape_replicate (L T : List (Bytes × Bytes)) (hp : T.Perm L) (n a b : Nat) (hl : L.length = n)
    (he : ANSS16.EntLens L a b) : shapeOf T = List.replicate n (a, b) := by
  unfold shapeOf
  apply List.eq_replicate_iff.mpr
  refine ⟨by rw [List.length_map, hp.length_eq, hl], ?_⟩
  intro x hx
  simp only [List.mem_map] at hx
  obtain ⟨e, hem, rfl⟩ := hx
  have := he e (hp.mem_iff.mp hem)
  rw [this.1, this.2]

/-- ANSS16 (schemes/ANSS16/Scheme3): THE INDEX SHAPE IS A FUNCTION OF `⌈log2 N⌉` ONLY.  For every key, database and tape:
    once setup has returned, the index is `shapeFor cfg ⌈log2 N⌉` — the number of tables, the number of entries of every
    table and the lengths of every label and value are determined by the configuration and `⌈log2 N⌉`; keywords, contents
    and the distribution of list lengths do not show.  In particular no level ever holds more lists than the `2^(t+1-j)`
    it is padded to (the bound commit f3c43f7 relies on): a list kept at level `j` has more than `2^j / 2` identifiers and
    there are `2^t` identifiers in all.  Hypotheses: AES blocks have 16 bytes; identifiers have the configured size; no
    dummy keyword drawn by the padding loop repeats a keyword; the labels of each table are distinct (both evaluated by
    the driver on every recorded run). -/
theorem ANSS16.shape (cfg : ANSSCfg) (lv : Leaves) (hl : LeafLaws lv) (K : Bytes) (db : DB) (t t' : Tape) (edb : ANSSEDB)
    (hs : ANSS16.setup cfg lv K db t = .ok (edb, t'))
    (hids : ∀ p ∈ db, ∀ x ∈ p.2, x.length = cfg.idSize.toNat) (hfresh : (db.map (·.1) ++ draws32 t).Nodup)
    (hnd : ∀ SL TL t1, ANSS16.setupLists cfg lv K db t = .ok (SL, TL, t1) →
      (SL.map (·.1)).Nodup ∧ ∀ L ∈ TL, (L.map (·.1)).Nodup) :
    (shapeOf edb.HTS, edb.HTL.map shapeOf) = ANSS16.shapeFor cfg (clog2 db.total) := by
  simp only [ANSS16.setup, bind, Except.bind] at hs
  split at hs
  · cases hs
  · rename_i r hr
    obtain ⟨SL, TL, t1⟩ := r
    simp only [pure, Except.pure] at hs
    cases hs
    obtain ⟨n1, n2⟩ := hnd SL TL _ hr
    obtain ⟨s1, s2, s3, s4⟩ := ANSS16.setupLists_shape cfg lv hl.enc_len K db t SL TL _ hr hids hfresh
    unfold ANSS16.shapeFor
    refine Prod.ext ?_ ?_
    · exact shape_replicate SL _ (buildTable_perm SL n1) _ _ _ s3 s4
    · simp only
      apply List.ext_getElem
      · simp [s1]
      · intro j h1 h2
        simp only [List.length_map] at h1
        have hj : TL[j]? = some TL[j] := List.getElem?_eq_getElem h1
        obtain ⟨a, b⟩ := s2 j TL[j] hj
        simp only [List.getElem_map, List.getElem_range]
        exact shape_replicate TL[j] _ (buildTable_perm _ (n2 _ (List.getElem_mem h1))) _ _ _ a b

/-- two databases with the same `⌈log2 N⌉` give identically shaped ANSS16 indexes -/
theorem ANSS16.shape_indistinguishable (cfg : ANSSCfg) (lv : Leaves) (hl : LeafLaws lv) (K K' : Bytes) (db db' : DB)
    (t t1 u u1 : Tape) (edb edb' : ANSSEDB)
    (hs : ANSS16.setup cfg lv K db t = .ok (edb, t1)) (hs' : ANSS16.setup cfg lv K' db' u = .ok (edb', u1))
    (hids : ∀ p ∈ db, ∀ x ∈ p.2, x.length = cfg.idSize.toNat) (hids' : ∀ p ∈ db', ∀ x ∈ p.2, x.length = cfg.idSize.toNat)
    (hfresh : (db.map (·.1) ++ draws32 t).Nodup) (hfresh' : (db'.map (·.1) ++ draws32 u).Nodup)
    (hnd : ∀ SL TL t1, ANSS16.setupLists cfg lv K db t = .ok (SL, TL, t1) →
      (SL.map (·.1)).Nodup ∧ ∀ L ∈ TL, (L.map (·.1)).Nodup)
    (hnd' : ∀ SL TL t1, ANSS16.setupLists cfg lv K' db' u = .ok (SL, TL, t1) →
      (SL.map (·.1)).Nodup ∧ ∀ L ∈ TL, (L.map (·.1)).Nodup)
    (hN : clog2 db.total = clog2 db'.total) :
    (shapeOf edb.HTS, edb.HTL.map shapeOf) = (shapeOf edb'.HTS, edb'.HTL.map shapeOf) := by
  rw [ANSS16.shape cfg lv hl K db t t1 edb hs hids hfresh hnd, ANSS16.shape cfg lv hl K' db' u u1 edb' hs' hids' hfresh' hnd', hN]

/-- what a CT14 index looks like for `t = ⌈log2 N⌉`: `t+1` level tables, level `j` with `2^(t-j)` entries of
    (`l`, `2^j · c`) bytes, `c` the ciphertext length of one identifier -/
def CT14.shapeFor (cfg : CT14Cfg) (t : Nat) : List (List (Nat × Nat)) :=
  (List.range (t + 1)).map fun j => List.replicate (2 ^ (t - j)) (cfg.l.toNat, 2 ^ j * CT14.clen cfg)

/-- CT14 (schemes/CT14/Pi): THE INDEX SHAPE IS A FUNCTION OF `⌈log2 N⌉` ONLY — number of level tables, entries per table
    and the lengths of all labels and values; keywords, contents and the distribution of list lengths do not show.  No
    level ever holds more chunks than the `2^(t-j)` it is padded to: the greedy decomposition puts at most one chunk of
    `2^j ≤ |DB(w)|` identifiers of a keyword on level `j`, and there are `2^t` identifiers in all after padding.
    Hypotheses as for `ANSS16.shape`. -/
theorem CT14.shape (raw : RawCfg) (cfg : CT14Cfg) (hcfg : CT14.cfgBuild raw = .ok cfg) (lv : Leaves) (hl : LeafLaws lv)
    (K : Bytes) (db : DB) (t t' : Tape) (HT : List Table) (hs : CT14.setup cfg lv K db t = .ok (HT, t'))
    (hids : ∀ p ∈ db, ∀ x ∈ p.2, x.length = cfg.idSize.toNat) (hfresh : (db.map (·.1) ++ draws32 t).Nodup)
    (hnd : ∀ TL t1, CT14.setupLists cfg lv K db t = .ok (TL, t1) → ∀ L ∈ TL, (L.map (·.1)).Nodup) :
    HT.map shapeOf = CT14.shapeFor cfg (clog2 db.total) := by
  obtain ⟨hlpos, hprf, hhash⟩ := CT14.cfgBuild_prf cfg raw hcfg
  simp only [CT14.setup, bind, Except.bind] at hs
  split at hs
  · cases hs
  · rename_i r hr
    obtain ⟨TL, t1⟩ := r
    simp only [pure, Except.pure] at hs
    cases hs
    have n2 := hnd TL _ hr
    obtain ⟨s1, s2⟩ := CT14.setupLists_shape cfg lv hl.enc_len hl.hmac_len hlpos hprf hhash K db t TL _ hr hids hfresh
    unfold CT14.shapeFor
    apply List.ext_getElem
    · simp [s1]
    · intro j h1 h2
      simp only [List.length_map] at h1
      have hj : TL[j]? = some TL[j] := List.getElem?_eq_getElem h1
      obtain ⟨a, b⟩ := s2 j TL[j] hj
      simp only [List.getElem_map, List.getElem_range]
      exact shape_replicate TL[j] _ (buildTable_perm _ (n2 _ (List.getElem_mem h1))) _ _ _ a b

/-- two databases with the same `⌈log2 N⌉` give identically shaped CT14 indexes -/
theorem CT14.shape_indistinguishable (raw : RawCfg) (cfg : CT14Cfg) (hcfg : CT14.cfgBuild raw = .ok cfg) (lv : Leaves)
    (hl : LeafLaws lv) (K K' : Bytes) (db db' : DB) (t t1 u u1 : Tape) (HT HT' : List Table)
    (hs : CT14.setup cfg lv K db t = .ok (HT, t1)) (hs' : CT14.setup cfg lv K' db' u = .ok (HT', u1))
    (hids : ∀ p ∈ db, ∀ x ∈ p.2, x.length = cfg.idSize.toNat) (hids' : ∀ p ∈ db', ∀ x ∈ p.2, x.length = cfg.idSize.toNat)
    (hfresh : (db.map (·.1) ++ draws32 t).Nodup) (hfresh' : (db'.map (·.1) ++ draws32 u).Nodup)
    (hnd : ∀ TL t1, CT14.setupLists cfg lv K db t = .ok (TL, t1) → ∀ L ∈ TL, (L.map (·.1)).Nodup)
    (hnd' : ∀ TL t1, CT14.setupLists cfg lv K' db' u = .ok (TL, t1) → ∀ L ∈ TL, (L.map (·.1)).Nodup)
    (hN : clog2 db.total = clog2 db'.total) : HT.map shapeOf = HT'.map shapeOf := by
  rw [CT14.shape raw cfg hcfg lv hl K db t t1 HT hs hids hfresh hnd,
    CT14.shape raw cfg hcfg lv hl K' db' u u1 HT' hs' hids' hfresh' hnd', hN]

/-- SSE-1 (schemes/CGKO06/SSE1): THE INDEX SHAPE IS A FUNCTION OF THE CONFIGURATION ONLY — the scheme's leakage names no
    size parameter, and none shows: for every key, database and tape, once setup has returned, the array has `param_s`
    cells, every one of the length of one encrypted node (`id ‖ key ‖ address`; cells no node was written to are filled
    with random strings of exactly that length), and every entry of the look-up table has a `param_l`-byte label and a
    `⌈log2 s / 8⌉ + k`-byte value; the table has exactly `param_dictionary_size` entries when the labels of the stored
    keywords are distinct (π is a permutation: `SSE1.gammaInj_of_leaves`) and no random filler label repeats a label
    (evaluated by the driver on every recorded run).  Keywords, contents, the number of keywords and the list lengths
    do not show. -/
theorem SSE1.shape (raw : RawCfg) (cfg : SSE1Cfg) (hcfg : SSE1.cfgBuild raw = .ok cfg) (lv : Leaves) (hl : LeafLaws lv)
    (h2 : 2 ≤ cfg.log2s) (hl8 : 2 ≤ (cfg.l * 8).toNat) (K1 K2 K3 K4 : Bytes) (db : DB) (t t' : Tape) (edb : SSE1EDB)
    (hs : SSE1.setup cfg lv [K1, K2, K3, K4] db t = .ok (edb, t'))
    (hidl : ∀ p ∈ db, ∀ x ∈ p.2, x.length = cfg.idSize.toNat) :
    edb.A.map List.length = List.replicate cfg.s.toNat (SSE1.nodeLen cfg) ∧
    (∀ e ∈ edb.T, e.1.length = cfg.l.toNat ∧ e.2.length = cfg.log2sBytes + cfg.k.toNat) ∧
    ((db.map (·.1)).Nodup → SSE1.GammaInj cfg lv K3 db → db.length ≤ cfg.dictSize.toNat →
      (drawsLen cfg.l.toNat t).Nodup →
      (∀ p ∈ db, ∀ g, SSE1.piBytes cfg lv K3 p.1 = .ok g → g ∉ drawsLen cfg.l.toNat t) →
      edb.T.length = cfg.dictSize.toNat) := by
  obtain ⟨hlb, _⟩ := SSE1.cfgBuild_ok cfg raw hcfg
  obtain ⟨hk0, hid0, hout⟩ := SSE1.cfgBuild_shape cfg raw hcfg
  obtain ⟨a1, a2, a3, a4⟩ := SSE1.setup_shape cfg lv hl.enc_len hlb hl.hmac_len h2 hl8 hk0 hid0 hout K1 K2 K3 K4 db t t' edb hs hidl
  refine ⟨?_, a3, a4⟩
  apply List.eq_replicate_iff.mpr
  refine ⟨by simp [a1], ?_⟩
  intro x hx
  simp only [List.mem_map] at hx
  obtain ⟨c, hc, rfl⟩ := hx
  exact a2 c hc

/-- DP17 (schemes/DP17/Pi), the arrays: for every level `j` of the index, `A_j` has one byte string per bucket —
    `⌈(2N + 2^(j+1)) / 2^(j+1)⌉` of them — and bucket `x` is `cells(x) · param_identifier_cipher_len` bytes long, `cells` the
    bucket sizes `_divide_to_buckets(2N + 2^(j+1), 2^(j+1))` gives: a function of `N` and the configuration.  What a bucket
    holds does not show: stored entries + padding = cells is an invariant of `_Enc` (a chunk only goes to a bucket with at
    least `2^j` free cells and has at most `2^j` entries).  Hypotheses: leaf laws, identifiers of the configured size, and
    that no level occurs twice in the level list — a decidable condition on N and the configuration; it fails for N = 1
    with param_L > 1 (levels [0, 0]), where the code pads level 0 twice and the theorem does not apply. -/
theorem DP17.arrays_shape (raw : RawCfg) (cfg : DP17Cfg) (hcfg : DP17.cfgBuild raw = .ok cfg) (lv : Leaves) (hl : LeafLaws lv)
    (k1 k2 k3 : Bytes) (db : DB) (t t' : Tape) (edb : DP17EDB)
    (hs : DP17.setup cfg lv [k1, k2, k3] db t = .ok (edb, t'))
    (hidl : ∀ p ∈ db, ∀ id ∈ p.2, (id.length : Int) = cfg.idSize)
    (levels : List Int) (hlv : DP17.levelsOf cfg db.total = .ok levels) (hnd : levels.Nodup) :
    ∀ j ∈ levels, ∃ arr, edb.A.lookup j = some arr ∧
      arr.map List.length = (DP17.sizesOf db.total j).map (· * cfg.cipherLen) := by
  obtain ⟨hplain, hlam, hclen⟩ := DP17.cfgBuild_ok cfg raw hcfg
  exact DP17.setup_arrays_shape cfg lv
    (fun key iv msg c hiv he => ske_dec_enc lv hl cfg.rnd hplain key iv msg c hiv he) hl.enc_len
    (cfg.idSize + cfg.lambda).toNat hclen k1 k2 k3 db t t' edb hs
    (fun p hp id hid => by have := hidl p hp id hid; omega) levels hlv hnd

/-- SSE-2 (schemes/CGKO06/SSE2): the index has EXACTLY `N` entries — one per posting, no two postings share an address
    and nothing else is stored — and every address lies in the `8·param_l + bits(n + max)`-bit range of the PRP: the only
    thing the size of the index tells is `N`.  For every accepted configuration, key and valid database (distinct
    keywords without a leading NUL byte, no identifier posted more than `param_max` times — so that the filler loop is
    empty).  The values are the identifiers in clear, as the scheme's definition has it. -/
theorem SSE2.shape (raw : RawCfg) (cfg : SSE2Cfg) (hcfg : SSE2.cfgBuild raw = .ok cfg) (lv : Leaves) (hl : LeafLaws lv)
    (K1 : Bytes) (db : DB) (I : ITable) (hs : SSE2.setup cfg lv K1 db = .ok I) (hkeys : (db.map (·.1)).Nodup)
    (hvalid : ∀ p ∈ db, NoLeadingNul p.1) (hcap : ∀ id, (db.flatMap (·.2)).count id ≤ cfg.max) :
    I.length = db.total ∧ ∀ e ∈ I, e.1 < 2 ^ ((cfg.l * 8).toNat + cfg.bitsNM) := by
  obtain ⟨hu, _, _⟩ := SSE2.cfgBuild_usable raw cfg hcfg
  have hl8 : 0 < (cfg.l * 8).toNat := by have := hu.lpos; omega
  have addrOf_ok : ∀ w j a, SSE2.addrOf cfg lv K1 w j = some a → SSE2.addr cfg lv K1 w (j : Int) = .ok a := by
    intro w j a h
    unfold SSE2.addrOf at h
    split at h
    · rename_i a' ha; cases h; exact ha
    · cases h
  have inj := SSE2.addr_inj cfg lv hl.hmac_len hl8 hu.bits K1
  have hinj : SSE2.AddrInj cfg lv K1 db := by
    intro w ids i w' ids' i' a h1 h2 hi hi' he he'
    have := inj w w' (1 + i) (1 + i') a (hvalid _ h1) (hvalid _ h2) (addrOf_ok _ _ _ he) (addrOf_ok _ _ _ he')
    exact ⟨this.1, by omega⟩
  unfold SSE2.setup at hs
  simp only [bind, Except.bind] at hs
  split at hs
  · cases hs
  · rename_i r hr
    obtain ⟨I0, cnt⟩ := r
    have hI : I = I0 := by
      simp only at hs
      split at hs
      · have hcap' : ∀ p ∈ cnt, p.2 ≤ cfg.max := fun p hp => by
          have := SSE2.encDb_cnt cfg lv K1 db [] [] [] I0 cnt hr (fun q hq => by cases hq) p hp
          simp only [List.nil_append] at this
          exact Nat.le_trans this (hcap p.1)
        rw [SSE2.fillAll_noop cfg lv K1 cnt _ I0 hcap'] at hs; cases hs; rfl
      · cases hs; rfl
    subst hI
    obtain ⟨as, h1, h2, h3⟩ := SSE2.encDb_keys cfg lv K1 db [] [] I cnt hr hkeys hinj (fun a _ => by simp)
    simp only [List.map_nil, List.nil_append] at h1
    refine ⟨by rw [← h2, ← h1, List.length_map], ?_⟩
    intro e he
    have hmem : e.1 ∈ as := by rw [← h1]; exact List.mem_map.mpr ⟨e, he, rfl⟩
    obtain ⟨w, ids, i, _, _, hao⟩ := h3 e.1 hmem
    obtain ⟨_, hsp⟩ := SSE2.addr_spec cfg lv hl.hmac_len hl8 hu.bits K1
    obtain ⟨out, ov, ol, _, _, owf⟩ := hsp w (1 + i) e.1 (addrOf_ok _ _ _ hao)
    unfold Bitset.WF at owf
    rw [ov, ol] at owf
    exact owf

/-- two databases with the same number of postings give SSE-2 indexes with the same number of entries -/
theorem SSE2.shape_indistinguishable (raw : RawCfg) (cfg : SSE2Cfg) (hcfg : SSE2.cfgBuild raw = .ok cfg) (lv : Leaves)
    (hl : LeafLaws lv) (K1 K1' : Bytes) (db db' : DB) (I I' : ITable)
    (hs : SSE2.setup cfg lv K1 db = .ok I) (hs' : SSE2.setup cfg lv K1' db' = .ok I')
    (hkeys : (db.map (·.1)).Nodup) (hkeys' : (db'.map (·.1)).Nodup)
    (hvalid : ∀ p ∈ db, NoLeadingNul p.1) (hvalid' : ∀ p ∈ db', NoLeadingNul p.1)
    (hcap : ∀ id, (db.flatMap (·.2)).count id ≤ cfg.max) (hcap' : ∀ id, (db'.flatMap (·.2)).count id ≤ cfg.max)
    (hN : db.total = db'.total) : I.length = I'.length := by
  rw [(SSE2.shape raw cfg hcfg lv hl K1 db I hs hkeys hvalid hcap).1,
    (SSE2.shape raw cfg hcfg lv hl K1' db' I' hs' hkeys' hvalid' hcap').1, hN]

/-- PiPtr (schemes/CJJ14/PiPtr): THE INDEX SHAPE IS A FUNCTION OF (blocks, pointer blocks) — the array has
    `Σ_w ⌈|DB(w)|/B⌉ + 1` cells and every occupied cell has the ciphertext length of a FULL block of `B` identifiers (the last,
    partly filled block of a keyword included: it is padded before it is encrypted); the dictionary has one entry per
    pointer block, `Σ_w ⌈⌈|DB(w)|/B⌉/b⌉` of them, each a label of the PRF's output length and the ciphertext of a full block
    of `b` pointers of `⌈log2 |A| / 8⌉` bytes.  For every accepted configuration, key, database of identifiers of the
    configured size and tape; hypothesis on the run: the dictionary labels are pairwise distinct (no PRF collision —
    evaluated by the driver). -/
theorem PiPtr.shape (raw : RawCfg) (cfg : PiPtrCfg) (hcfg : PiPtr.cfgBuild raw = .ok cfg) (lv : Leaves) (hl : LeafLaws lv)
    (hh : cfg.prfF.hashLen = 20) (K : Bytes) (db : DB) (t t' : Tape) (edb : PiPtrEDB)
    (h : PiPtr.setup cfg lv K db t = .ok (edb, t'))
    (hids : ∀ p ∈ db, ∀ id ∈ p.2, id.length = cfg.idSize.toNat)
    (hn : ∀ sample t0 L A t1, takeNats t = .ok (sample, t0) →
      PiPtr.encDb cfg lv K (bytesFor (PiPtr.arrayLen cfg db)) db sample (List.replicate (PiPtr.arrayLen cfg db) none) t0
        = .ok (L, A, t1) → (L.map (·.1)).Nodup) :
    edb.A.length = PiPtr.arrayLen cfg db ∧
    (∀ c, some c ∈ edb.A → c.length = PiPtr.clen (cfg.B.toNat * cfg.idSize.toNat)) ∧
    (edb.D.map fun p => (p.1.length, p.2.length)).Perm
      (List.replicate (PiPtr.nPtrBlocks cfg db)
        (cfg.prfF.outputLength.toNat, PiPtr.clen (cfg.b.toNat * bytesFor (PiPtr.arrayLen cfg db)))) := by
  obtain ⟨pB, pb, pI, _⟩ := PiPtr.cfgBuild_ok cfg raw hcfg
  exact PiPtr.setup_shape cfg lv hl.enc_len (by rw [hh]; exact hl.hmac_len) (by rw [hh]; decide) pB pb pI K db t t' edb h hids hn

/-- two databases with the same number of identifier blocks and of pointer blocks give identically shaped PiPtr indexes —
    whatever their keywords, contents and list lengths -/
theorem PiPtr.shape_indistinguishable (raw : RawCfg) (cfg : PiPtrCfg) (hcfg : PiPtr.cfgBuild raw = .ok cfg) (lv : Leaves)
    (hl : LeafLaws lv) (hh : cfg.prfF.hashLen = 20) (K K' : Bytes) (db db' : DB) (t t' u u' : Tape) (e e' : PiPtrEDB)
    (h : PiPtr.setup cfg lv K db t = .ok (e, t')) (h' : PiPtr.setup cfg lv K' db' u = .ok (e', u'))
    (hids : ∀ p ∈ db, ∀ id ∈ p.2, id.length = cfg.idSize.toNat)
    (hids' : ∀ p ∈ db', ∀ id ∈ p.2, id.length = cfg.idSize.toNat)
    (hn : ∀ sample t0 L A t1, takeNats t = .ok (sample, t0) →
      PiPtr.encDb cfg lv K (bytesFor (PiPtr.arrayLen cfg db)) db sample (List.replicate (PiPtr.arrayLen cfg db) none) t0
        = .ok (L, A, t1) → (L.map (·.1)).Nodup)
    (hn' : ∀ sample t0 L A t1, takeNats u = .ok (sample, t0) →
      PiPtr.encDb cfg lv K' (bytesFor (PiPtr.arrayLen cfg db')) db' sample (List.replicate (PiPtr.arrayLen cfg db') none) t0
        = .ok (L, A, t1) → (L.map (·.1)).Nodup)
    (hA : PiPtr.arrayLen cfg db = PiPtr.arrayLen cfg db') (hP : PiPtr.nPtrBlocks cfg db = PiPtr.nPtrBlocks cfg db') :
    e.A.length = e'.A.length ∧
    (∀ c c', some c ∈ e.A → some c' ∈ e'.A → c.length = c'.length) ∧
    (e.D.map fun p => (p.1.length, p.2.length)).Perm (e'.D.map fun p => (p.1.length, p.2.length)) := by
  obtain ⟨a1, a2, a3⟩ := PiPtr.shape raw cfg hcfg lv hl hh K db t t' e h hids hn
  obtain ⟨b1, b2, b3⟩ := PiPtr.shape raw cfg hcfg lv hl hh K' db' u u' e' h' hids' hn'
  refine ⟨by rw [a1, b1, hA], fun c c' hc hc' => by rw [a2 c hc, b2 c' hc'], ?_⟩
  rw [hA, hP] at a3
  exact a3.trans b3.symm

/-- Pi2Lev (schemes/CJJ14/Pi2Lev): THE INDEX SHAPE IS A FUNCTION OF (keywords, array length) — the array has `arrayLen` cells
    and every occupied cell has the ciphertext length of `mark ‖ block` for a block of exactly `B · idsize` bytes, whether it
    holds identifiers, first-level pointers or second-level pointers (all are padded to the array block before they are
    encrypted); the dictionary has one entry per keyword, each a label of the PRF's output length and the ciphertext of
    `mark ‖ content` padded to `b · idsize` bytes — a small list, a pointer list (at most `b'` pointers of
    `⌊b·idsize / b'⌋` bytes) and a second-level pointer list all fit that block, which is proved from the three size classes
    of `_Enc`.  For every accepted configuration with a positive pointer width, key, database of identifiers of the
    configured size and tape; hypothesis on the run: pairwise distinct dictionary labels (evaluated by the driver). -/
theorem Pi2Lev.shape (raw : RawCfg) (cfg : Pi2LevCfg) (hcfg : Pi2Lev.cfgBuild raw = .ok cfg) (hidx : 0 < cfg.idxSize)
    (lv : Leaves) (hl : LeafLaws lv) (hh : cfg.prfF.hashLen = 20) (K : Bytes) (db : DB) (t t' : Tape) (edb : PiPtrEDB)
    (h : Pi2Lev.setup cfg lv K db t = .ok (edb, t'))
    (hids : ∀ p ∈ db, ∀ id ∈ p.2, id.length = cfg.idSize.toNat)
    (hn : ∀ sample t0 L A t1, takeNats t = .ok (sample, t0) →
      Pi2Lev.encDb cfg lv K db sample (List.replicate (Pi2Lev.arrayLen cfg db) none) t0 = .ok (L, A, t1) →
      (L.map (·.1)).Nodup) :
    edb.A.length = Pi2Lev.arrayLen cfg db ∧
    (∀ c, some c ∈ edb.A → c.length = PiPtr.clen (1 + (cfg.B * cfg.idSize).toNat)) ∧
    (edb.D.map fun p => (p.1.length, p.2.length)).Perm
      (List.replicate db.length (cfg.prfF.outputLength.toNat, PiPtr.clen (1 + (cfg.b * cfg.idSize).toNat))) := by
  obtain ⟨hg, _⟩ := Pi2Lev.cfgBuild_ok cfg raw hcfg hidx
  exact Pi2Lev.setup_shape cfg lv hl.enc_len (by rw [hh]; exact hl.hmac_len) (by rw [hh]; decide) hg K db t t' edb h hids hn

/-- two databases with the same number of keywords and the same array length give identically shaped Pi2Lev indexes —
    whatever their keywords, contents and list lengths (small, medium and large lists are indistinguishable by shape) -/
theorem Pi2Lev.shape_indistinguishable (raw : RawCfg) (cfg : Pi2LevCfg) (hcfg : Pi2Lev.cfgBuild raw = .ok cfg)
    (hidx : 0 < cfg.idxSize) (lv : Leaves) (hl : LeafLaws lv) (hh : cfg.prfF.hashLen = 20) (K K' : Bytes) (db db' : DB)
    (t t' u u' : Tape) (e e' : PiPtrEDB)
    (h : Pi2Lev.setup cfg lv K db t = .ok (e, t')) (h' : Pi2Lev.setup cfg lv K' db' u = .ok (e', u'))
    (hids : ∀ p ∈ db, ∀ id ∈ p.2, id.length = cfg.idSize.toNat)
    (hids' : ∀ p ∈ db', ∀ id ∈ p.2, id.length = cfg.idSize.toNat)
    (hn : ∀ sample t0 L A t1, takeNats t = .ok (sample, t0) →
      Pi2Lev.encDb cfg lv K db sample (List.replicate (Pi2Lev.arrayLen cfg db) none) t0 = .ok (L, A, t1) →
      (L.map (·.1)).Nodup)
    (hn' : ∀ sample t0 L A t1, takeNats u = .ok (sample, t0) →
      Pi2Lev.encDb cfg lv K' db' sample (List.replicate (Pi2Lev.arrayLen cfg db') none) t0 = .ok (L, A, t1) →
      (L.map (·.1)).Nodup)
    (hA : Pi2Lev.arrayLen cfg db = Pi2Lev.arrayLen cfg db') (hW : db.length = db'.length) :
    e.A.length = e'.A.length ∧
    (∀ c c', some c ∈ e.A → some c' ∈ e'.A → c.length = c'.length) ∧
    (e.D.map fun p => (p.1.length, p.2.length)).Perm (e'.D.map fun p => (p.1.length, p.2.length)) := by
  obtain ⟨a1, a2, a3⟩ := Pi2Lev.shape raw cfg hcfg hidx lv hl hh K db t t' e h hids hn
  obtain ⟨b1, b2, b3⟩ := Pi2Lev.shape raw cfg hcfg hidx lv hl hh K' db' u u' e' h' hids' hn'
  refine ⟨by rw [a1, b1, hA], fun c c' hc hc' => by rw [a2 c hc, b2 c' hc'], ?_⟩
  rw [hW] at a3
  exact a3.trans b3.symm

/-- DP17, the hash table: EXACTLY `N` entries — one per non-empty chunk, the rest random fillers — and every key and every
    value is `param_digest_size` bytes long: the table tells `N` and nothing else.  For every configuration, key triple,
    database and tape; `d` is the digest length of the hash function.  Hypotheses on the run (evaluated by the driver): the
    `param_digest_size`-byte draws of the tape are pairwise distinct, and no chunk key `H(F_k1(w) ‖ c)` equals one of them. -/
theorem DP17.ht_shape (cfg : DP17Cfg) (lv : Leaves) (d : Nat) (hd0 : 0 < d) (hsha : ∀ m, (lv.sha m).length = d)
    (k1 k2 k3 : Bytes) (db : DB) (t t' : Tape) (edb : DP17EDB)
    (hs : DP17.setup cfg lv [k1, k2, k3] db t = .ok (edb, t'))
    (hnd : (drawsLen cfg.dsz t).Nodup)
    (hfresh : ∀ levels ls ls1 HT t1, DP17.levelsOf cfg db.total = .ok levels →
      DP17.initLevels db.total levels [] = .ok ls →
      DP17.encDb cfg lv k1 k2 levels db ls [] t = .ok (ls1, HT, t1) → ∀ g ∈ HT.map (·.1), g ∉ drawsLen cfg.dsz t) :
    edb.HT.length = db.total ∧ ∀ e ∈ edb.HT, e.1.length = cfg.dsz ∧ e.2.length = cfg.dsz :=
  DP17.setup_ht_shape cfg lv d hd0 hsha k1 k2 k3 db t t' edb hs hnd hfresh

end SSEPy.C05
