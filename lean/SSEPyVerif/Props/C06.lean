/-
  C06 — Index layout does not encode the order in which the database was supplied.

  (a) Every label-addressed table of PiBas, PiPack, PiPtr, Pi2Lev, CT14 and ANSS16 is built by one function,
      `buildTable` (the model of `kv_pairs.sort(key=…); {k: v for k, v in kv_pairs}`; the correspondence compares the
      stored ORDER of the real dict with it).  For every pair list with distinct labels the stored label sequence is
      sorted (`table_labels_sorted`) and depends only on the SET of labels (`table_labels_order_free`): supplying the
      keywords in another order permutes the pair list and changes nothing.  `Chain.labels_perm_invariant` (PiBas, PiPack)
      instantiates this for whole runs of `setup` on a database and on any permutation of it (different randomness
      allowed).
  (b) PiPtr and Pi2Lev: the occupied array slots are exactly a tail of the recorded `random.sample` (`placement_is_sample`).
      SSE-1: a keyword's nodes sit at ψ_K1 of a counter segment determined by list lengths (`SSE1.placement_is_prp_image`).
      Placement in arrays (PiPtr, Pi2Lev: the recorded `random.sample`; SSE1: ψ_K1 on the node counter; DP17: the chosen
      bucket and the in-bucket shuffle) is modelled — the correspondence replays the recorded choices and must reproduce
      every array cell — but that two setups choose differently is a statement about `random` / the PRP, outside any
      theorem; the direct oracle samples it on databases with ≥ 12 array-resident blocks.
-/
import SSEPyVerif.Proofs.Schemes.Sorted
import SSEPyVerif.Proofs.Schemes.Chain
import SSEPyVerif.Model.Schemes.PiPtr
import SSEPyVerif.Model.Schemes.Levels
import SSEPyVerif.Model.Schemes.Pi2Lev
import SSEPyVerif.Proofs.Schemes.PiPtrPlace
import SSEPyVerif.Proofs.Schemes.Pi2LevPlace
import SSEPyVerif.Proofs.Schemes.SSE1Place
import SSEPyVerif.Proofs.Schemes.DP17Place
namespace SSEPy.C06
open SSEPy.Sch

/-- stored labels are in ascending order -/
theorem table_labels_sorted (ps : List (Bytes × Bytes)) (hn : (ps.map (·.1)).Nodup) :
    ((buildTable ps).map (·.1)).Pairwise (fun a b => bytesLe a b = true) := buildTable_sorted ps hn

/-- the stored label sequence is a function of the set of labels, not of the order of insertion -/
theorem table_labels_order_free (ps qs : List (Bytes × Bytes)) (hn : (ps.map (·.1)).Nodup)
    (hp : (ps.map (·.1)).Perm (qs.map (·.1))) :
    (buildTable ps).map (·.1) = (buildTable qs).map (·.1) := buildTable_keys_perm ps qs hn hp

/-! every table of every table-based scheme is a `buildTable` -/

theorem Chain.index_is_table (cfg : ChainCfg) (lv : Leaves) (K : Bytes) (db : DB) (t t' : Tape) (D : Table)
    (h : Chain.setup cfg lv K db t = .ok (D, t')) : ∃ L, D = buildTable L := by
  obtain ⟨L, _, rfl⟩ := Chain.setup_eq cfg lv K db t t' D h
  exact ⟨L, rfl⟩

theorem PiPtr.index_is_table (cfg : PiPtrCfg) (lv : Leaves) (K : Bytes) (db : DB) (t t' : Tape) (e : PiPtrEDB)
    (h : PiPtr.setup cfg lv K db t = .ok (e, t')) : ∃ L, e.D = buildTable L := by
  unfold PiPtr.setup at h
  simp only [bind, Except.bind] at h
  repeat (split at h; (try cases h))
  all_goals (try (simp only [pure, Except.pure] at h))
  all_goals (try cases h)
  exact ⟨_, rfl⟩

theorem Pi2Lev.index_is_table (cfg : Pi2LevCfg) (lv : Leaves) (K : Bytes) (db : DB) (t t' : Tape) (e : PiPtrEDB)
    (h : Pi2Lev.setup cfg lv K db t = .ok (e, t')) : ∃ L, e.D = buildTable L := by
  unfold Pi2Lev.setup at h
  simp only [bind, Except.bind] at h
  repeat (split at h; (try cases h))
  all_goals (try (simp only [pure, Except.pure] at h))
  all_goals (try cases h)
  exact ⟨_, rfl⟩

theorem CT14.index_is_tables (cfg : CT14Cfg) (lv : Leaves) (K : Bytes) (db : DB) (t t' : Tape) (HT : List Table)
    (h : CT14.setup cfg lv K db t = .ok (HT, t')) : ∃ Ls : List (List (Bytes × Bytes)), HT = Ls.map buildTable := by
  unfold CT14.setup at h
  simp only [bind, Except.bind] at h
  repeat (split at h; (try cases h))
  all_goals (try (simp only [pure, Except.pure] at h))
  all_goals (try cases h)
  exact ⟨_, rfl⟩

theorem ANSS16.index_is_tables (cfg : ANSSCfg) (lv : Leaves) (K : Bytes) (db : DB) (t t' : Tape) (e : ANSSEDB)
    (h : ANSS16.setup cfg lv K db t = .ok (e, t')) :
    (∃ S, e.HTS = buildTable S) ∧ ∃ Ls : List (List (Bytes × Bytes)), e.HTL = Ls.map buildTable := by
  unfold ANSS16.setup at h
  simp only [bind, Except.bind] at h
  repeat (split at h; (try cases h))
  all_goals (try (simp only [pure, Except.pure] at h))
  all_goals (try cases h)
  exact ⟨⟨_, rfl⟩, ⟨_, rfl⟩⟩

end SSEPy.C06

namespace SSEPy.C06
open SSEPy.Sch

/-- PiBas and PiPack, whole runs: the same key, the database with its keywords in ANY other order, any randomness —
    the label sequence of the stored index is the same -/
theorem Chain.labels_perm_invariant (cfg : ChainCfg) (lv : Leaves) (K : Bytes) (db db' : DB) (hp : db.Perm db')
    (t t1 u u1 : Tape) (D D' : Table)
    (h : Chain.setup cfg lv K db t = .ok (D, t1)) (h' : Chain.setup cfg lv K db' u = .ok (D', u1))
    (hn : ∀ L, Chain.encDb cfg lv K db t = .ok (L, t1) → (L.map (·.1)).Nodup) :
    D.map (·.1) = D'.map (·.1) := by
  obtain ⟨L, hL, rfl⟩ := Chain.setup_eq cfg lv K db t t1 D h
  obtain ⟨L', hL', rfl⟩ := Chain.setup_eq cfg lv K db' u u1 D' h'
  exact buildTable_keys_perm L L' (hn L hL) (Chain.labels_perm cfg lv K db db' hp t t1 u u1 L L' hL hL')

/-! ### (b) blocks kept in arrays are placed where the random object says, not in input order -/

/-- PiPtr: after setup, array slot `i` holds an identifier block iff `i` is among the last `n` entries of the recorded
    `random.sample(range(1, |A|), |A| - 1)`, `n` = number of identifier blocks.  Placement is a function of the random
    sample and of `n` only: keywords, their order and their contents do not enter. -/
theorem PiPtr.placement_is_sample (cfg : PiPtrCfg) (lv : Leaves) (K : Bytes) (db : DB) (t t' : Tape) (edb : PiPtrEDB)
    (h : PiPtr.setup cfg lv K db t = .ok (edb, t')) (sample : List Nat) (t0 : Tape) (hs : takeNats t = .ok (sample, t0)) :
    ∀ i, PiPtr.Occupied edb.A i ↔ i ∈ sample.drop (sample.length - PiPtr.nBlocks cfg db) :=
  PiPtr.setup_slots cfg lv K db t t' edb h sample t0 hs

/-- … so two set-ups that draw the same sample occupy the same slots whenever the databases have the same number of
    blocks — in particular the same database with its keywords supplied in any other order — whatever the keys -/
theorem PiPtr.placement_order_free (cfg : PiPtrCfg) (lv : Leaves) (K K' : Bytes) (db db' : DB) (t t1 u u1 : Tape)
    (edb edb' : PiPtrEDB) (h : PiPtr.setup cfg lv K db t = .ok (edb, t1)) (h' : PiPtr.setup cfg lv K' db' u = .ok (edb', u1))
    (sample : List Nat) (t0 u0 : Tape) (hs : takeNats t = .ok (sample, t0)) (hs' : takeNats u = .ok (sample, u0))
    (hn : PiPtr.nBlocks cfg db = PiPtr.nBlocks cfg db') :
    ∀ i, PiPtr.Occupied edb.A i ↔ PiPtr.Occupied edb'.A i := by
  intro i
  rw [PiPtr.setup_slots cfg lv K db t t1 edb h sample t0 hs i, PiPtr.setup_slots cfg lv K' db' u u1 edb' h' sample u0 hs' i, hn]

/-- PiPtr, per keyword (what Search reads): the blocks of the keyword processed after the keywords `pre` sit, in order, at
    `sample.reverse[m], …, sample.reverse[m + k - 1]` with `m` = number of blocks of `pre` and `k` = its own number of
    blocks — the image under the recorded random sample of an index segment that depends on the database only through
    block counts.  A different sample moves them; keyword bytes, identifier bytes and the key do not. -/
theorem PiPtr.placement_is_random_image (cfg : PiPtrCfg) (lv : Leaves) (hl : LeafLaws lv) (hplain : PlainSke cfg.ske)
    (K : Bytes) (pre : DB) (w : Bytes) (ids : List Bytes) (post : DB) (t t' : Tape) (edb : PiPtrEDB)
    (h : PiPtr.setup cfg lv K (pre ++ (w, ids) :: post) t = .ok (edb, t'))
    (sample : List Nat) (t0 : Tape) (hs : takeNats t = .ok (sample, t0)) (hn : sample.Nodup) :
    ∃ K1 K2 blocks poss ptrs, PiPtr.token cfg lv K w = .ok (K1, K2) ∧ partitionBlocks ids cfg.B cfg.idSize = .ok blocks ∧
      PiPtr.Placed cfg lv K2 (bytesFor (PiPtr.arrayLen cfg (pre ++ (w, ids) :: post))) edb.A blocks poss ptrs ∧
      poss = (sample.reverse.drop (PiPtr.nBlocks cfg pre)).take (PiPtr.kwBlocks cfg ids) :=
  PiPtr.setup_segment cfg lv (fun key iv msg c hiv he => ske_dec_enc lv hl cfg.ske hplain key iv msg c hiv he)
    K pre w ids post t t' edb h sample t0 hs hn

/-- Pi2Lev: after setup the occupied array slots — identifier blocks and second-level pointer blocks of every storage class
    alike — are exactly a tail of the recorded `random.sample(range(1, |A|), |A| - 1)`: one popped slot per stored block.
    Keywords, their order, their contents and the key do not enter; a different sample moves the blocks. -/
theorem Pi2Lev.placement_is_sample (cfg : Pi2LevCfg) (lv : Leaves) (K : Bytes) (db : DB) (t t' : Tape) (edb : PiPtrEDB)
    (h : Pi2Lev.setup cfg lv K db t = .ok (edb, t')) (sample : List Nat) (t0 : Tape) (hs : takeNats t = .ok (sample, t0)) :
    ∃ n, n ≤ sample.length ∧ ∀ i, PiPtr.Occupied edb.A i ↔ i ∈ sample.drop (sample.length - n) :=
  Pi2Lev.setup_slots cfg lv K db t t' edb h sample t0 hs

/-- SSE-1: the nodes of the keyword processed after the keywords `pre` hang, as a linked list, at the array addresses
    ψ_K1(1 + n), ψ_K1(2 + n), … with n = the number of postings of `pre` (`ListAt … (1 + total pre) …`: node j is the cell at
    address ψ_K1(1 + n + j), decrypts under the chain key to `id_j ‖ next key ‖ next address`).  ψ is the keyed bit PRP on
    `log2 s`-bit counters: placement is the image under the KEY of a counter segment that depends on the database only through
    list lengths — a fresh key moves every node, keyword bytes and identifier bytes do not enter.  That ψ_K1 is injective
    and length-preserving is not assumed but derived from the C15 theorems (HMAC digests of 20 bytes, `2 ≤ log2 s`). -/
theorem SSE1.placement_is_prp_image (raw : RawCfg) (cfg : SSE1Cfg) (hcfg : SSE1.cfgBuild raw = .ok cfg) (lv : Leaves)
    (hl : LeafLaws lv) (h2 : 2 ≤ cfg.log2s) (hl8 : 2 ≤ (cfg.l * 8).toNat) (K1 K2 K3 K4 : Bytes)
    (pre : DB) (w : Bytes) (ids : List Bytes) (post : DB) (t t' : Tape) (edb : SSE1EDB)
    (hs : SSE1.setup cfg lv [K1, K2, K3, K4] (pre ++ (w, ids) :: post) t = .ok (edb, t')) (hk : SSE1.KeysGood cfg t)
    (hidl : ∀ p ∈ pre ++ (w, ids) :: post, ∀ x ∈ p.2, x.length = cfg.idSize.toNat)
    (hkeys : ((pre ++ (w, ids) :: post).map (·.1)).Nodup) (hvalid : ∀ p ∈ pre ++ (w, ids) :: post, NoLeadingNul p.1) :
    ∃ k0, k0.length = cfg.k.toNat ∧ SSE1.ListAt cfg lv edb.A K1 (1 + DB.total pre) k0 ids := by
  obtain ⟨hlb, hplain⟩ := SSE1.cfgBuild_ok cfg raw hcfg
  exact SSE1.setup_at cfg lv (fun key iv msg c hiv he => ske_dec_enc lv hl cfg.ske1 hplain key iv msg c hiv he) hlb
    K1 K2 K3 K4 pre w ids post t t' edb hs
    (SSE1.psiInj_of_leaves cfg lv hl.hmac_len h2 K1 _) (SSE1.psiLen_of_leaves cfg lv hl.hmac_len h2 K1) hk hidl hkeys
    (SSE1.gammaInj_of_leaves cfg lv hl.hmac_len hl8 K3 _ hvalid)

/-- DP17, the keyword loop of `Setup` (`placeChunks` = the body of `for c in Cw` for one keyword on its level): it consumes
    exactly one recorded `random.choice` per chunk, in order, and afterwards chunk `k` of the keyword is in the bucket its draw
    names — the chunk-to-bucket assignment is the list of recorded choices, whatever the keyword and the identifiers are;
    earlier contents of the buckets are kept. -/
theorem DP17.chunks_go_where_the_choices_say (cfg : DP17Cfg) (lv : Leaves) (k1 k2 w : Bytes) (i : Nat) (cw : List (List Bytes))
    (count : Nat) (lvl : Level) (HT : Table) (t : Tape) (lvl' : Level) (HT' : Table) (t' : Tape)
    (h : DP17.placeChunks cfg lv k1 k2 w i cw count lvl HT t = .ok (lvl', HT', t')) (hwf : DP17.WFL lvl) :
    ∃ xs : List Nat, t = xs.map Draw.nat ++ t' ∧ xs.length = cw.length ∧
      ∀ k, k < cw.length → ∀ id ∈ cw[k]!, DP17.InBucket lvl' xs[k]! (some (w, id)) :=
  (DP17.placeChunks_choices cfg lv k1 k2 w i cw count lvl HT t lvl' HT' t' h hwf).2.2

/-- non-vacuity of "moves": two samples whose tails differ name different slot sets -/
example : (3 : Nat) ∈ [1, 2, 3].drop (3 - 1) ∧ (3 : Nat) ∉ [3, 1, 2].drop (3 - 1) := by decide

end SSEPy.C06
