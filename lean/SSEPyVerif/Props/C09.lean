/-
  C09 — End to end: results delivered through client and server equal the local answer.

  The composed model: the client program extracted from frontend/client/** (run with a `Service` object freshly loaded
  from disk for every command — i.e. the client is re-created between ANY two steps), the reference server (which the
  extracted server program refines: C10), and server restarts (all connection objects dropped, the disk kept) inserted
  anywhere.  A delivered result is `(e, k)`: the index that answered was built under key `e`, the token under key `k`.
  By C01/C02 (a scheme searched with a token of the key its index was built under returns exactly DB.get(w)) and C03
  (the objects survive the wire), the delivered bytes deserialize to DB.get(w, []) iff `e = k` = the key on the
  client's disk.  Theorems: that is what every history delivers.
-/
import SSEPyVerif.Props.C11
namespace SSEPy.C09
open SSEPy.ClientIR SSEPy.ServerIR

/-- a server restart: connections are gone, the durable state stays -/
def restartW (w : World) : World := { w with server := { w.server with alive := false } }

inductive Step where
  | cmd (c : Cmd)
  | restart
  deriving DecidableEq, Repr

def runSteps (p : ClientIR.Program) : World → List Step → World × List COut
  | w, [] => (w, [])
  | w, .cmd c :: rest => let r := runCmd p w c; let q := runSteps p r.1 rest; (q.1, r.2 :: q.2)
  | w, .restart :: rest => runSteps p (restartW w) rest

def AS.restart : AS → AS
  | .fresh _ n => .fresh false n
  | .mid c ks up _ n => .mid c ks up false n
  | .done c k n => .done c k n

theorem restart_abstract (a : AS) : restartW a.world = (AS.restart a).world := by
  cases a with
  | fresh alive n => rfl
  | mid c ks up alive n => cases up <;> rfl
  | done c k n => rfl

def AS.runSteps : AS → List Step → AS × List COut
  | a, [] => (a, [])
  | a, .cmd c :: rest => let q := AS.runSteps (a.step c).1 rest; (q.1, (a.step c).2 :: q.2)
  | a, .restart :: rest => AS.runSteps (AS.restart a) rest

theorem runSteps_abstract (a : AS) (steps : List Step) :
    runSteps expectedClient a.world steps = ((AS.runSteps a steps).1.world, (AS.runSteps a steps).2) := by
  induction steps generalizing a with
  | nil => rfl
  | cons s rest ih =>
    cases s with
    | cmd c => simp only [runSteps, AS.runSteps, runCmd_world, ih]
    | restart => simp only [runSteps, AS.runSteps, restart_abstract, ih]

/-- EVERY history of client commands and server restarts: whatever result is ever delivered comes from an index and a
    token of the same key -/
theorem delivered_results_are_correct (steps : List Step) (e k : Nat)
    (hm : COut.result e k ∈ (runSteps SSEPy.Generated.clientProgram {} steps).2) : e = k := by
  rw [C11.program_is_expected, world_init, runSteps_abstract] at hm
  simp only at hm
  generalize AS.fresh false 1 = a at hm
  induction steps generalizing a with
  | nil => simp [AS.runSteps] at hm
  | cons s rest ih =>
    cases s with
    | restart => exact ih _ hm
    | cmd c =>
      simp only [AS.runSteps, List.mem_cons] at hm
      rcases hm with hm | hm
      · cases a with
        | fresh alive n => cases c with
          | create c v => cases v <;> cases hm
          | _ => cases hm
        | mid c' ks up alive n =>
          cases c with
          | create c'' v => cases v <;> cases ks <;> cases up <;> cases hm
          | _ => cases ks <;> cases up <;> cases hm
        | done c' k' n => cases c with
          | create c'' v => cases v <;> cases hm
          | search => cases hm; rfl
          | _ => cases hm
      · exact ih _ hm

/-- the documented workflow with a server restart (or not) after every step — all 2^6 placements — and the client
    re-created at every step: every step is accepted and the search delivers the result of the uploaded index under the
    key on disk -/
theorem workflow_with_restarts_anywhere (cfg : Cfg) (r0 r1 r2 r3 r4 r5 : Bool) :
    let R := fun (b : Bool) => if b then [Step.restart] else []
    (runSteps SSEPy.Generated.clientProgram {}
        (R r0 ++ [.cmd (.create cfg true)] ++ R r1 ++ [.cmd .key] ++ R r2 ++ [.cmd .encrypt] ++ R r3 ++
         [.cmd .uploadConfig] ++ R r4 ++ [.cmd .uploadEdb] ++ R r5 ++ [.cmd .search, .restart, .cmd .search])).2
      = [.ok, .ok, .ok, .ok, .ok, .result 1 1, .result 1 1] := by
  intro R
  rw [C11.program_is_expected, world_init, runSteps_abstract]
  cases r0 <;> cases r1 <;> cases r2 <;> cases r3 <;> cases r4 <;> cases r5 <;>
    simp [R, AS.runSteps, AS.step, AS.restart]

/-- once the index is uploaded, searches keep delivering the right result through any further commands and restarts -/
theorem searchable_through_restarts {w : World} (h : C11.Reach w) (hd : (C11.flags w).dbUploaded = true)
    (steps : List Step) :
    ∃ k, (runSteps SSEPy.Generated.clientProgram w (steps ++ [.cmd .search])).2.getLast? = some (.result k k) := by
  obtain ⟨a, rfl⟩ := C11.reach_abstract h
  rw [C11.program_is_expected, runSteps_abstract]
  cases a with
  | fresh alive n => cases hd
  | mid c ks up alive n => cases hd
  | done c k n =>
    refine ⟨k, ?_⟩
    have key : ∀ steps : List Step, (AS.runSteps (.done c k n) steps).1 = .done c k n := by
      intro steps
      induction steps with
      | nil => rfl
      | cons s rest ih =>
        cases s with
        | restart => exact ih
        | cmd cmd => cases cmd <;> exact ih
    have app : ∀ (a : AS) (xs ys : List Step), (AS.runSteps a (xs ++ ys)).2 =
        (AS.runSteps a xs).2 ++ (AS.runSteps (AS.runSteps a xs).1 ys).2 := by
      intro a xs ys
      induction xs generalizing a with
      | nil => rfl
      | cons s rest ih =>
        cases s with
        | restart => exact ih _
        | cmd cmd => simp [AS.runSteps, ih]
    simp only [app, key]
    simp [AS.runSteps, AS.step]

end SSEPy.C09
