/-
  C20 — Persistent byte dictionaries behave like a dict and survive close/reopen.
  Reference model: the finite map `absMap d : Bytes → Option Bytes` (plus the key order of a Python dict).
-/
import SSEPyVerif.Model.PDict
namespace SSEPy.C20
open SSEPy.PDict

/-- the abstract finite map a dictionary denotes -/
def absMap (d : PDict) : Bytes → Option Bytes := fun k => lookup k d.data

theorem lookup_insert (a : Assoc) (k v k' : Bytes) :
    lookup k' (dinsert k v a) = if k' = k then some v else lookup k' a := by
  induction a with
  | nil => simp only [dinsert, lookup]; by_cases h : k = k' <;> simp [h, eq_comm]
  | cons p rest ih =>
    obtain ⟨pk, pv⟩ := p
    simp only [dinsert]
    by_cases hp : pk = k
    · subst hp
      simp only [↓reduceIte, lookup]
      by_cases h : pk = k'
      · simp [h]
      · have : ¬ k' = pk := fun e => h e.symm
        simp [h, this]
    · simp only [hp, ↓reduceIte, lookup, ih]
      by_cases h : pk = k'
      · subst h; simp [hp]
      · simp [h]

theorem lookup_erase (a : Assoc) (hwf : WF a) (k k' : Bytes) :
    lookup k' (derase k a) = if k' = k then none else lookup k' a := by
  induction a with
  | nil => simp [derase, lookup]
  | cons p rest ih =>
    obtain ⟨pk, pv⟩ := p
    have hwf' : WF rest := (List.nodup_cons.mp hwf).2
    have hnot : pk ∉ rest.map Prod.fst := (List.nodup_cons.mp hwf).1
    have hmiss : ∀ r : Assoc, pk ∉ r.map Prod.fst → lookup pk r = none := by
      intro r hr
      induction r with
      | nil => rfl
      | cons q qs ihq =>
        simp only [List.map_cons, List.mem_cons, not_or] at hr
        simp only [lookup]
        rw [if_neg (fun h => hr.1 h.symm)]
        exact ihq hr.2
    simp only [derase]
    by_cases hp : pk = k
    · subst hp
      simp only [↓reduceIte, lookup]
      by_cases h : pk = k'
      · subst h; simp [hmiss rest hnot]
      · have : ¬ k' = pk := fun e => h e.symm
        simp [h, this]
    · simp only [hp, ↓reduceIte, lookup, ih hwf']
      by_cases h : pk = k'
      · subst h; simp [hp]
      · simp [h]

theorem wf_insert (a : Assoc) (h : WF a) (k v : Bytes) : WF (dinsert k v a) := by
  have hk : ∀ a : Assoc, (dinsert k v a).map Prod.fst = if k ∈ a.map Prod.fst then a.map Prod.fst else a.map Prod.fst ++ [k] := by
    intro a
    induction a with
    | nil => simp [dinsert]
    | cons p rest ih =>
      obtain ⟨pk, pv⟩ := p
      simp only [dinsert]
      by_cases hp : pk = k
      · subst hp; simp
      · have : ¬ k = pk := fun e => hp e.symm
        simp only [hp, ↓reduceIte, List.map_cons, ih, List.mem_cons, this, false_or]
        split <;> simp
  unfold WF
  rw [hk]
  split
  · exact h
  · rename_i hn
    rw [List.nodup_append]
    exact ⟨h, by simp, fun x hx y hy => by simp at hy; subst hy; intro e; subst e; exact hn hx⟩

theorem wf_erase (a : Assoc) (h : WF a) (k : Bytes) : WF (derase k a) := by
  induction a with
  | nil => exact h
  | cons p rest ih =>
    obtain ⟨pk, pv⟩ := p
    have h' := List.nodup_cons.mp h
    simp only [derase]
    split
    · exact h'.2
    · have hsub : ∀ x ∈ (derase k rest).map Prod.fst, x ∈ rest.map Prod.fst := by
        intro x hx
        clear ih h h'
        induction rest with
        | nil => simp [derase] at hx
        | cons q qs ihq =>
          simp only [derase] at hx
          split at hx
          · simp [hx]
          · simp only [List.map_cons, List.mem_cons] at hx ⊢
            rcases hx with hx | hx
            · exact Or.inl hx
            · exact Or.inr (ihq hx)
      exact List.nodup_cons.mpr ⟨fun hm => h'.1 (hsub pk hm), ih h'.2⟩

/-- well-formedness (unique keys) is an invariant of every operation -/
theorem step_wf (d : PDict) (op : Op) (h : WF d.data) : WF (step d op).1.data := by
  unfold step
  cases op with
  | set k v =>
    cases v with
    | nonBytes => exact h
    | bytes b => simp only; split; exact h; exact wf_insert _ h _ _
  | close => simp only; split <;> exact h
  | get k => simp only; split; exact h; split <;> exact h
  | del k =>
    simp only; split; exact h
    split
    · exact wf_erase _ h _
    · exact h
  | contains k => simp only; split <;> exact h
  | len => simp only; split <;> exact h
  | iter => simp only; split <;> exact h
  | getd k dflt => simp only; split <;> exact h
  | clear => simp only; split; exact h; simp [WF]
  | sync => simp only; split <;> exact h

/-- Every observation of an open dictionary is the finite map's, and every accepted mutation is the
    corresponding update of the finite map: this is the refinement to `Key → Option Val`. -/
theorem refines_map (d : PDict) (hopen : d.closed = false) (hwf : WF d.data) (k : Bytes) :
    -- get / membership / get-with-default / len / iteration
    (step d (.get k)).2 = (match absMap d k with | some v => Out.val v | none => Out.err .keyError) ∧
    (step d (.contains k)).2 = .bool (absMap d k).isSome ∧
    (∀ dflt, (step d (.getd k dflt)).2 = .optVal ((absMap d k).or dflt)) ∧
    (step d .len).2 = .nat (d.data.map Prod.fst).length ∧
    (step d .iter).2 = .keys (d.data.map Prod.fst) ∧
    -- set / delete / clear as updates of the map
    (∀ b, absMap (step d (.set k (.bytes b))).1 = fun k' => if k' = k then some b else absMap d k') ∧
    (absMap (step d (.del k)).1 = fun k' => if k' = k then none else absMap d k') ∧
    ((step d (.del k)).2 = (if (absMap d k).isSome then Out.unit else Out.err .keyError)) ∧
    (absMap (step d .clear).1 = fun _ => none) := by
  unfold absMap
  refine ⟨?_, ?_, ?_, ?_, ?_, ?_, ?_, ?_, ?_⟩
  · simp only [step, hopen, Bool.false_eq_true, ↓reduceIte]; cases lookup k d.data <;> rfl
  · simp [step, hopen]
  · intro dflt; simp [step, hopen]
  · simp [step, hopen]
  · simp [step, hopen]
  · intro b; funext k'; simp only [step, hopen, Bool.false_eq_true, ↓reduceIte]; exact lookup_insert _ _ _ _
  · funext k'
    simp only [step, hopen, Bool.false_eq_true, ↓reduceIte]
    cases hl : lookup k d.data with
    | some v => simp only; exact lookup_erase _ hwf _ _
    | none =>
      simp only
      by_cases hk : k' = k
      · subst hk; simp [hl]
      · simp [hk]
  · simp only [step, hopen, Bool.false_eq_true, ↓reduceIte]; cases lookup k d.data <;> rfl
  · funext k'; simp [step, hopen, lookup]

/-- values that are not byte strings are refused without effect (open or closed) -/
theorem non_bytes_refused_noop (d : PDict) (k : Bytes) :
    step d (.set k .nonBytes) = (d, .err .typeError) := rfl

/-- after close followed by open the contents are exactly those at the time of closing — for every
    history before the close -/
theorem reopen_contents_eq_at_close (d : PDict) (hopen : d.closed = false) :
    reopen (step d .close).1 = .ok { data := d.data, closed := false, disk := some d.data } := by
  simp [step, hopen, reopen]

/-- … and sync writes exactly the current contents -/
theorem sync_persists (d : PDict) (hopen : d.closed = false) : (step d .sync).1.disk = some d.data := by
  simp [step, hopen]

/-- using a closed dictionary raises ValueError (closing again is allowed; a non-bytes value is still
    a TypeError) and changes nothing -/
theorem closed_ops_raise (d : PDict) (hc : d.closed = true) (op : Op) :
    (step d op).1 = d ∧
    (step d op).2 = (match op with
      | .close => .unit
      | .set _ .nonBytes => .err .typeError
      | _ => .err .valueError) := by
  unfold step
  cases op with
  | set k v => cases v <;> simp [hc]
  | close => simp [hc]
  | get k => simp [hc]
  | del k => simp [hc]
  | contains k => simp [hc]
  | len => simp [hc]
  | iter => simp [hc]
  | getd k dflt => simp [hc]
  | clear => simp [hc]
  | sync => simp [hc]

/-- a dictionary built from an existing dict holds a copy: its contents are a function of the argument
    at construction time only, and they are already persisted -/
theorem from_dict_independent (a : Assoc) :
    (fromDict a).data = a ∧ (fromDict a).disk = some a ∧ (fromDict a).closed = false := ⟨rfl, rfl, rfl⟩

/-- failing operations (missing key, closed handle, non-bytes value) leave the dictionary unchanged -/
theorem failed_op_unchanged (d : PDict) (op : Op) (e : Err) (h : (step d op).2 = .err e) : (step d op).1 = d := by
  unfold step at h ⊢
  cases op with
  | set k v =>
    cases v with
    | nonBytes => rfl
    | bytes b => simp only at h ⊢; split; rfl; rename_i hc; simp [hc] at h
  | close => simp only at h ⊢; split <;> simp_all
  | get k => simp only at h ⊢; split; rfl; split <;> rfl
  | del k =>
    simp only at h ⊢
    split
    · rfl
    · rename_i hc
      cases hl : lookup k d.data with
      | some v => simp [hc, hl] at h
      | none => rfl
  | contains k => simp only at h ⊢; split <;> rfl
  | len => simp only at h ⊢; split <;> rfl
  | iter => simp only at h ⊢; split <;> rfl
  | getd k dflt => simp only at h ⊢; split <;> rfl
  | clear => simp only at h ⊢; split; rfl; rename_i hc; simp [hc] at h
  | sync => simp only at h ⊢; split; rfl; rename_i hc; simp [hc] at h

/-! ### non-vacuity -/
example : WF [([1], [9]), ([2], [8])] := by unfold WF; decide
example :
    let d1 := (step create (.set [1] (.bytes [9]))).1
    let d2 := (step d1 (.set [2] (.bytes []))).1
    let d3 := (step d2 (.del [1])).1
    let d4 := (step d3 .close).1
    ((step d3 (.getd [2] (some [7]))).2, (step d4 .len).2, (reopen d4).toOption.map (·.data))
      = (.optVal (some []), .err .valueError, some [([2], [])]) := by decide

end SSEPy.C20
