/-
  C12 — Overlapping connections to one service are serialised and cannot roll state back.

  The transition system of Model/Manager.lean gives the event loop, the clients and the cleanup delay
  every freedom asyncio allows: any number of connections, any interleaving of opening, sending, closing,
  lock acquisition, wake-ups, request processing and cleanup start/end.  The theorems hold in every
  reachable state, i.e. for every schedule.  The handlers, constructor and manager step order are the ones
  extracted from the source on this run.
-/
import SSEPyVerif.Proofs.Manager
import SSEPyVerif.Generated.ServerIR
namespace SSEPy.C12
open SSEPy.ServerIR SSEPy.Manager

/-- the tie: the extracted program (handlers, constructor, file managers, manager step order, kind of
    registry lock) is the one the transition system and its proofs are about -/
theorem program_is_expected : SSEPy.Generated.serverProgram = expectedProgram := by decide

abbrev G := SSEPy.Generated.serverProgram
theorem G_eq : G = expectedProgram := program_is_expected

theorem reachable_inv {s : MState} (h : Reachable G s) : J s := by
  rw [G_eq] at h; exact J_reachable h

/-- (a) Mutual exclusion in arrival order: a request of connection `j` is processed (`deliver j` is
    enabled) only when every earlier-opened connection has been closed and cleaned up — so no reply ever
    reaches `j` while an earlier-opened connection is still open. -/
theorem served_only_after_earlier_closed {s s' : MState} (h : Reachable G s) (j : Nat)
    (hstep : step G s (.deliver j) = some s') (i : Nat) (hij : i < j) :
    ∃ ci : CRec, s.conns[i]? = some ci ∧ ci.phase = .done := by
  have hJ := reachable_inv h
  simp only [step] at hstep
  cases hc : s.conns[j]? with
  | none => simp [hc] at hstep
  | some c =>
    simp only [hc] at hstep
    split at hstep
    · rename_i hcond
      exact earlier_done hJ hc (Or.inl hcond.1) i hij
    · cases hstep

/-- at most one connection is registered / being served at any time -/
theorem one_at_a_time {s : MState} (h : Reachable G s) (i j : Nat) (ci cj : CRec)
    (hi : s.conns[i]? = some ci) (hj : s.conns[j]? = some cj)
    (ai : ci.phase = .serving) (aj : cj.phase = .serving) : i = j :=
  active_unique (reachable_inv h) hi hj (Or.inl ai) (Or.inl aj)

/-- the reference state the disk denotes -/
def denoted (d : Disk) : Nat × Option Cfg × Option Edb :=
  let t := absS { disk := d, conn := none, alive := false }
  (t.st, t.cfg, t.edb)

theorem denoted_of_shape {d : Disk} {st : Nat} {cfg : Option Cfg} {edb : Option Edb} (h : Shape d st cfg edb) :
    denoted d = (st, cfg, edb) := by
  unfold denoted
  rw [absS_of_shape ({ disk := d, conn := none, alive := false } : SrvD) st cfg edb h]

theorem spec3Msg_mono (t : Spec3) (m : Msg)
    (hok : (t.st = 0 ∧ t.cfg = none ∧ t.edb = none) ∨ (t.st = 1 ∧ t.edb = none) ∨ t.st = 2) :
    t.st ≤ (spec3Msg t m).1.st ∧ (∀ c, t.cfg = some c → (spec3Msg t m).1.cfg = some c) ∧
    (∀ e, t.edb = some e → (spec3Msg t m).1.edb = some e) := by
  cases m <;> simp only [spec3Msg, Spec3.die] <;> (repeat' split) <;> simp_all <;> omega

/-- (b) Whatever the interleaving, the durable state never moves backwards and an accepted
    configuration or index is never lost or replaced. -/
theorem durable_state_monotone {s s' : MState} (h : Reachable G s) (a : Act) (hstep : step G s a = some s') :
    (denoted s.disk).1 ≤ (denoted s'.disk).1 ∧
    (∀ c, (denoted s.disk).2.1 = some c → (denoted s'.disk).2.1 = some c) ∧
    (∀ e, (denoted s.disk).2.2 = some e → (denoted s'.disk).2.2 = some e) := by
  have hJ := reachable_inv h
  rw [G_eq] at hstep
  obtain ⟨st, cfg, edb, hs, hc⟩ := hJ.shape
  have same : s'.disk = s.disk →
      ((denoted s.disk).1 ≤ (denoted s'.disk).1 ∧
       (∀ c, (denoted s.disk).2.1 = some c → (denoted s'.disk).2.1 = some c) ∧
       (∀ e, (denoted s.disk).2.2 = some e → (denoted s'.disk).2.2 = some e)) :=
    fun e => by rw [e]; exact ⟨Nat.le_refl _, fun _ h => h, fun _ h => h⟩
  cases a with
  | openConn =>
    obtain ⟨o, hcons, _⟩ := construct_shape s.disk st cfg edb hs
    simp only [step, hcons, Option.some.injEq] at hstep
    subst hstep; exact same rfl
  | enter j =>
    simp only [step] at hstep
    cases hcj : s.conns[j]? with
    | none => simp [hcj] at hstep
    | some c =>
      simp only [hcj] at hstep
      split at hstep
      · split at hstep <;> (cases hstep; exact same (by simp [setConn, registerConn]))
      · cases hstep
  | wake j =>
    simp only [step] at hstep
    cases hcj : s.conns[j]? with
    | none => simp [hcj] at hstep
    | some c =>
      simp only [hcj] at hstep
      split at hstep
      · cases hstep; exact same (by simp [setConn, registerConn])
      · cases hstep
  | send j m =>
    simp only [step] at hstep
    cases hcj : s.conns[j]? with
    | none => simp [hcj] at hstep
    | some c =>
      simp only [hcj] at hstep
      split at hstep
      · cases hstep; exact same (by simp [setConn])
      · cases hstep
  | clientClose j =>
    simp only [step] at hstep
    cases hcj : s.conns[j]? with
    | none => simp [hcj] at hstep
    | some c =>
      simp only [hcj] at hstep
      split at hstep
      · cases hstep; exact same (by simp [setConn])
      · cases hstep
  | finish j =>
    simp only [step] at hstep
    cases hcj : s.conns[j]? with
    | none => simp [hcj] at hstep
    | some c =>
      simp only [hcj] at hstep
      split at hstep
      · cases hstep; exact same (by simp [setConn])
      · cases hstep
  | cleanupStart j =>
    simp only [step] at hstep
    cases hcj : s.conns[j]? with
    | none => simp [hcj] at hstep
    | some c =>
      simp only [hcj] at hstep
      split at hstep
      · cases hstep; exact same (by simp [setConn])
      · cases hstep
  | deliver j =>
    simp only [step] at hstep
    cases hcj : s.conns[j]? with
    | none => simp [hcj] at hstep
    | some c =>
      simp only [hcj] at hstep
      split at hstep
      · rename_i hcond
        cases hin : c.inbox with
        | nil => simp [hin] at hstep
        | cons m rest =>
          simp only [hin, Option.some.injEq] at hstep
          subst hstep
          obtain ⟨st', cfg', edb', hs', _, _, hsp⟩ :=
            handleMsg_refines s.disk st cfg edb c.obj m hs (hc j c hcj (Or.inl hcond.1))
          change (denoted s.disk).1 ≤ (denoted (handleMsg P s.disk c.obj m).1).1 ∧
            (∀ c', (denoted s.disk).2.1 = some c' → (denoted (handleMsg P s.disk c.obj m).1).2.1 = some c') ∧
            (∀ e, (denoted s.disk).2.2 = some e → (denoted (handleMsg P s.disk c.obj m).1).2.2 = some e)
          rw [denoted_of_shape hs, denoted_of_shape hs']
          have hok : (st = 0 ∧ cfg = none ∧ edb = none) ∨ (st = 1 ∧ edb = none) ∨ st = 2 := by
            generalize s.disk = d at hs
            cases hs <;> simp
          have := spec3Msg_mono { st := st, cfg := cfg, edb := edb, alive := true } m hok
          rw [hsp] at this
          exact this
      · cases hstep
  | cleanupEnd j =>
    cases hcj : s.conns[j]? with
    | none => simp [step, hcj] at hstep
    | some c =>
      by_cases hcond : c.phase = .cleaning
      · have hd := cleanupEnd_disk hJ hcj hcond hstep
        have hact : Active c.phase := Or.inr (Or.inr hcond)
        have hs' := closeConn_shape s.disk st cfg edb c.obj hs (hc j c hcj hact).1
        rw [hd, denoted_of_shape hs, denoted_of_shape hs']
        exact ⟨Nat.le_refl _, fun _ h => h, fun _ h => h⟩
      · simp [step, hcj, hcond] at hstep

/-- (c) A search is answered from the index the disk holds in the ready state — the acknowledged one
    (by (b) it is never replaced) — under the stored configuration. -/
theorem acknowledged_index_is_searched {s s' : MState} (h : Reachable G s) (j : Nat)
    (hstep : step G s (.deliver j) = some s') (c : CRec) (hc : s.conns[j]? = some c)
    (m : Msg) (rest : List Msg) (hin : c.inbox = m :: rest) (cf : Cfg) (e : Edb) (k : Tok)
    (hres : Out.result cf e k ∈ (handleMsg G s.disk c.obj m).2.2.2.1) :
    denoted s.disk = (2, some cf, some e) := by
  have hJ := reachable_inv h
  rw [G_eq] at hstep hres
  obtain ⟨st, cfg, edb, hs, hcc⟩ := hJ.shape
  simp only [step, hc] at hstep
  split at hstep
  · rename_i hcond
    obtain ⟨st', cfg', edb', _, _, ho, _⟩ :=
      handleMsg_refines s.disk st cfg edb c.obj m hs (hcc j c hc (Or.inl hcond.1))
    rw [ho] at hres
    rw [denoted_of_shape hs]
    cases m <;> simp only [spec3Msg, Spec3.die] at hres <;> (repeat' split at hres) <;> simp_all
  · cases hstep

/-! ### non-vacuity: two overlapping connections, computed in the kernel on the extracted program -/
example :
    let s := run G {} [.openConn, .openConn, .enter 0, .enter 1, .send 1 (.upload 9), .send 0 (.config (some 4)),
                       .deliver 0, .send 0 (.upload 7), .deliver 0, .clientClose 0, .finish 0, .cleanupStart 0,
                       .cleanupEnd 0, .wake 1, .deliver 1]
    (s.disk, s.registry, s.conns.map (·.phase)) =
      ({ dir := true, config := .full 4, metaSt := .full 2, edb := .full 7 }, some 1, [.done, .serving]) := by
  decide

end SSEPy.C12
