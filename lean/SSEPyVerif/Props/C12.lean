/- C12 — placeholder until Proofs/Manager.lean is in place -/
import SSEPyVerif.Model.Manager
import SSEPyVerif.Proofs.Server
import SSEPyVerif.Generated.ServerIR
namespace SSEPy.C12
open SSEPy.ServerIR

/-- the manager's step order read from the source today is the one the transition system models -/
theorem manager_program_is_expected :
    SSEPy.Generated.serverProgram.mgrCreate = expectedProgram.mgrCreate ∧
    SSEPy.Generated.serverProgram.mgrCleanup = expectedProgram.mgrCleanup ∧
    SSEPy.Generated.serverProgram.mgrLockIsCondition = true := by decide

end SSEPy.C12
