/-
  C13 — A crash between persistence steps never leaves a service unusable.

  Server: semantic theorems about the program extracted from frontend/server/** on this run.  A crash is
  a budget `k` of file-system mutations (mkdir, open of the temporary file, its write, the rename over
  the target) after which the process stops; *every* `k` is covered, in every consistent state.
  Client: the extracted file-manager primitives are proved atomic and ordered "data before flag", and the
  semantic consequence — after a crash at any mutation of any persisting step of the documented workflow the
  re-created client redoes or finds completed the interrupted step and the workflow ends in a correct search —
  is proved for the extracted program by kernel evaluation of the budgeted interpreter (`client_crash_recovers`);
  other client histories are covered by the exhaustive crash lab on the real code (harness/props/c13.py).
-/
import SSEPyVerif.Proofs.Server
import SSEPyVerif.Generated.ServerIR
import SSEPyVerif.Generated.ClientIR
import SSEPyVerif.Model.ClientCrash
namespace SSEPy.C13
open SSEPy.ServerIR

theorem server_program_is_expected : SSEPy.Generated.serverProgram = expectedProgram := by decide

abbrev G := SSEPy.Generated.serverProgram
theorem G_eq : G = expectedProgram := server_program_is_expected

/-- Storing a configuration, killed after any number `k` of file-system mutations, in any consistent
    state: what is on disk denotes the state before the request or the state after it. -/
theorem crash_safe_config (d : Disk) (st : Nat) (cfg : Option Cfg) (edb : Option Edb) (hs : Shape d st cfg edb)
    (c : Conn) (hc : ConnOk st cfg edb c) (v : Cfg) (k : Nat) :
    Shape (handleMsg G d c (.config (some v)) (some k)).1 st cfg edb ∨
    Shape (handleMsg G d c (.config (some v)) (some k)).1 1 (some v) none := by
  rw [G_eq]; exact crash_config d st cfg edb hs c hc v k

/-- Storing an index, killed after any number of mutations. -/
theorem crash_safe_upload (d : Disk) (st : Nat) (cfg : Option Cfg) (edb : Option Edb) (hs : Shape d st cfg edb)
    (c : Conn) (hc : ConnOk st cfg edb c) (e : Edb) (k : Nat) :
    Shape (handleMsg G d c (.upload e) (some k)).1 st cfg edb ∨
    (∃ cf, cfg = some cf ∧ Shape (handleMsg G d c (.upload e) (some k)).1 2 (some cf) (some e)) := by
  rw [G_eq]; exact crash_upload d st cfg edb hs c hc e k

/-- After the restart a new connection is accepted and told a state consistent with the disk: on every
    disk a crash can leave (any `Shape`), the constructor succeeds and echoes the denoted state. -/
theorem restart_accepts (d : Disk) (st : Nat) (cfg : Option Cfg) (edb : Option Edb) (hs : Shape d st cfg edb) :
    ∃ c, construct G d = some (c, [.initEcho st]) ∧ ConnOk st cfg edb c := by
  rw [G_eq]; exact construct_shape d st cfg edb hs

/-- … and from there every continuation behaves as the three-state reference machine started in the
    denoted state (C10's refinement holds from any consistent state, not only from the empty disk): the
    interrupted step can be retried exactly when the echoed state asks for it, and the workflow ends in
    searches answered from the acknowledged index. -/
theorem restart_then_reference (d : Disk) (st : Nat) (cfg : Option Cfg) (edb : Option Edb)
    (hs : Shape d st cfg edb) (evs : List Ev) :
    (runEvs G { disk := d, conn := none, alive := false } evs).2
      = (spec3Run { st := st, cfg := cfg, edb := edb, alive := false } evs).2 := by
  rw [G_eq]
  have hinv : Inv { disk := d, conn := none, alive := false } := by
    refine ⟨st, cfg, edb, hs, ?_, ?_⟩
    · intro c h; cases h
    · intro h; cases h
  have h := (run_refines evs _ hinv).2.1
  rw [absS_of_shape ({ disk := d, conn := none, alive := false } : SrvD) st cfg edb hs] at h
  exact h

/-- requests that store nothing perform no mutation, so a crash during them changes nothing -/
theorem crash_safe_other (d : Disk) (c : Conn) (m : Msg) (k : Nat)
    (hm : ∀ v, m ≠ .config v) (hu : ∀ e, m ≠ .upload e) : (handleMsg G d c m (some k)).1 = d := by
  rw [G_eq]; exact crash_other d c m k hm hu

/-! ### client: structure of the extracted persistence code -/
open SSEPy.ClientIR in
/-- every mutation the client's persisting handlers perform is an atomic-replace step, a directory
    creation or the removal of the (already uploaded) local index — never a truncating open of a file the
    loader reads -/
def atomicOp : FsOp → Bool
  | .mkdir | .mkdirExistOk | .openTmp _ | .writeTmp _ | .replace _ | .unlink "edb" => true
  | _ => false

abbrev C := SSEPy.Generated.clientProgram

open SSEPy.ClientIR in
theorem client_writes_are_atomic :
    ((fsOps C C.createConfig ++ fsOps C C.createKey ++ fsOps C C.encryptDatabase ++ fsOps C C.uploadConfigEcho ++
      fsOps C C.uploadEdbEcho ++ fsOps C C.closeService).all atomicOp) = true := by decide

open SSEPy.ClientIR in
/-- data before flag: the key / the local index / the configuration are renamed into place before the
    flag that announces them is stored, and the uploaded flag is stored before the local index is removed -/
theorem client_data_before_flag :
    fsOps C C.createKey = [.openTmp "key", .writeTmp "key", .replace "key",
                           .openTmp "service_meta", .writeTmp "service_meta", .replace "service_meta"] ∧
    fsOps C C.encryptDatabase = [.openTmp "edb", .writeTmp "edb", .replace "edb",
                                 .openTmp "service_meta", .writeTmp "service_meta", .replace "service_meta"] ∧
    fsOps C C.createConfig = [.mkdir, .openTmp "config.json", .writeTmp "config.json", .replace "config.json",
                              .openTmp "service_meta", .writeTmp "service_meta", .replace "service_meta"] ∧
    fsOps C C.uploadEdbEcho = [.openTmp "service_meta", .writeTmp "service_meta", .replace "service_meta", .unlink "edb"] ∧
    C.fmCheckValid = [.retAllExist ["config.json", "service_meta"]] := by decide

/-! ### client: the semantic statement, for the program extracted on this run

  `Model/ClientCrash.lean` runs the extracted client program against the three-state reference server (which the extracted
  server program refines, C10) under a crash budget: the process dies when it is about to perform its (k+1)-th mutation of the
  service folder — by `client_writes_are_atomic` each mutation is one atomic step, so these are all the observably different
  crash points.  After the crash the user does what the property says: a service whose creation was interrupted is created
  anew (fresh salt, fresh folder), otherwise every step of the workflow is issued again (completed ones are refused, the
  interrupted one is redone or has visibly completed), then a search is made.  -/

open SSEPy.ClientIR in
/-- does the recovery after a crash in step `i` with budget `k` end in a search answered by the index built under the key
    the token was made with? -/
def recovers (i k : Nat) : Bool :=
  match crashThenRecover C 7 i k with
  | some (_, .result e t) => e == t
  | _ => false

open SSEPy.ClientIR in
/-- did the process die in step `i` with budget `k`? -/
def dies (i k : Nat) : Bool :=
  match crashThenRecover C 7 i k with
  | some (d, _) => d
  | none => false

/-- EVERY crash point of EVERY persisting client step — create-service, generate-key, encrypt-database, and the handling of
    the two upload acknowledgements (incl. the flag write of `close_service`) — is recovered from: the re-created client
    loads, the interrupted step is redone or has visibly completed, and the workflow ends in a search whose answering index
    and token come from the same key.  Budgets 0, 1, 2 are the crash points (no step performs more than three mutations:
    with budget 3 nothing dies — `crash_points_are_covered`), budgets 3..5 are the crash-free runs. -/
theorem client_crash_recovers : ∀ i, i < 5 → ∀ k, k < 6 → recovers i k = true := by
  have h : ((List.range 5).all fun i => (List.range 6).all fun k => recovers i k) = true := by decide +kernel
  intro i hi k hk
  have h1 := List.all_eq_true.mp h i (List.mem_range.mpr hi)
  exact List.all_eq_true.mp h1 k (List.mem_range.mpr hk)

/-- the budgets below 3 really are crashes (the process dies in every step with budget 0) and 3 is enough for every step -/
theorem crash_points_are_covered :
    (∀ i, i < 5 → dies i 0 = true) ∧ (∀ i, i < 5 → dies i 3 = false) := by
  have h0 : ((List.range 5).all fun i => dies i 0) = true := by decide +kernel
  have h3 : ((List.range 5).all fun i => !dies i 3) = true := by decide +kernel
  refine ⟨fun i hi => List.all_eq_true.mp h0 i (List.mem_range.mpr hi), fun i hi => ?_⟩
  have := List.all_eq_true.mp h3 i (List.mem_range.mpr hi)
  simpa using this

open SSEPy.ClientIR in
/-- … and a SECOND crash while recovering changes nothing: crash in step `i` with budget `k`, issue the workflow again and crash
    in its step `i2` with budget `k2` (every step, every crash point, the re-issued steps that are refused included), recover:
    the workflow still ends in a search answered by the index built under the key the token was made with -/
theorem client_double_crash_recovers :
    ∀ i, i < 5 → ∀ k, k < 3 → ∀ i2, i2 < 5 → ∀ k2, k2 < 3 →
      (match crashTwiceThenRecover C 7 i k i2 k2 with | .result e t => e == t | _ => false) = true := by
  have h : ((List.range 5).all fun i => (List.range 3).all fun k => (List.range 5).all fun i2 => (List.range 3).all fun k2 =>
      (match crashTwiceThenRecover C 7 i k i2 k2 with | .result e t => e == t | _ => false)) = true := by decide +kernel
  intro i hi k hk i2 hi2 k2 hk2
  have h1 := List.all_eq_true.mp h i (List.mem_range.mpr hi)
  have h2 := List.all_eq_true.mp h1 k (List.mem_range.mpr hk)
  have h3 := List.all_eq_true.mp h2 i2 (List.mem_range.mpr hi2)
  exact List.all_eq_true.mp h3 k2 (List.mem_range.mpr hk2)

/-- what is NOT covered by the client theorem: it is about ONE run of the documented workflow with an opaque configuration
    token (the model never inspects the configuration), not about every reachable client history; histories other than the
    documented one are covered for the SERVER half by `restart_then_reference` and for the client by the crash lab on the real
    code (every crash point of every handler, harness/props/c13.py). -/
theorem client_semantic_partial : (∀ i, i < 5 → ∀ k, k < 6 → recovers i k = true) := client_crash_recovers

/-! ### non-vacuity -/
example : (handleMsg G {} {} (.config (some 5)) (some 4)).1
    = { dir := true, config := .full 5, metaSt := .absent, edb := .absent } := by decide
example : Shape { dir := true, config := .full 5, metaSt := .absent, edb := .absent } 0 none none := .z10 5

end SSEPy.C13
