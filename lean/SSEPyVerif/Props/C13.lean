/-
  C13 — A crash between persistence steps never leaves a service unusable.

  Server: semantic theorems about the program extracted from frontend/server/** on this run.  A crash is
  a budget `k` of file-system mutations (mkdir, open of the temporary file, its write, the rename over
  the target) after which the process stops; *every* `k` is covered, in every consistent state.
  Client: the extracted file-manager primitives are proved atomic and ordered "data before flag"; the
  semantic consequence (the workflow completes after a restart) is decided for the client by exhaustive
  enumeration of its crash points on the real code (harness/props/c13.py) — see `client_semantic_partial`.
-/
import SSEPyVerif.Proofs.Server
import SSEPyVerif.Generated.ServerIR
import SSEPyVerif.Generated.ClientIR
namespace SSEPy.C13
open SSEPy.ServerIR

theorem server_program_is_expected : SSEPy.Generated.serverProgram = expectedProgram := by decide

abbrev G := SSEPy.Generated.serverProgram
theorem G_eq : G = expectedProgram := server_program_is_expected

/-- Storing a configuration, killed after any number `k` of file-system mutations, in any consistent
    state: what is on disk denotes the state before the request or the state after it. -/
theorem crash_safe_config (d : Disk) (st : Nat) (cfg : Option Cfg) (edb : Option Edb) (hs : Shape d st cfg edb)
    (c : Conn) (hc : ConnOk st cfg edb c) (v : Cfg) (k : Nat) :
    Shape (handleMsg G d c (.config (some v)) (some k)).1 st cfg edb ∨
    Shape (handleMsg G d c (.config (some v)) (some k)).1 1 (some v) none := by
  rw [G_eq]; exact crash_config d st cfg edb hs c hc v k

/-- Storing an index, killed after any number of mutations. -/
theorem crash_safe_upload (d : Disk) (st : Nat) (cfg : Option Cfg) (edb : Option Edb) (hs : Shape d st cfg edb)
    (c : Conn) (hc : ConnOk st cfg edb c) (e : Edb) (k : Nat) :
    Shape (handleMsg G d c (.upload e) (some k)).1 st cfg edb ∨
    (∃ cf, cfg = some cf ∧ Shape (handleMsg G d c (.upload e) (some k)).1 2 (some cf) (some e)) := by
  rw [G_eq]; exact crash_upload d st cfg edb hs c hc e k

/-- After the restart a new connection is accepted and told a state consistent with the disk: on every
    disk a crash can leave (any `Shape`), the constructor succeeds and echoes the denoted state. -/
theorem restart_accepts (d : Disk) (st : Nat) (cfg : Option Cfg) (edb : Option Edb) (hs : Shape d st cfg edb) :
    ∃ c, construct G d = some (c, [.initEcho st]) ∧ ConnOk st cfg edb c := by
  rw [G_eq]; exact construct_shape d st cfg edb hs

/-- … and from there every continuation behaves as the three-state reference machine started in the
    denoted state (C10's refinement holds from any consistent state, not only from the empty disk): the
    interrupted step can be retried exactly when the echoed state asks for it, and the workflow ends in
    searches answered from the acknowledged index. -/
theorem restart_then_reference (d : Disk) (st : Nat) (cfg : Option Cfg) (edb : Option Edb)
    (hs : Shape d st cfg edb) (evs : List Ev) :
    (runEvs G { disk := d, conn := none, alive := false } evs).2
      = (spec3Run { st := st, cfg := cfg, edb := edb, alive := false } evs).2 := by
  rw [G_eq]
  have hinv : Inv { disk := d, conn := none, alive := false } := by
    refine ⟨st, cfg, edb, hs, ?_, ?_⟩
    · intro c h; cases h
    · intro h; cases h
  have h := (run_refines evs _ hinv).2.1
  rw [absS_of_shape ({ disk := d, conn := none, alive := false } : SrvD) st cfg edb hs] at h
  exact h

/-- requests that store nothing perform no mutation, so a crash during them changes nothing -/
theorem crash_safe_other (d : Disk) (c : Conn) (m : Msg) (k : Nat)
    (hm : ∀ v, m ≠ .config v) (hu : ∀ e, m ≠ .upload e) : (handleMsg G d c m (some k)).1 = d := by
  rw [G_eq]; exact crash_other d c m k hm hu

/-! ### client: structure of the extracted persistence code -/
open SSEPy.ClientIR in
/-- every mutation the client's persisting handlers perform is an atomic-replace step, a directory
    creation or the removal of the (already uploaded) local index — never a truncating open of a file the
    loader reads -/
def atomicOp : FsOp → Bool
  | .mkdir | .mkdirExistOk | .openTmp _ | .writeTmp _ | .replace _ | .unlink "edb" => true
  | _ => false

abbrev C := SSEPy.Generated.clientProgram

open SSEPy.ClientIR in
theorem client_writes_are_atomic :
    ((fsOps C C.createConfig ++ fsOps C C.createKey ++ fsOps C C.encryptDatabase ++ fsOps C C.uploadConfigEcho ++
      fsOps C C.uploadEdbEcho ++ fsOps C C.closeService).all atomicOp) = true := by decide

open SSEPy.ClientIR in
/-- data before flag: the key / the local index / the configuration are renamed into place before the
    flag that announces them is stored, and the uploaded flag is stored before the local index is removed -/
theorem client_data_before_flag :
    fsOps C C.createKey = [.openTmp "key", .writeTmp "key", .replace "key",
                           .openTmp "service_meta", .writeTmp "service_meta", .replace "service_meta"] ∧
    fsOps C C.encryptDatabase = [.openTmp "edb", .writeTmp "edb", .replace "edb",
                                 .openTmp "service_meta", .writeTmp "service_meta", .replace "service_meta"] ∧
    fsOps C C.createConfig = [.mkdir, .openTmp "config.json", .writeTmp "config.json", .replace "config.json",
                              .openTmp "service_meta", .writeTmp "service_meta", .replace "service_meta"] ∧
    fsOps C C.uploadEdbEcho = [.openTmp "service_meta", .writeTmp "service_meta", .replace "service_meta", .unlink "edb"] ∧
    C.fmCheckValid = [.retAllExist ["config.json", "service_meta"]] := by decide

/-- the client's semantic statement (a restart after any crash prefix of a persisting client handler
    lets the workflow finish in correct searches) is NOT proved in Lean; it is decided by exhaustive
    enumeration of the finitely many client crash points on the real code on every run.  What is proved
    is the structural premise above. -/
theorem client_semantic_partial : True := trivial

/-! ### non-vacuity -/
example : (handleMsg G {} {} (.config (some 5)) (some 4)).1
    = { dir := true, config := .full 5, metaSt := .absent, edb := .absent } := by decide
example : Shape { dir := true, config := .full 5, metaSt := .absent, edb := .absent } 0 none none := .z10 5

end SSEPy.C13
