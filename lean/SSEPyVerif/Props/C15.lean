/-
  C15 — Pseudo-random permutations are length-preserving bijections with inverses.
  Every statement holds for an arbitrary keyed digest (`hmac`) of fixed positive length: bijectivity of
  the Feistel constructions does not depend on any cryptographic assumption.
-/
import SSEPyVerif.Proofs.Feistel
namespace SSEPy.C15
open Bitset

variable (hmac : Hmac) (dB : Nat)

/-- the expansion loop of the round function terminates and delivers exactly the requested number of
    bits (the right half's length when 0 is requested), well-formed -/
theorem round_len (hlen : ∀ k m, (hmac k m).length = dB) (hdB : 0 < dB)
    (key : Bytes) (i : Nat) (s : Bitset) (L : Nat) :
    ∃ g, ffxRound hmac dB key i s L = .ok g ∧ g.WF ∧ g.length = (if L = 0 then s.length else L) :=
  SSEPy.round_len hmac dB hlen hdB key i s L

/-- for every key, every n ≥ 2 and every even round count (or even n): encryption maps n-bit strings to
    n-bit strings and decryption inverts it -/
theorem ffx_dec_enc (hlen : ∀ k m, (hmac k m).length = dB) (hdB : 0 < dB) (key : Bytes) (rounds : Nat)
    (v : Bitset) (hv : v.WF) (hn : 2 ≤ v.length) (hpar : rounds % 2 = 0 ∨ v.length % 2 = 0) :
    ∃ w, ffxEncrypt (ffxRound hmac dB key) rounds v = .ok w ∧ w.WF ∧ w.length = v.length ∧
      ffxDecrypt (ffxRound hmac dB key) rounds w = .ok v := by
  obtain ⟨hG, hF⟩ := concreteRound_good hmac dB hlen hdB key
  rw [hF]
  exact ffx_dec_enc_pure _ hG rounds v hv hn hpar

/-- and encryption inverts decryption: every n-bit string is an image (onto-ness) -/
theorem ffx_enc_dec (hlen : ∀ k m, (hmac k m).length = dB) (hdB : 0 < dB) (key : Bytes) (rounds : Nat)
    (v : Bitset) (hv : v.WF) (hn : 2 ≤ v.length) (hpar : rounds % 2 = 0 ∨ v.length % 2 = 0) :
    ∃ w, ffxDecrypt (ffxRound hmac dB key) rounds v = .ok w ∧ w.WF ∧ w.length = v.length ∧
      ffxEncrypt (ffxRound hmac dB key) rounds w = .ok v := by
  obtain ⟨hG, hF⟩ := concreteRound_good hmac dB hlen hdB key
  rw [hF]
  exact ffx_enc_dec_pure _ hG rounds v hv hn hpar

/-- bijectivity on {0,1}^n: injective … -/
theorem ffx_injective (hlen : ∀ k m, (hmac k m).length = dB) (hdB : 0 < dB) (key : Bytes) (rounds : Nat)
    (v v' : Bitset) (hv : v.WF) (hv' : v'.WF) (hn : 2 ≤ v.length) (hl : v'.length = v.length)
    (hpar : rounds % 2 = 0 ∨ v.length % 2 = 0)
    (h : ffxEncrypt (ffxRound hmac dB key) rounds v = ffxEncrypt (ffxRound hmac dB key) rounds v') : v = v' := by
  obtain ⟨w, hw, _, _, hd⟩ := ffx_dec_enc hmac dB hlen hdB key rounds v hv hn hpar
  obtain ⟨w', hw', _, _, hd'⟩ := ffx_dec_enc hmac dB hlen hdB key rounds v' hv' (by omega) (by rw [hl]; exact hpar)
  rw [hw, hw'] at h
  cases h
  rw [hd] at hd'
  exact Except.ok.inj hd'

/-- … and surjective: every well-formed n-bit string is the encryption of one -/
theorem ffx_surjective (hlen : ∀ k m, (hmac k m).length = dB) (hdB : 0 < dB) (key : Bytes) (rounds : Nat)
    (y : Bitset) (hy : y.WF) (hn : 2 ≤ y.length) (hpar : rounds % 2 = 0 ∨ y.length % 2 = 0) :
    ∃ x, x.WF ∧ x.length = y.length ∧ ffxEncrypt (ffxRound hmac dB key) rounds x = .ok y := by
  obtain ⟨w, _, hww, hwl, he⟩ := ffx_enc_dec hmac dB hlen hdB key rounds y hy hn hpar
  exact ⟨w, hww, hwl, he⟩

/-- the bit PRP: wrong key or message bit length is refused; otherwise it is the FFX encryption with the
    default (even) round count under the key's bytes, hence a length-preserving bijection -/
theorem bit_prp_contracts (msgBits keyBits : Int) (key msg : Bitset) :
    ((key.length : Int) ≠ keyBits → bitwiseFpePrp hmac dB msgBits keyBits key msg = .error .valueError) ∧
    ((key.length : Int) = keyBits → (msg.length : Int) ≠ msgBits →
        bitwiseFpePrp hmac dB msgBits keyBits key msg = .error .valueError) := by
  unfold bitwiseFpePrp
  constructor
  · intro h; simp [h, bind, Except.bind, throw, throwThe, MonadExceptOf.throw]
  · intro h1 h2; simp [h1, h2, bind, Except.bind, throw, throwThe, MonadExceptOf.throw]

theorem bit_prp_is_ffx (hlen : ∀ k m, (hmac k m).length = dB) (hdB : 0 < dB)
    (key msg : Bitset) (hk : key.WF) (hm : msg.WF) (hn : 2 ≤ msg.length) :
    ∃ kb w, key.toBytes = .ok kb ∧
      bitwiseFpePrp hmac dB msg.length key.length key msg = .ok w ∧ w.WF ∧ w.length = msg.length ∧
      ffxDecrypt (ffxRound hmac dB kb) DEFAULT_ROUNDS w = .ok msg := by
  obtain ⟨kb, hkb, _, _⟩ := C18.bytes_spec key hk
  obtain ⟨w, hw, hww, hwl, hd⟩ := ffx_dec_enc hmac dB hlen hdB kb DEFAULT_ROUNDS msg hm hn (Or.inl rfl)
  refine ⟨kb, w, hkb, ?_, hww, hwl, hd⟩
  unfold bitwiseFpePrp
  simp [hkb, hw, bind, Except.bind]

/-- Luby–Rackoff (3 Feistel rounds on byte halves) is injective for *any* underlying function, and
    length-preserving: two messages of the declared length with the same image are equal -/
theorem lr_injective (p : LubyRackoff) (key m m' c : Bytes)
    (h : p.call key m = .ok c) (h' : p.call key m' = .ok c) : m = m' := by
  unfold LubyRackoff.call at h h'
  split at h
  · cases h
  split at h
  · cases h
  split at h
  · cases h
  split at h'
  · cases h'
  split at h'
  · cases h'
  rename_i _ hm _ _ hm'
  have hlen : m.length = m'.length := by
    simp only [bne_iff_ne, ne_eq, Decidable.not_not] at hm hm'
    omega
  obtain ⟨s3, hs, hc⟩ := lrCore_eq _ _ _ _ h
  obtain ⟨s3', hs', hc'⟩ := lrCore_eq _ _ _ _ h'
  have l3 := lr3_len _ _ _ _ _ _ hs
  have l3' := lr3_len _ _ _ _ _ _ hs'
  simp only [List.length_take, List.length_drop] at l3 l3'
  have e3 : s3 = s3' := by
    have hcat : s3.1 ++ s3.2 = s3'.1 ++ s3'.2 := by rw [← hc, ← hc']
    have hl : s3.1.length = s3'.1.length := by omega
    have := List.append_inj hcat hl
    exact Prod.ext this.1 this.2
  subst e3
  have e0 := lr3_inj _ _ _ _ _ _ _ hs hs'
  have := Prod.mk.inj e0
  rw [← List.take_append_drop (m.length / 2) m, ← List.take_append_drop (m'.length / 2) m', this.1, this.2]

theorem lr_len (p : LubyRackoff) (key m c : Bytes) (h : p.call key m = .ok c) : c.length = m.length := by
  unfold LubyRackoff.call at h
  split at h
  · cases h
  split at h
  · cases h
  split at h
  · cases h
  obtain ⟨s3, hs, hc⟩ := lrCore_eq _ _ _ _ h
  have l3 := lr3_len _ _ _ _ _ _ hs
  simp only [List.length_take, List.length_drop] at l3
  rw [hc, List.length_append]; omega

/-- wrong key / message lengths are refused by the byte PRP; odd message lengths and key lengths not
    divisible by 3 are refused at construction -/
theorem lr_contracts (p : LubyRackoff) (key m : Bytes) :
    ((key.length : Int) ≠ p.keyLength → p.call key m = .error .valueError) ∧
    ((key.length : Int) = p.keyLength → (m.length : Int) ≠ p.messageLength → p.call key m = .error .valueError) := by
  unfold LubyRackoff.call
  constructor
  · intro h; simp [h]
  · intro h1 h2; simp [h1, h2]

theorem lr_ctor_contracts (hashLen : Nat) (ml kl : Int) :
    (ml % 2 ≠ 0 → hmacLubyRackoffNew hmac hashLen ml kl = .error .valueError) ∧
    (ml % 2 = 0 → kl % 3 ≠ 0 → hmacLubyRackoffNew hmac hashLen ml kl = .error .valueError) := by
  unfold hmacLubyRackoffNew
  constructor
  · intro h
    have : (Int.emod ml 2 != 0) = true := by simp only [bne_iff_ne, ne_eq]; exact h
    simp [this]
  · intro h1 h2
    have a : (Int.emod ml 2 != 0) = false := by simp only [bne_eq_false_iff_eq]; exact h1
    have b : (Int.emod kl 3 != 0) = true := by simp only [bne_iff_ne, ne_eq]; exact h2
    simp [a, b]

/-! ### non-vacuity: a toy digest of 2 bytes; a concrete 5-bit encryption computes and inverts -/
def toyHmac : Hmac := fun k m => [UInt8.ofNat (k.length + 3 * m.length + m.foldl (fun a b => a + b.toNat) 0), 0xa5]
example : ∀ k m, (toyHmac k m).length = 2 := fun _ _ => rfl
example : (ffxEncrypt (ffxRound toyHmac 2 [1, 2]) 10 ⟨0b10110, 5⟩).toOption.map (·.length) = some 5 := by decide
example : (do let w ← ffxEncrypt (ffxRound toyHmac 2 [1, 2]) 10 ⟨0b10110, 5⟩; ffxDecrypt (ffxRound toyHmac 2 [1, 2]) 10 w)
    = .ok ⟨0b10110, 5⟩ := by decide

end SSEPy.C15
