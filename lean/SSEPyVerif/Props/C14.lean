/-
  C14 — Symmetric encryption wrapper: correct decryption, fixed expansion, fresh randomness, contracts.
  `E`/`D` are the block cipher's single-block encryption / decryption under a key (AES-ECB): arbitrary
  functions with `D k (E k x) = x` and 16-byte outputs on 16-byte blocks.
-/
import SSEPyVerif.Proofs.Cbc
namespace SSEPy.C14

/-- a wrapper object accepts the key and message lengths at hand -/
def Accepts (s : AESxCBC) (key msg : Bytes) : Prop :=
  (key.length : Int) = s.keyLength ∧ (s.messageLength = -1 ∨ (msg.length : Int) = s.messageLength)

theorem enc_ok (s : AESxCBC) (E : BlockFn) (key iv msg : Bytes) (h : Accepts s key msg) :
    s.encrypt E key iv msg = .ok (iv ++ (cbcEnc E key iv (blocks16 (pkcs7Pad msg))).flatten) := by
  unfold AESxCBC.encrypt
  obtain ⟨hk, hm⟩ := h
  have h1 : (s.messageLength != -1 && (msg.length : Int) != s.messageLength) = false := by
    rcases hm with h | h <;> simp [h]
  simp [h1, hk]

/-- ciphertext length depends only on the message length: `16 + 16 * (len(m) // 16 + 1)` -/
theorem enc_len (s : AESxCBC) (E : BlockFn) (key iv msg c : Bytes)
    (hE : ∀ x : Bytes, x.length = 16 → (E key x).length = 16) (hiv : iv.length = 16)
    (h : s.encrypt E key iv msg = .ok c) : c.length = 16 + 16 * (msg.length / 16 + 1) := by
  unfold AESxCBC.encrypt at h
  split at h
  · cases h
  · split at h
    · cases h
    · simp only [Except.ok.injEq] at h
      subst h
      have hpad := pkcs7Pad_length msg
      have h16 := blocks16_all16 (pkcs7Pad msg) (by rw [hpad]; simp)
      have hc16 := cbcEnc_all16 E key hE (blocks16 (pkcs7Pad msg)) iv h16
      rw [List.length_append, hiv, flatten_length_of_all 16 _ hc16, cbcEnc_length]
      have hfl := blocks16_flatten (pkcs7Pad msg)
      have := flatten_length_of_all 16 _ h16
      rw [hfl, hpad] at this
      omega

/-- the ciphertext starts with the IV -/
theorem enc_iv_prefix (s : AESxCBC) (E : BlockFn) (key iv msg c : Bytes) (hiv : iv.length = 16)
    (h : s.encrypt E key iv msg = .ok c) : c.take 16 = iv := by
  unfold AESxCBC.encrypt at h
  split at h
  · cases h
  · split at h
    · cases h
    · simp only [Except.ok.injEq] at h
      subst h
      rw [List.take_append_of_le_length (by omega)]
      exact List.take_of_length_le (by omega)

/-- two encryptions of the same message under the same key with different IVs differ -/
theorem enc_fresh (s : AESxCBC) (E : BlockFn) (key iv iv' msg c c' : Bytes)
    (hiv : iv.length = 16) (hiv' : iv'.length = 16) (hne : iv ≠ iv')
    (h : s.encrypt E key iv msg = .ok c) (h' : s.encrypt E key iv' msg = .ok c') : c ≠ c' := by
  intro heq
  have h1 := enc_iv_prefix s E key iv msg c hiv h
  have h2 := enc_iv_prefix s E key iv' msg c' hiv' h'
  rw [heq] at h1
  exact hne (h1.symm.trans h2)

/-- decryption of an encryption returns the message — every message, the empty one and block-aligned
    ones included, every 16-byte IV, every key the object accepts -/
theorem dec_enc (s : AESxCBC) (E D : BlockFn) (key iv msg : Bytes)
    (hDE : ∀ x : Bytes, x.length = 16 → D key (E key x) = x)
    (hE : ∀ x : Bytes, x.length = 16 → (E key x).length = 16)
    (hiv : iv.length = 16) (hacc : Accepts s key msg)
    (hcl : s.cipherLength = -1 ∨ s.cipherLength = 16 + 16 * (msg.length / 16 + 1)) :
    ∃ c, s.encrypt E key iv msg = .ok c ∧ s.decrypt D key c = .ok msg := by
  refine ⟨_, enc_ok s E key iv msg hacc, ?_⟩
  have hpad := pkcs7Pad_length msg
  have h16 := blocks16_all16 (pkcs7Pad msg) (by rw [hpad]; simp)
  have hc16 := cbcEnc_all16 E key hE (blocks16 (pkcs7Pad msg)) iv h16
  have hclen := enc_len s E key iv msg _ hE hiv (enc_ok s E key iv msg hacc)
  unfold AESxCBC.decrypt
  have h1 : (s.cipherLength != -1 &&
      ((iv ++ (cbcEnc E key iv (blocks16 (pkcs7Pad msg))).flatten).length : Int) != s.cipherLength) = false := by
    rcases hcl with h | h
    · simp [h]
    · rw [hclen, h]; simp
  have h2 : ((key.length : Int) != s.keyLength) = false := by simp [hacc.1]
  simp only [h1, h2, Bool.false_eq_true, ↓reduceIte]
  have htake : List.take 16 (iv ++ (cbcEnc E key iv (blocks16 (pkcs7Pad msg))).flatten) = iv := by
    rw [List.take_append_of_le_length (by omega)]; exact List.take_of_length_le (by omega)
  have hdrop : List.drop 16 (iv ++ (cbcEnc E key iv (blocks16 (pkcs7Pad msg))).flatten)
      = (cbcEnc E key iv (blocks16 (pkcs7Pad msg))).flatten := by
    rw [← hiv]; exact List.drop_left
  rw [htake, hdrop]
  have h3 : (iv.length != 16) = false := by simp [hiv]
  have hbody : (cbcEnc E key iv (blocks16 (pkcs7Pad msg))).flatten.length % 16 = 0 := by
    rw [flatten_length_of_all 16 _ hc16]; simp
  have h4 : ((cbcEnc E key iv (blocks16 (pkcs7Pad msg))).flatten.length % 16 != 0) = false := by rw [hbody]; rfl
  simp only [h3, h4, Bool.false_eq_true, ↓reduceIte]
  rw [blocks16_of_flatten _ hc16, cbcDec_cbcEnc E D key hDE _ iv h16, blocks16_flatten]
  exact pkcs7Unpad_pad msg

/-- declared-length violations are refused with ValueError before the cipher is used -/
theorem contracts (s : AESxCBC) (E D : BlockFn) (key iv x : Bytes) :
    ((key.length : Int) ≠ s.keyLength → s.encrypt E key iv x = .error .valueError ∧ s.decrypt D key x = .error .valueError) ∧
    (s.messageLength ≠ -1 ∧ (x.length : Int) ≠ s.messageLength → s.encrypt E key iv x = .error .valueError) ∧
    (s.cipherLength ≠ -1 ∧ (x.length : Int) ≠ s.cipherLength → s.decrypt D key x = .error .valueError) := by
  refine ⟨?_, ?_, ?_⟩
  · intro hk
    unfold AESxCBC.encrypt AESxCBC.decrypt
    constructor
    · split
      · rfl
      · simp [hk]
    · split
      · rfl
      · simp [hk]
  · rintro ⟨h1, h2⟩; unfold AESxCBC.encrypt; simp [h1, h2]
  · rintro ⟨h1, h2⟩; unfold AESxCBC.decrypt; simp [h1, h2]

/-- construction refuses key lengths other than 16/24/32 and cipher lengths that are not block multiples -/
theorem ctor_contracts (kl cl ml : Int) :
    (kl ≠ 16 ∧ kl ≠ 24 ∧ kl ≠ 32 → AESxCBC.new kl cl ml = .error .valueError) ∧
    (cl ≠ -1 ∧ cl % 16 ≠ 0 → AESxCBC.new kl cl ml = .error .valueError) := by
  unfold AESxCBC.new
  constructor
  · rintro ⟨h1, h2, h3⟩; simp [h1, h2, h3]
  · rintro ⟨h1, h2⟩
    split
    · rfl
    · have : (cl != -1 && Int.emod cl 16 != 0) = true := by
        simp only [Bool.and_eq_true, bne_iff_ne, ne_eq]; exact ⟨h1, h2⟩
      simp [this]

/-- bad padding is refused: a padded plaintext whose last byte is 0 or more than 16, or that is empty
    or not block-aligned, never unpads -/
theorem unpad_rejects (p : Bytes)
    (h : p.length = 0 ∨ p.length % 16 ≠ 0 ∨ (p.getLastD 0).toNat = 0 ∨ (p.getLastD 0).toNat > 16) :
    pkcs7Unpad p = .error .valueError := by
  unfold pkcs7Unpad
  rcases h with h | h | h | h
  · simp [h]
  · simp [h]
  · split
    · rfl
    · have : ((p.getLastD 0).toNat == 0 || decide ((p.getLastD 0).toNat > 16)) = true := by rw [h]; rfl
      simp only [this, ↓reduceIte]
  · split
    · rfl
    · have : ((p.getLastD 0).toNat == 0 || decide ((p.getLastD 0).toNat > 16)) = true := by
        simp only [Bool.or_eq_true, decide_eq_true_eq]; exact Or.inr h
      simp only [this, ↓reduceIte]

/-! ### non-vacuity: a toy block cipher (byte-wise +k / −k) satisfies the hypotheses -/
def toyE : BlockFn := fun k x => x.map (· + k.headD 1)
def toyD : BlockFn := fun k x => x.map (· - k.headD 1)
example : ∀ k x : Bytes, toyD k (toyE k x) = x := by
  intro k x; simp [toyE, toyD, List.map_map, Function.comp_def]
example : ∀ k x : Bytes, x.length = 16 → (toyE k x).length = 16 := by intro k x h; simp [toyE, h]
example : (AESxCBC.new 16).map (fun s => Accepts s (List.replicate 16 7) [1, 2, 3]) = .ok (Accepts ⟨16, -1, -1⟩ (List.replicate 16 7) [1, 2, 3]) := rfl
example : ((⟨16, -1, -1⟩ : AESxCBC).encrypt toyE (List.replicate 16 7) (List.replicate 16 9) []).toOption.map List.length = some 32 := by decide

end SSEPy.C14
