/-
  C11 — Client workflow: steps out of order are refused and the key is write-once.

  Objects: `Generated.clientProgram` is what the translator extracted from frontend/client/** on THIS run;
  `program_is_expected` ties it to `expectedClient`, the program the refinement `runCmd_world` was proved
  for; `runCmd` is the interpreter (one user command = a `Service` object freshly loaded from disk, one
  handler, `close_service()` for the network commands; the server is the 3-state reference machine that the
  real server refines, C10).

  Every theorem below quantifies over ALL histories of commands (no depth bound), all configurations, all
  key ids.
-/
import SSEPyVerif.Proofs.Client
import SSEPyVerif.Generated.ClientIR
import SSEPyVerif.Model.Commands
namespace SSEPy.C11
open SSEPy.ClientIR SSEPy.ServerIR

/-- the tie to the source: the program extracted on this run is the one the theorems are about -/
theorem program_is_expected : SSEPy.Generated.clientProgram = expectedClient := by decide

/-! ### the reference model of frontend/README.md: five flags and their prerequisite relation -/

/-- one command on the five flags; the Boolean says whether the command is accepted -/
def refStep (b : Bits) : Cmd → Bits × Bool
  | .create _ v => if !b.created && v then ({ b with created := true }, true) else (b, false)
  | .key => if b.created && !b.key then ({ b with key := true }, true) else (b, false)
  | .encrypt => if b.created && b.key && !b.encrypted then ({ b with encrypted := true }, true) else (b, false)
  | .uploadConfig => if b.created && !b.uploaded then ({ b with uploaded := true }, true) else (b, false)
  | .uploadEdb =>
    if b.uploaded && b.key && b.encrypted && !b.dbUploaded then ({ b with dbUploaded := true }, true) else (b, false)
  | .search => (b, b.dbUploaded)

/-- the persisted flag word of a world (all clear when there is no service) -/
def flags (w : World) : Bits := match w.cdisk.metaSt with | .full b => b | _ => {}

/-- the durable part of the reference server -/
def srvDurable (w : World) : Nat × Option Cfg × Option Nat := (w.server.st, w.server.cfg, w.server.edb)

/-- a world reachable by the client program from nothing -/
def Reach (w : World) : Prop := ∃ cmds, w = (runCmds SSEPy.Generated.clientProgram {} cmds).1

theorem reach_abstract {w : World} (h : Reach w) : ∃ a : AS, w = a.world := by
  obtain ⟨cmds, rfl⟩ := h
  rw [program_is_expected, world_init, runCmds_world]
  exact ⟨_, rfl⟩

theorem reach_step {w : World} (h : Reach w) (cmd : Cmd) : Reach (runCmd SSEPy.Generated.clientProgram w cmd).1 := by
  obtain ⟨cmds, rfl⟩ := h
  refine ⟨cmds ++ [cmd], ?_⟩
  generalize ({} : World) = w0
  induction cmds generalizing w0 with
  | nil => simp [runCmds]
  | cons c cs ih => simp only [runCmds, List.cons_append]; exact ih _

/-! ### the property -/

/-- THE REFERENCE MODEL IS FOLLOWED: in every reachable world, for every command, the command is accepted exactly when
    the five-flag reference accepts it, and the persisted flag word afterwards is the reference's -/
theorem accepted_ops_follow_reference {w : World} (h : Reach w) (cmd : Cmd) :
    let r := runCmd SSEPy.Generated.clientProgram w cmd
    (decide (r.2 ≠ .refused)) = (refStep (flags w) cmd).2 ∧ flags r.1 = (refStep (flags w) cmd).1 := by
  obtain ⟨a, rfl⟩ := reach_abstract h
  rw [program_is_expected, runCmd_world]
  cases a with
  | fresh alive n => cases cmd with
    | create c v => cases v <;> exact ⟨rfl, rfl⟩
    | _ => exact ⟨rfl, rfl⟩
  | mid c ks up alive n =>
    cases cmd with
    | create c' v => cases v <;> cases ks <;> cases up <;> exact ⟨rfl, rfl⟩
    | _ => cases ks <;> cases up <;> exact ⟨rfl, rfl⟩
  | done c k n => cases cmd with
    | create c' v => cases v <;> exact ⟨rfl, rfl⟩
    | _ => exact ⟨rfl, rfl⟩

/-- A REFUSED COMMAND CHANGES NOTHING: the client's folder (configuration, flags, key, local index) and the durable
    state of the server are exactly what they were -/
theorem refused_is_noop {w : World} (h : Reach w) (cmd : Cmd)
    (hr : (runCmd SSEPy.Generated.clientProgram w cmd).2 = .refused) :
    (runCmd SSEPy.Generated.clientProgram w cmd).1.cdisk = w.cdisk ∧
    srvDurable (runCmd SSEPy.Generated.clientProgram w cmd).1 = srvDurable w := by
  obtain ⟨a, rfl⟩ := reach_abstract h
  rw [program_is_expected, runCmd_world] at hr ⊢
  cases a with
  | fresh alive n => cases cmd with
    | create c v => cases v <;> first | exact ⟨rfl, rfl⟩ | cases hr
    | _ => first | exact ⟨rfl, rfl⟩ | cases hr
  | mid c ks up alive n =>
    cases cmd with
    | create c' v => cases v <;> cases ks <;> cases up <;> first | exact ⟨rfl, rfl⟩ | cases hr
    | _ => cases ks <;> cases up <;> first | exact ⟨rfl, rfl⟩ | cases hr
  | done c k n => cases cmd with
    | create c' v => cases v <;> first | exact ⟨rfl, rfl⟩ | cases hr
    | _ => first | exact ⟨rfl, rfl⟩ | cases hr

/-- AN OPERATION WHOSE PREREQUISITES ARE NOT MET, OR WHICH WOULD REDO A COMPLETED STEP, IS REFUSED -/
theorem unmet_prerequisite_refused {w : World} (h : Reach w) (cmd : Cmd)
    (hp : (refStep (flags w) cmd).2 = false) :
    (runCmd SSEPy.Generated.clientProgram w cmd).2 = .refused := by
  have := (accepted_ops_follow_reference h cmd).1
  rw [hp] at this
  simpa using this

/-- THE KEY IS WRITE-ONCE: once a key file exists no command — accepted or refused — changes it -/
theorem key_write_once {w : World} (h : Reach w) (cmd : Cmd) (k : Nat) (hk : w.cdisk.key = .full k) :
    (runCmd SSEPy.Generated.clientProgram w cmd).1.cdisk.key = .full k := by
  obtain ⟨a, rfl⟩ := reach_abstract h
  rw [program_is_expected, runCmd_world]
  cases a with
  | fresh alive n => cases hk
  | mid c ks up alive n =>
    cases cmd with
    | create c' v => cases v <;> cases ks <;> cases up <;> first | exact hk | cases hk
    | _ => cases ks <;> cases up <;> first | exact hk | cases hk
  | done c k' n => cases cmd with
    | create c' v => cases v <;> exact hk
    | _ => exact hk

/-- … over a whole history -/
theorem key_never_changes (cmds more : List Cmd) (k : Nat)
    (hk : (runCmds SSEPy.Generated.clientProgram {} cmds).1.cdisk.key = .full k) :
    (runCmds SSEPy.Generated.clientProgram (runCmds SSEPy.Generated.clientProgram {} cmds).1 more).1.cdisk.key = .full k := by
  have hr : Reach (runCmds SSEPy.Generated.clientProgram {} cmds).1 := ⟨cmds, rfl⟩
  generalize (runCmds SSEPy.Generated.clientProgram {} cmds).1 = w at hr hk
  induction more generalizing w with
  | nil => exact hk
  | cons c cs ih => simp only [runCmds]; exact ih _ (reach_step hr c) (key_write_once hr c k hk)

/-- AN UPLOADED INDEX REMAINS SEARCHABLE: in every reachable world whose flags say the index is uploaded, a search is
    answered, by the index built under the key that is on disk, with a token of that same key (= a correct result) -/
theorem uploaded_index_searchable {w : World} (h : Reach w) (hd : (flags w).dbUploaded = true) :
    ∃ k, w.cdisk.key = .full k ∧ (runCmd SSEPy.Generated.clientProgram w .search).2 = .result k k := by
  obtain ⟨a, rfl⟩ := reach_abstract h
  rw [program_is_expected, runCmd_world]
  cases a with
  | fresh alive n => cases hd
  | mid c ks up alive n => cases hd
  | done c k n => exact ⟨k, rfl, rfl⟩

/-- … and stays so after any further history -/
theorem searchable_forever {w : World} (h : Reach w) (hd : (flags w).dbUploaded = true) (more : List Cmd) :
    (flags (runCmds SSEPy.Generated.clientProgram w more).1).dbUploaded = true := by
  induction more generalizing w with
  | nil => exact hd
  | cons c cs ih =>
    simp only [runCmds]
    refine ih (reach_step h c) ?_
    rw [(accepted_ops_follow_reference h c).2]
    cases c <;> simp [refStep, hd] <;> (split <;> simp_all)

/-- AN INVALID CONFIGURATION DOES NOT CREATE A SERVICE: nothing at all changes -/
theorem invalid_config_creates_nothing {w : World} (h : Reach w) (c : Cfg) :
    runCmd SSEPy.Generated.clientProgram w (.create c false) = (w, .refused) := by
  obtain ⟨a, rfl⟩ := reach_abstract h
  rw [program_is_expected, runCmd_world]
  cases a with
  | fresh alive n => rfl
  | mid c ks up alive n => rfl
  | done c k n => rfl

/-- a search is answered only after the whole workflow, and then correctly: no history produces a wrong result -/
theorem no_wrong_result (cmds : List Cmd) (e k : Nat)
    (hm : COut.result e k ∈ (runCmds SSEPy.Generated.clientProgram {} cmds).2) : e = k := by
  rw [program_is_expected, world_init, runCmds_world] at hm
  simp only at hm
  generalize AS.fresh false 1 = a at hm
  induction cmds generalizing a with
  | nil => simp [AS.run] at hm
  | cons c cs ih =>
    simp only [AS.run, List.mem_cons] at hm
    rcases hm with hm | hm
    · cases a with
      | fresh alive n => cases c with
        | create c v => cases v <;> cases hm
        | _ => cases hm
      | mid c' ks up alive n =>
        cases c with
        | create c'' v => cases v <;> cases ks <;> cases up <;> cases hm
        | _ => cases ks <;> cases up <;> cases hm
      | done c' k' n => cases c with
        | create c'' v => cases v <;> cases hm
        | search => cases hm; rfl
        | _ => cases hm
    · exact ih _ hm

/-- non-vacuity: the documented workflow is accepted step by step and ends searchable; the same steps out of order are
    refused -/
theorem happy_path :
    (runCmds SSEPy.Generated.clientProgram {} [.create 5 true, .key, .encrypt, .uploadConfig, .uploadEdb, .search]).2
      = [.ok, .ok, .ok, .ok, .ok, .result 1 1] := by decide

theorem out_of_order_example :
    (runCmds SSEPy.Generated.clientProgram {} [.key, .create 5 false, .create 5 true, .encrypt, .uploadEdb, .key, .key,
       .create 5 true, .search]).2
      = [.refused, .refused, .ok, .refused, .refused, .ok, .refused, .refused, .refused] := by decide

/-! ### the command layer: services addressed by name (commands.py, service_name_handler.py) -/

open SSEPy.Cmd in
/-- a refused `create_service` (name taken, or a configuration the scheme cannot be instantiated with) changes nothing:
    no service folder, no mapping entry -/
theorem create_refused_unchanged (w : Cmd.World) (cfgOk : Bool) (name sid : String)
    (h : (create w cfgOk name sid).2 = false) : (create w cfgOk name sid).1 = w := by
  unfold create at h ⊢
  split
  · rfl
  · split
    · rfl
    · rename_i h1 h2; simp [h1, h2] at h

open SSEPy.Cmd in
/-- an accepted `create_service` makes the name resolve to the new service -/
theorem create_accepted_resolves (w : Cmd.World) (cfgOk : Bool) (name sid : String)
    (h : (create w cfgOk name sid).2 = true) : resolve (create w cfgOk name sid).1 name = some sid := by
  unfold create at h ⊢
  split
  · rename_i h1; simp [h1] at h
  · split
    · rename_i h1 h2; simp [h1, h2] at h
    · rename_i h1 _
      have hn : w.names.lookup name = none := by
        cases hh : w.names.lookup name with
        | none => rfl
        | some v => rw [hh] at h1; simp at h1
      simp [resolve, List.lookup_append, hn]

open SSEPy.Cmd in
/-- one `create_service`, whatever its name and outcome, never changes what an already resolvable name points to: names
    are write-once, and compared as exact strings -/
theorem create_keeps_names (w : Cmd.World) (cfgOk : Bool) (name sid n s : String) (h : resolve w n = some s) :
    resolve (create w cfgOk name sid).1 n = some s := by
  unfold create
  split
  · exact h
  · split
    · exact h
    · simp only [resolve] at h ⊢
      rw [List.lookup_append, h]; rfl

open SSEPy.Cmd in
/-- over ANY history of create commands a name keeps pointing to the service it was first given to — so every later
    command addressed by that name (generate key, encrypt, upload, search) reaches the same service -/
theorem name_write_once (w : Cmd.World) (n s : String) (h : resolve w n = some s)
    (cmds : List (Bool × String × String)) : resolve (run w cmds) n = some s := by
  induction cmds generalizing w with
  | nil => exact h
  | cons c rest ih =>
    obtain ⟨c1, c2, c3⟩ := c
    exact ih _ (create_keeps_names w c1 c2 c3 n s h)

open SSEPy.Cmd in
/-- non-vacuity: a second create under a taken name is refused and leaves the world as it was; a name that differs by a
    trailing blank is another name -/
theorem names_example :
    let w1 := (create {} true "alice" "sid1").1
    (create w1 true "alice" "sid2") = (w1, false) ∧ (create w1 true "alice " "sid2").2 = true ∧
    resolve (create w1 true "alice " "sid2").1 "alice" = some "sid1" := by decide

end SSEPy.C11
