/-
  C19 — Persistent fixed-length byte array behaves like a list, on disk and after reopen.
  Refinement of the file-level model (Model/PArray.lean: chunk files, seek/read/write, lazy file
  creation, the slice-assignment rollback) to the reference model `Spec` = a plain list of items.
-/
import SSEPyVerif.Proofs.PArray
namespace SSEPy.C19
open SSEPy.PArray

theorem natIdx_props {a b c : Option Int} {len : Nat} {idx : List Int}
    (h : sliceRange a b c len = .ok idx) : (∀ k ∈ natIdx idx, k < len) ∧ (natIdx idx).Nodup := by
  have hb := sliceRange_bounds h
  have hn := sliceRange_nodup h
  constructor
  · intro k hk
    simp only [natIdx, List.mem_map] at hk
    obtain ⟨p, hp, rfl⟩ := hk
    have := hb p hp
    omega
  · unfold natIdx
    unfold List.Nodup at hn ⊢
    rw [List.pairwise_map]
    apply List.Pairwise.imp_of_mem _ hn
    intro x y hx hy hxy heq
    have := hb x hx; have := hb y hy
    apply hxy; omega

/-- One step of the array is one step of the list: same answer, and the abstraction commutes —
    for every operation, every state, every (array_len, item_size, items_per_file). -/
theorem step_refines (s : PArr) (op : Op) :
    (step s op).2 = (specStep (abs s) op).2 ∧ abs (step s op).1 = (specStep (abs s) op).1 := by
  have hlen := abs_items_length s
  by_cases hc : s.closed = true
  · have hc' : (abs s).closed = true := hc
    unfold step specStep
    simp only [hc, hc', ↓reduceIte]
    cases op <;> exact ⟨(by first | rfl | trivial), (by first | rfl | trivial)⟩
  · have hc' : ¬ (abs s).closed = true := hc
    unfold step specStep
    rw [if_neg hc, if_neg hc']
    simp only [hlen]
    cases op with
    | get i =>
      simp only
      cases hn : normIdx s.len i with
      | none => exact ⟨(by first | rfl | trivial), (by first | rfl | trivial)⟩
      | some k =>
        simp only
        have hk := normIdx_lt hn
        refine ⟨?_, abs_touch _ _⟩
        rw [readIdx_touch, getD_abs s k hk]
    | getSlice a b c =>
      simp only
      cases hs : sliceRange a b c s.len with
      | error e => exact ⟨(by first | rfl | trivial), (by first | rfl | trivial)⟩
      | ok idx =>
        simp only
        obtain ⟨hb, _⟩ := natIdx_props hs
        obtain ⟨hp, hr⟩ := foldl_touch_same (natIdx idx) s
        refine ⟨?_, abs_eq_of _ _ hp (fun j _ => by rw [hr])⟩
        congr 1
        apply List.map_congr_left
        intro k hk
        rw [hr, getD_abs s k (hb k hk)]
    | set i v =>
      simp only
      cases hn : normIdx s.len i with
      | none => exact ⟨(by first | rfl | trivial), (by first | rfl | trivial)⟩
      | some k =>
        simp only
        cases v with
        | nonBytes => exact ⟨(by first | rfl | trivial), (by first | rfl | trivial)⟩
        | bytes b =>
          simp only
          have hsz : (abs s).sz = s.sz := rfl
          rw [hsz]
          by_cases hb : b.length > s.sz
          · simp only [hb, ↓reduceIte]; exact ⟨(by first | rfl | trivial), (by first | rfl | trivial)⟩
          · simp only [hb, ↓reduceIte]
            exact ⟨(by first | rfl | trivial), abs_write s _ k b (by omega)⟩
    | setSlice a b c vs =>
      simp only
      cases hs : sliceRange a b c s.len with
      | error e => exact ⟨(by first | rfl | trivial), (by first | rfl | trivial)⟩
      | ok idx =>
        simp only
        obtain ⟨hb, hnd⟩ := natIdx_props hs
        obtain ⟨hp, _, _, hm⟩ := setSliceLoop_inv (natIdx idx) vs [] s (by simpa using hnd)
        have hroll := rollback_restores s (natIdx idx) vs hnd
        have hA : assignAll (abs s).sz (abs s).items (natIdx idx) vs
            = (assignFn s.sz (readIdx s) (natIdx idx) vs).map (fun c' => (List.range s.len).map c') :=
          assignAll_of_fn s.sz s.len (natIdx idx) vs (readIdx s)
        rw [hA]
        cases hf : assignFn s.sz (readIdx s) (natIdx idx) vs with
        | error e =>
          rw [hf] at hm
          simp only at hm
          -- the loop failed with the same error; the rollback restores every item
          generalize hr : setSliceLoop s (natIdx idx) vs [] = r at hm hroll
          obtain ⟨s1, olds, res⟩ := r
          simp only at hm hroll
          subst hm
          simp only [Except.map]
          exact ⟨(by first | rfl | trivial), abs_eq_of _ _ hroll.1 (fun j _ => by rw [hroll.2])⟩
        | ok c' =>
          rw [hf] at hm
          simp only at hm
          generalize hr : setSliceLoop s (natIdx idx) vs [] = r at hm hp
          obtain ⟨s1, olds, res⟩ := r
          simp only at hm hp
          obtain ⟨hres, hread⟩ := hm
          subst hres
          simp only [Except.map]
          refine ⟨(by first | rfl | trivial), ?_⟩
          unfold abs
          rw [hp.1, hp.2.1, hp.2.2.2, hread]
    | del i =>
      simp only
      cases hn : normIdx s.len i with
      | none => exact ⟨(by first | rfl | trivial), (by first | rfl | trivial)⟩
      | some k =>
        simp only
        refine ⟨(by first | rfl | trivial), ?_⟩
        have := abs_write s (k / s.per) k (zeros s.sz) (by simp [zeros])
        rw [leftPad_zeros] at this
        exact this
    | delSlice a b c =>
      simp only
      cases hs : sliceRange a b c s.len with
      | error e => exact ⟨(by first | rfl | trivial), (by first | rfl | trivial)⟩
      | ok idx =>
        simp only
        obtain ⟨hb, _⟩ := natIdx_props hs
        exact ⟨(by first | rfl | trivial), zeroRange_spec (natIdx idx) s hb⟩
    | clear =>
      simp only
      refine ⟨(by first | rfl | trivial), ?_⟩
      rw [zeroRange_spec (List.range s.len) s (fun k hk => by simpa using hk)]
      have := foldl_set_all (zeros s.sz) (abs s).items
      rw [hlen] at this
      rw [this]
      rfl
    | iter =>
      simp only
      obtain ⟨hp, hr⟩ := foldl_touch_same (List.range s.len) s
      refine ⟨?_, abs_eq_of _ _ hp (fun j _ => by rw [hr])⟩
      rw [hr]; rfl
    | contains v =>
      simp only
      have key : ∀ (idx : List Nat) (st : PArr),
          SameParams (step.go v st idx).1 st ∧ readIdx (step.go v st idx).1 = readIdx st ∧
          (step.go v st idx).2 = idx.any (fun i => readIdx st i == v) := by
        intro idx
        induction idx with
        | nil => intro st; exact ⟨SameParams.refl st, rfl, rfl⟩
        | cons i is ih =>
          intro st
          have ht : readIdx (touch st (i / st.per)) = readIdx st := funext fun j => readIdx_touch _ _ _
          simp only [step.go, List.any_cons]
          by_cases hv : (readIdx (touch st (i / st.per)) i == v) = true
          · simp only [hv, ↓reduceIte]
            rw [ht] at hv
            exact ⟨sameParams_touch _ _, ht, by simp [hv]⟩
          · simp only [hv, Bool.false_eq_true, ↓reduceIte]
            obtain ⟨h1, h2, h3⟩ := ih (touch st (i / st.per))
            rw [ht] at hv h2 h3
            refine ⟨h1.trans (sameParams_touch _ _), h2, ?_⟩
            rw [h3]
            simp [hv]
      obtain ⟨h1, h2, h3⟩ := key (List.range s.len) s
      generalize step.go v s (List.range s.len) = r at h1 h2 h3
      obtain ⟨s1, res⟩ := r
      simp only at h1 h2 h3
      refine ⟨?_, abs_eq_of _ _ h1 (fun j _ => by rw [h2])⟩
      simp only [h3, abs, List.contains_eq_any_beq, List.any_map, Out.bool.injEq]
      congr 1
      funext i
      simp [Function.comp, BEq.comm]
    | len => exact ⟨(by first | rfl | trivial), (by first | rfl | trivial)⟩
    | close => exact ⟨(by first | rfl | trivial), (by first | rfl | trivial)⟩


/-- an event of a history: an operation, or closing-and-reopening the handle -/
inductive Event where
  | op (o : Op)
  | reopen

def runEvent (s : PArr) : Event → PArr × Out
  | .op o => step s o
  | .reopen => (reopen s, .unit)

def specEvent (t : Spec) : Event → Spec × Out
  | .op o => specStep t o
  | .reopen => ({ t with closed := false }, .unit)

def run (s : PArr) : List Event → PArr × List Out
  | [] => (s, [])
  | e :: es => let (s1, o) := runEvent s e; let (s2, os) := run s1 es; (s2, o :: os)

def specRun (t : Spec) : List Event → Spec × List Out
  | [] => (t, [])
  | e :: es => let (t1, o) := specEvent t e; let (t2, os) := specRun t1 es; (t2, o :: os)

/-- Every history — any operations, in any order, with close and reopen anywhere — produces exactly
    the observations of the plain list, and ends in a state that reads as the list's final state. -/
theorem run_refines (es : List Event) : ∀ (s : PArr),
    (run s es).2 = (specRun (abs s) es).2 ∧ abs (run s es).1 = (specRun (abs s) es).1 := by
  induction es with
  | nil => intro s; exact ⟨rfl, rfl⟩
  | cons e es ih =>
    intro s
    have he : (runEvent s e).2 = (specEvent (abs s) e).2 ∧ abs (runEvent s e).1 = (specEvent (abs s) e).1 := by
      cases e with
      | op o => exact step_refines s o
      | reopen => exact ⟨rfl, rfl⟩
    obtain ⟨h1, h2⟩ := ih (runEvent s e).1
    simp only [run, specRun]
    rw [← he.2, he.1]
    exact ⟨by rw [h1], h2⟩

/-- in the reference model an operation that raises changes nothing -/
theorem spec_err_unchanged (t : Spec) (op : Op) (e : Err) (h : (specStep t op).2 = .err e) :
    (specStep t op).1 = t := by
  unfold specStep at h ⊢
  split
  · cases op <;> rfl
  · rename_i hc
    rw [if_neg hc] at h
    cases op with
    | get i => simp only at h ⊢; split <;> rfl
    | getSlice a b c => simp only at h ⊢; split <;> rfl
    | set i v =>
      simp only at h ⊢
      split
      · rfl
      · split
        · rfl
        · split
          · rfl
          · rename_i hn _ _ hb; simp only [hn, hb, ↓reduceIte] at h; cases h
    | setSlice a b c vs =>
      simp only at h ⊢
      cases hs : sliceRange a b c t.items.length with
      | error e' => rfl
      | ok idx =>
        simp only [hs] at h ⊢
        cases hA : assignAll t.sz t.items (natIdx idx) vs with
        | error e' => rfl
        | ok items => simp only [hA] at h; cases h
    | del i =>
      simp only at h ⊢
      split
      · rfl
      · rename_i hn; simp only [hn] at h; cases h
    | delSlice a b c =>
      simp only at h ⊢
      split
      · rfl
      · rename_i hs; simp only [hs] at h; cases h
    | clear => simp only at h; cases h
    | iter => simp only at h; cases h
    | contains v => simp only at h; cases h
    | len => simp only at h; cases h
    | close => simp only at h; cases h

/-- A failing operation (oversized or non-bytes item, index out of range, zero step, closed handle) —
    including a slice assignment that fails in the middle — leaves every item exactly as it was. -/
theorem failed_op_unchanged (s : PArr) (op : Op) (e : Err) (h : (step s op).2 = .err e) :
    abs (step s op).1 = abs s := by
  obtain ⟨h1, h2⟩ := step_refines s op
  rw [h2]
  exact spec_err_unchanged (abs s) op e (by rw [← h1]; exact h)

/-- operations on a closed array raise (closing again is allowed) -/
theorem closed_raises (s : PArr) (op : Op) (hc : s.closed = true) :
    (step s op).2 = (match op with | .close => .unit | _ => .err .valueError) := by
  unfold step
  simp only [hc, ↓reduceIte]
  cases op <;> rfl

/-- after close and reopen the contents are exactly those at the time of closing -/
theorem reopen_contents (s : PArr) : (abs (reopen s)).items = (abs s).items := rfl

/-- a freshly created array reads as all zeros -/
theorem create_reads_zero (sz len per : Nat) :
    (abs (create sz len per)).items = List.replicate len (zeros sz) := by
  unfold abs
  apply List.ext_getElem
  · simp [create]
  · intro i h1 h2
    simp [create, readIdx, fileOf, readAt, zeros]

/-- No files other than the array's own are created: every chunk file that exists after any operation
    has an id below `ceil(array_len / items_per_file)` (reads create the chunk they touch, nothing else). -/
theorem files_created (s : PArr) (op : Op) (hper : 0 < s.per) (h : FilesOk s) : FilesOk (step s op).1 := by
  unfold step
  split
  · cases op <;> exact h
  · cases op with
    | get i =>
      simp only
      cases hn : normIdx s.len i with
      | none => exact h
      | some k => exact filesOk_touch s hper h k (normIdx_lt hn)
    | getSlice a b c =>
      simp only
      cases hs : sliceRange a b c s.len with
      | error e => exact h
      | ok idx => exact filesOk_foldl_touch _ s hper h (natIdx_props hs).1
    | set i v =>
      simp only
      cases hn : normIdx s.len i with
      | none => exact h
      | some k =>
        cases v with
        | nonBytes => exact h
        | bytes b =>
          simp only
          split
          · exact h
          · exact filesOk_write_touch s hper h k (normIdx_lt hn) b
    | setSlice a b c vs =>
      simp only
      cases hs : sliceRange a b c s.len with
      | error e => exact h
      | ok idx =>
        simp only
        have hb := (natIdx_props hs).1
        have h1 := filesOk_setSliceLoop (natIdx idx) vs [] s hper h hb
        have hp := (setSliceLoop_inv (natIdx idx) vs [] s (by simpa using (natIdx_props hs).2)).1
        generalize setSliceLoop s (natIdx idx) vs [] = r at h1 hp
        obtain ⟨s1, olds, res⟩ := r
        cases res with
        | none => exact h1
        | some e =>
          simp only
          unfold rollback
          exact filesOk_setSliceLoop (natIdx idx) _ [] s1 (by rw [hp.2.2.1]; exact hper) h1
            (fun k hk => by rw [hp.2.1]; exact hb k hk)
    | del i =>
      simp only
      cases hn : normIdx s.len i with
      | none => exact h
      | some k => exact filesOk_write_touch s hper h k (normIdx_lt hn) _
    | delSlice a b c =>
      simp only
      cases hs : sliceRange a b c s.len with
      | error e => exact h
      | ok idx => exact filesOk_zeroRange _ s hper h (natIdx_props hs).1
    | clear => exact filesOk_zeroRange _ s hper h (fun k hk => by simpa using hk)
    | iter => exact filesOk_foldl_touch _ s hper h (fun k hk => by simpa using hk)
    | contains v =>
      simp only
      have key : ∀ (idx : List Nat) (st : PArr), 0 < st.per → FilesOk st → (∀ k ∈ idx, k < st.len) →
          FilesOk (step.go v st idx).1 := by
        intro idx
        induction idx with
        | nil => intro st _ h _; exact h
        | cons i is ih =>
          intro st hp hst hb
          simp only [step.go]
          split
          · exact filesOk_touch st hp hst i (hb i (by simp))
          · exact ih _ hp (filesOk_touch st hp hst i (hb i (by simp))) (fun k hk => hb k (by simp [hk]))
      have := key (List.range s.len) s hper h (fun k hk => by simpa using hk)
      generalize step.go v s (List.range s.len) = r at this
      exact this
    | len => exact h
    | close => exact h

theorem create_files_ok (sz len per : Nat) : FilesOk (create sz len per) := by
  intro fid hf; simp [create] at hf

/-! ### non-vacuity: a concrete non-trivial history, computed in the kernel -/
example :
    let s0 := create 2 5 2                       -- length 5 is not a multiple of the chunk size 2
    (run s0 [.op (.set (-1) (.bytes [7])), .op (.setSlice none none (some (-2)) [.bytes [1, 1], .bytes [9, 9, 9]]),
             .op .close, .reopen, .op (.get 4), .op .iter]).2
      = [.unit, .err .valueError, .unit, .unit, .item [0, 7],
         .items [[0, 0], [0, 0], [0, 0], [0, 0], [0, 7]]] := by decide

end SSEPy.C19
