/-
  C16 — PRF and hash wrappers: exact output length, standard-conformant, contracts enforced.
  The HMAC and hash digests are arbitrary functions with a fixed positive output length `d`.
-/
import SSEPyVerif.Proofs.PHash
namespace SSEPy.C16

/-- `_tls_p_hash` as written equals the RFC 5246 P_hash stream truncated to the requested length. -/
theorem phash_eq_rfc (hmac : Hmac) (d : Nat) (key msg : Bytes) (n : Nat) :
    tlsPHash hmac d key msg n
      = (rfcStream hmac key msg ((n + d - 1) / d)).take n := by
  unfold tlsPHash
  by_cases h0 : (n : Int) ≤ 0
  · have : n = 0 := by omega
    subst this; simp
  · simp only [h0, ↓reduceIte, Int.toNat_natCast, pHashLoop_rfc]

/-- the output has exactly the requested number of bytes, however many digests that needs -/
theorem phash_len (hmac : Hmac) (d : Nat) (hd : ∀ k m, (hmac k m).length = d) (hd0 : 0 < d)
    (key msg : Bytes) (n : Nat) : (tlsPHash hmac d key msg n).length = n := by
  rw [phash_eq_rfc, List.length_take, rfcStream_length hmac key msg d hd]
  have := ceil_mul_ge n d hd0
  omega

/-- any number of RFC blocks that covers the request gives the same bytes (so the implementation's
    block count is immaterial) and shorter outputs are prefixes of longer ones -/
theorem phash_any_block_count (hmac : Hmac) (d : Nat) (hd : ∀ k m, (hmac k m).length = d) (hd0 : 0 < d)
    (key msg : Bytes) (n m : Nat) (hm : n ≤ m * d) :
    tlsPHash hmac d key msg n = (rfcStream hmac key msg m).take n := by
  rw [phash_eq_rfc]
  have hc := ceil_mul_ge n d hd0
  rcases Nat.le_total ((n + d - 1) / d) m with h | h
  · obtain ⟨t, ht⟩ := rfcStream_prefix hmac key msg _ _ h
    rw [ht, List.take_append_of_le_length]
    rw [rfcStream_length hmac key msg d hd]; exact hc
  · obtain ⟨t, ht⟩ := rfcStream_prefix hmac key msg _ _ h
    rw [ht, List.take_append_of_le_length]
    rw [rfcStream_length hmac key msg d hd]; exact hm

theorem phash_prefix (hmac : Hmac) (d : Nat) (hd : ∀ k m, (hmac k m).length = d) (hd0 : 0 < d)
    (key msg : Bytes) (n n' : Nat) (h : n ≤ n') :
    tlsPHash hmac d key msg n = (tlsPHash hmac d key msg n').take n := by
  have hc := ceil_mul_ge n' d hd0
  rw [phash_any_block_count hmac d hd hd0 key msg n ((n' + d - 1) / d) (by omega), phash_eq_rfc hmac d key msg n']
  rw [List.take_take, Nat.min_eq_left h]

/-- `HmacPRF.__call__`: declared key / message lengths are enforced before anything is computed;
    otherwise the result is P_hash at the configured output length (the digest size when none given). -/
theorem prf_contracts (p : HmacPRF) (hmac : Hmac) (key msg : Bytes) :
    (p.keyLength ≠ -1 ∧ (key.length : Int) ≠ p.keyLength → p.call hmac key msg = .error .valueError) ∧
    (p.messageLength ≠ -1 ∧ (msg.length : Int) ≠ p.messageLength → p.call hmac key msg = .error .valueError) ∧
    ((p.keyLength = -1 ∨ (key.length : Int) = p.keyLength) →
     (p.messageLength = -1 ∨ (msg.length : Int) = p.messageLength) →
      p.call hmac key msg = .ok (tlsPHash hmac p.hashLen key msg p.outputLength)) := by
  unfold HmacPRF.call LENGTH_UNLIMITED
  refine ⟨?_, ?_, ?_⟩
  · rintro ⟨h1, h2⟩; simp [h1, h2]
  · rintro ⟨h1, h2⟩
    by_cases hk : (p.keyLength != -1 && (key.length : Int) != p.keyLength) = true
    · simp [hk]
    · simp [hk, h1, h2]
  · intro hk hm
    have h1 : (p.keyLength != -1 && (key.length : Int) != p.keyLength) = false := by
      rcases hk with h | h <;> simp [h]
    have h2 : (p.messageLength != -1 && (msg.length : Int) != p.messageLength) = false := by
      rcases hm with h | h <;> simp [h]
    simp [h1, h2]

/-- a PRF built without an output length returns exactly one digest worth of bytes, and one built with
    length `n ≥ 0` returns exactly `n` bytes -/
theorem prf_output_length (out keyLen msgLen : Int) (d : Nat) (hmac : Hmac)
    (hd : ∀ k m, (hmac k m).length = d) (hd0 : 0 < d) (key msg r : Bytes)
    (h : (HmacPRF.new out keyLen msgLen d).call hmac key msg = .ok r) :
    (r.length : Int) = if out = 0 then (d : Int) else max out 0 := by
  unfold HmacPRF.call at h
  split at h
  · cases h
  · split at h
    · cases h
    · simp only [Except.ok.injEq] at h
      subst h
      unfold HmacPRF.new LENGTH_NOT_GIVEN
      by_cases ho : out = 0
      · subst ho
        simp only [beq_self_eq_true, ↓reduceIte]
        rw [phash_len hmac d hd hd0]
      · have : (out == 0) = false := by simp [ho]
        simp only [this, Bool.false_eq_true, ↓reduceIte, ho]
        by_cases hneg : out ≤ 0
        · simp [tlsPHash, hneg]; omega
        · obtain ⟨n, rfl⟩ : ∃ n : Nat, out = n := ⟨out.toNat, by omega⟩
          rw [phash_len hmac d hd hd0]; omega

/-- counter-mode expansion: exactly `n` bytes, equal to the documented stream `H(m‖1)‖H(m‖2)‖…`
    truncated, and the loop always terminates (fuel is never exhausted) -/
theorem ctr_expand_spec (hash : Bytes → Bytes) (d : Nat) (hd : ∀ m, (hash m).length = d) (hd0 : 0 < d)
    (msg : Bytes) (n : Nat) :
    ∃ k, n ≤ k * d ∧ ctrExpand hash msg n = .ok ((ctrStream hash msg k).take n) := by
  unfold ctrExpand
  by_cases h0 : (n : Int) ≤ 0
  · have : n = 0 := by omega
    subst this
    exact ⟨0, by simp, by simp⟩
  · simp only [h0, ↓reduceIte, Int.toNat_natCast]
    have := ctrLoop_spec hash msg d hd hd0 n (n + 1) 0 (by omega) (by omega)
    simpa [ctrStream] using this

theorem ctr_expand_len (hash : Bytes → Bytes) (d : Nat) (hd : ∀ m, (hash m).length = d) (hd0 : 0 < d)
    (msg : Bytes) (n : Nat) : ∃ r, ctrExpand hash msg n = .ok r ∧ r.length = n := by
  obtain ⟨k, hk, h⟩ := ctr_expand_spec hash d hd hd0 msg n
  refine ⟨_, h, ?_⟩
  rw [List.length_take, ctrStream_length hash msg d hd]; omega

/-- the stream prefix taken does not depend on how many digests were concatenated -/
theorem ctr_expand_canonical (hash : Bytes → Bytes) (d : Nat) (hd : ∀ m, (hash m).length = d)
    (msg : Bytes) (n k k' : Nat) (hk : n ≤ k * d) (hk' : n ≤ k' * d) :
    (ctrStream hash msg k).take n = (ctrStream hash msg k').take n := by
  rcases Nat.le_total k k' with h | h
  · obtain ⟨t, ht⟩ := ctrStream_prefix hash msg _ _ h
    rw [ht, List.take_append_of_le_length]; rw [ctrStream_length hash msg d hd]; exact hk
  · obtain ⟨t, ht⟩ := ctrStream_prefix hash msg _ _ h
    rw [ht, List.take_append_of_le_length]; rw [ctrStream_length hash msg d hd]; exact hk'

/-- XOF algorithms (shake) delegate to the native variable-length digest -/
theorem xof_delegates (hash : Bytes → Bytes) (xof : Bytes → Nat → Bytes) (msg : Bytes) (n : Nat) :
    hashWrapperCall true hash xof msg n = .ok (xof msg n) := by
  unfold hashWrapperCall
  have : ¬ ((n : Int) < 0) := by omega
  simp [this]

/-! ### non-vacuity: a toy keyed digest with 2-byte outputs -/
def toyHmac : Hmac := fun k m => [UInt8.ofNat (k.length + 3 * m.length), (m.headD 7) + (k.headD 1)]
example : ∀ k m, (toyHmac k m).length = 2 := fun _ _ => rfl
example : tlsPHash toyHmac 2 [1] [2, 3] 5 = [13, 8, 13, 8, 13] := by decide
example : (HmacPRF.new 0 1 (-1) 2).call toyHmac [1] [2, 3] = .ok [13, 8] := by decide
example : (HmacPRF.new 0 4 (-1) 2).call toyHmac [1] [2, 3] = .error .valueError := by decide
example : ctrExpand (fun m => [UInt8.ofNat m.length, m.getLastD 0]) [9, 9] 3 = .ok [3, 1, 3] := by decide

end SSEPy.C16
