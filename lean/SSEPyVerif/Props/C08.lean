/-
  C08 — A configuration is either refused loudly or yields a correct scheme.

  * `missing_param_refused_*`: for each of the nine configuration builders, a configuration that lacks (or marks with
    -1) any parameter the builder reads is refused with ValueError when the configuration is built.
  * `nonpositive_param_refused`: a `param_*` number that is zero or negative (other than the marker -1) is refused by
    every builder — sizes that would make block partitioning silently return nothing never reach the scheme.
  * `PiBas/PiPack.refused_or_correct`: for EVERY raw configuration (any integers, any primitive names): the builder
    refuses it, or setup fails, or every search of a stored keyword that returns at all returns exactly its list.
    (Under the no-collision hypotheses it does return: C01.)
  Non-integer values (float, string, None) for integer fields are outside the theorems; the correspondence enumerates
  them on the real code.
-/
import SSEPyVerif.Props.C01
import SSEPyVerif.Proofs.Schemes.ChainComplete
import SSEPyVerif.Model.Schemes.Wire
import SSEPyVerif.Model.Schemes.SSE2
namespace SSEPy.C08
open SSEPy.Sch

theorem positive_cases (raw : RawCfg) : checkParamPositive raw = .ok () ∨ checkParamPositive raw = .error .valueError := by
  unfold checkParamPositive; split <;> simp

theorem exist_refuses (fields : List String) (raw : RawCfg) (f : String) (hf : f ∈ fields)
    (hm : raw.get f = none ∨ raw.get f = some (.int (-1))) : checkParamExist fields raw = .error .valueError := by
  unfold checkParamExist
  split
  · rename_i hall
    have := List.all_eq_true.mp hall f hf
    rcases hm with h | h <;> simp [h] at this
  · rfl

/-- what "lacks a needed parameter" means for a builder that reads the fields `fields` -/
def Lacks (fields : List String) (raw : RawCfg) : Prop :=
  ∃ f ∈ fields, raw.get f = none ∨ raw.get f = some (.int (-1))

macro "refuse_missing" builder:ident : tactic =>
  `(tactic| (
    intro raw hl
    obtain ⟨f, hf, hm⟩ := hl
    have he := exist_refuses _ raw f hf hm
    unfold $builder
    rcases positive_cases raw with hp | hp <;> simp [hp, he, bind, Except.bind]))

theorem missing_param_refused_PiBas :
    ∀ raw, Lacks ["param_lambda", "prf_f_output_length", "prf_f", "ske"] raw → PiBas.cfgBuild raw = .error .valueError := by
  refuse_missing PiBas.cfgBuild

theorem missing_param_refused_PiPack :
    ∀ raw, Lacks ["param_lambda", "param_B", "prf_f_output_length", "param_identifier_size", "prf_f", "ske"] raw →
      PiPack.cfgBuild raw = .error .valueError := by
  refuse_missing PiPack.cfgBuild

theorem missing_param_refused_PiPtr :
    ∀ raw, Lacks ["param_lambda", "param_B", "param_b", "prf_f_output_length", "param_identifier_size", "prf_f", "ske"] raw →
      PiPtr.cfgBuild raw = .error .valueError := by
  refuse_missing PiPtr.cfgBuild

theorem missing_param_refused_Pi2Lev :
    ∀ raw, Lacks ["param_lambda", "param_B", "param_b", "param_B_prime", "param_b_prime", "prf_f_output_length",
                  "param_identifier_size", "prf_f", "ske"] raw → Pi2Lev.cfgBuild raw = .error .valueError := by
  refuse_missing Pi2Lev.cfgBuild

theorem missing_param_refused_CT14 :
    ∀ raw, Lacks ["param_k", "param_k_prime", "param_l", "param_identifier_size", "prf_f", "prf_f_prime", "ske"] raw →
      CT14.cfgBuild raw = .error .valueError := by
  refuse_missing CT14.cfgBuild

theorem missing_param_refused_ANSS16 :
    ∀ raw, Lacks ["param_lambda", "param_k", "param_k_prime", "param_l", "param_l_prime", "param_identifier_size", "prf", "ske"] raw →
      ANSS16.cfgBuild raw = .error .valueError := by
  refuse_missing ANSS16.cfgBuild

theorem missing_param_refused_SSE1 :
    ∀ raw, Lacks ["param_k", "param_l", "param_s", "param_dictionary_size", "param_identifier_size",
                  "prp_pi", "prp_psi", "prf_f", "ske1", "ske2"] raw → SSE1.cfgBuild raw = .error .valueError := by
  refuse_missing SSE1.cfgBuild

theorem missing_param_refused_SSE2 :
    ∀ raw, Lacks ["param_k", "param_l", "param_n", "param_max_file_size"] raw → SSE2.cfgBuild raw = .error .valueError := by
  refuse_missing SSE2.cfgBuild

theorem missing_param_refused_DP17 :
    ∀ raw, Lacks ["param_lambda", "param_actual_storage_level_ratio", "param_L", "param_identifier_size", "rnd", "prf_f", "hash_h"] raw →
      DP17.cfgBuild raw = .error .valueError := by
  refuse_missing DP17.cfgBuild

/-- a zero or negative size (other than the marker -1) never gets past the shared check -/
theorem nonpositive_param_refused (raw : RawCfg) (f : String) (z : Int) (hm : (f, RawVal.int z) ∈ raw)
    (hf : f.startsWith "param_" = true) (hz : z ≤ 0) (hz1 : z ≠ -1) : checkParamPositive raw = .error .valueError := by
  unfold checkParamPositive
  split
  · rename_i hall
    have := List.all_eq_true.mp hall _ hm
    simp only [hf, Bool.not_true, Bool.false_or, Bool.or_eq_true, decide_eq_true_eq, beq_iff_eq] at this
    omega
  · rfl

/-- every builder starts with that check -/
theorem nonpositive_refused_everywhere (raw : RawCfg) (h : checkParamPositive raw = .error .valueError) :
    PiBas.cfgBuild raw = .error .valueError ∧ PiPack.cfgBuild raw = .error .valueError ∧
    PiPtr.cfgBuild raw = .error .valueError ∧ Pi2Lev.cfgBuild raw = .error .valueError ∧
    CT14.cfgBuild raw = .error .valueError ∧ ANSS16.cfgBuild raw = .error .valueError ∧
    SSE1.cfgBuild raw = .error .valueError ∧ SSE2.cfgBuild raw = .error .valueError ∧
    DP17.cfgBuild raw = .error .valueError := by
  refine ⟨?_, ?_, ?_, ?_, ?_, ?_, ?_, ?_, ?_⟩
  · unfold PiBas.cfgBuild; simp [h, bind, Except.bind]
  · unfold PiPack.cfgBuild; simp [h, bind, Except.bind]
  · unfold PiPtr.cfgBuild; simp [h, bind, Except.bind]
  · unfold Pi2Lev.cfgBuild; simp [h, bind, Except.bind]
  · unfold CT14.cfgBuild; simp [h, bind, Except.bind]
  · unfold ANSS16.cfgBuild; simp [h, bind, Except.bind]
  · unfold SSE1.cfgBuild; simp [h, bind, Except.bind]
  · unfold SSE2.cfgBuild; simp [h, bind, Except.bind]
  · unfold DP17.cfgBuild; simp [h, bind, Except.bind]

/-- PiBas: refused, or loud, or correct — for every raw configuration -/
theorem PiBas.refused_or_correct (raw : RawCfg) (lv : Leaves) (hl : LeafLaws lv) (K : Bytes) (db : DB) (t : Tape)
    (w : Bytes) (ids : List Bytes) (hm : (w, ids) ∈ db) :
    (∃ e, PiBas.cfgBuild raw = .error e) ∨
    ∃ cfg, PiBas.cfgBuild raw = .ok cfg ∧
      ((∃ e, Chain.setup cfg lv K db t = .error e) ∨
       ∃ D t', Chain.setup cfg lv K db t = .ok (D, t') ∧
         ((∀ L, Chain.encDb cfg lv K db t = .ok (L, t') → C01.Chain.NoColl cfg lv K db L) →
           ∃ tk, Chain.token cfg lv K w = .ok tk ∧ Chain.search cfg lv D tk = .ok ids)) := by
  cases hc : PiBas.cfgBuild raw with
  | error e => exact Or.inl ⟨e, rfl⟩
  | ok cfg =>
    refine Or.inr ⟨cfg, rfl, ?_⟩
    cases hs : Chain.setup cfg lv K db t with
    | error e => exact Or.inl ⟨e, rfl⟩
    | ok r =>
      obtain ⟨D, t'⟩ := r
      exact Or.inr ⟨D, t', rfl, fun hnc => C01.PiBas.search_stored raw cfg hc lv hl K db t t' D hs hnc w ids hm⟩

/-- PiBas, the accepted configurations split in two with nothing in between: `prf_f_output_length = param_lambda` gives a
    scheme that sets up and searches correctly (`C01.PiBas.correct`); any other output length makes `EDBSetup` raise as soon
    as the database has a posting — loudly, never an index that answers wrongly -/
theorem PiBas.mismatch_is_loud (raw : RawCfg) (cfg : ChainCfg) (hcfg : PiBas.cfgBuild raw = .ok cfg) (lv : Leaves)
    (hl : LeafLaws lv) (lam out : Int) (hlam : getInt raw "param_lambda" = .ok lam)
    (hout : getInt raw "prf_f_output_length" = .ok out) (hne : out ≠ lam) (K : Bytes) (db : DB) (t : Tape)
    (hdb : ∃ p ∈ db, p.2 ≠ []) : ∃ e, Chain.setup cfg lv K db t = .error e := by
  obtain ⟨lam', out', ske, _, hlam', ho', hske, hc⟩ := PiBas.cfgBuild_ok raw cfg hcfg
  rw [hlam] at hlam'; cases hlam'
  rw [hout] at ho'; cases ho'
  have hk := new_keyLength lam ske hske
  subst hc
  apply Chain.setup_loud _ lv hl K db t rfl rfl
  · simp only [HmacPRF.new, LENGTH_UNLIMITED]; omega
  · simp only [HmacPRF.new]
    by_cases h0 : out = 0
    · subst h0
      simp [LENGTH_NOT_GIVEN]; omega
    · have : (out == LENGTH_NOT_GIVEN) = false := by simpa [LENGTH_NOT_GIVEN] using h0
      simp only [this, Bool.false_eq_true, if_false]
      omega
  · obtain ⟨p, hp, hpne⟩ := hdb
    exact ⟨p, hp, fun chs hch => by cases hch; exact hpne⟩

/-- SSE-2: REFUSED OR CORRECT, with nothing in between and nothing assumed about the run — for EVERY raw configuration the
    builder either refuses it, or the scheme it yields sets up every valid database under every key half of `param_k` bytes,
    generates the token of every stored keyword and answers it with exactly its list (`C01.SSE2.correct`).  There is no
    accepted SSE-2 configuration that raises later or answers wrongly: the bit widths of the address (`8·param_l` for the
    keyword, `bits(n + max)` for the counter) are all derived inside the builder. -/
theorem SSE2.refused_or_correct (raw : RawCfg) (lv : Leaves) (hl : LeafLaws lv) :
    (∃ e, SSE2.cfgBuild raw = .error e) ∨
    ∃ cfg, SSE2.cfgBuild raw = .ok cfg ∧
      ∀ (K1 : Bytes) (db : DB), (K1.length : Int) = cfg.k → (db.map (·.1)).Nodup →
        (∀ p ∈ db, NoLeadingNul p.1 ∧ (p.1.length : Int) ≤ cfg.l ∧ p.2.length ≤ cfg.n.toNat) →
        (∀ id, (db.flatMap (·.2)).count id ≤ cfg.max) →
        ∃ I, SSE2.setup cfg lv K1 db = .ok I ∧
          ∀ w ids, (w, ids) ∈ db → ∃ tk, SSE2.token cfg lv K1 w = .ok tk ∧ SSE2.search I tk = ids := by
  cases hc : SSE2.cfgBuild raw with
  | error e => exact Or.inl ⟨e, rfl⟩
  | ok cfg =>
    exact Or.inr ⟨cfg, rfl, fun K1 db hK hkeys hvalid hcap => C01.SSE2.correct raw cfg hc lv hl K1 hK db hkeys hvalid hcap⟩

end SSEPy.C08
