/-
  C08 — A configuration is either refused loudly or yields a correct scheme.

  * `missing_param_refused_*`: for each of the nine configuration builders, a configuration that lacks (or marks with
    -1) any parameter the builder reads is refused with ValueError when the configuration is built.
  * `nonpositive_param_refused`: a `param_*` number that is zero or negative (other than the marker -1) is refused by
    every builder — sizes that would make block partitioning silently return nothing never reach the scheme.
  * `PiBas/PiPack.refused_or_correct`: for EVERY raw configuration (any integers, any primitive names): the builder
    refuses it, or setup fails, or every search of a stored keyword that returns at all returns exactly its list.
    (Under the no-collision hypotheses it does return: C01.)
  Non-integer values (float, string, None) for integer fields are outside the theorems; the correspondence enumerates
  them on the real code.
-/
import SSEPyVerif.Props.C01
import SSEPyVerif.Proofs.Schemes.ChainComplete
import SSEPyVerif.Model.Schemes.Wire
import SSEPyVerif.Model.Schemes.SSE2
import SSEPyVerif.Generated.ConfigFacts
namespace SSEPy.C08
open SSEPy.Sch

theorem positive_cases (raw : RawCfg) : checkParamPositive raw = .ok () ∨ checkParamPositive raw = .error .valueError := by
  unfold checkParamPositive; split <;> simp

theorem exist_refuses (fields : List String) (raw : RawCfg) (f : String) (hf : f ∈ fields)
    (hm : raw.get f = none ∨ raw.get f = some (.int (-1))) : checkParamExist fields raw = .error .valueError := by
  unfold checkParamExist
  split
  · rename_i hall
    have := List.all_eq_true.mp hall f hf
    rcases hm with h | h <;> simp [h] at this
  · rfl

/-- what "lacks a needed parameter" means for a builder that reads the fields `fields` -/
def Lacks (fields : List String) (raw : RawCfg) : Prop :=
  ∃ f ∈ fields, raw.get f = none ∨ raw.get f = some (.int (-1))

macro "refuse_missing" builder:ident : tactic =>
  `(tactic| (
    intro raw hl
    obtain ⟨f, hf, hm⟩ := hl
    have he := exist_refuses _ raw f hf hm
    unfold $builder
    rcases positive_cases raw with hp | hp <;> simp [hp, he, bind, Except.bind]))

theorem missing_param_refused_PiBas :
    ∀ raw, Lacks ["param_lambda", "prf_f_output_length", "prf_f", "ske"] raw → PiBas.cfgBuild raw = .error .valueError := by
  refuse_missing PiBas.cfgBuild

theorem missing_param_refused_PiPack :
    ∀ raw, Lacks ["param_lambda", "param_B", "prf_f_output_length", "param_identifier_size", "prf_f", "ske"] raw →
      PiPack.cfgBuild raw = .error .valueError := by
  refuse_missing PiPack.cfgBuild

theorem missing_param_refused_PiPtr :
    ∀ raw, Lacks ["param_lambda", "param_B", "param_b", "prf_f_output_length", "param_identifier_size", "prf_f", "ske"] raw →
      PiPtr.cfgBuild raw = .error .valueError := by
  refuse_missing PiPtr.cfgBuild

theorem missing_param_refused_Pi2Lev :
    ∀ raw, Lacks ["param_lambda", "param_B", "param_b", "param_B_prime", "param_b_prime", "prf_f_output_length",
                  "param_identifier_size", "prf_f", "ske"] raw → Pi2Lev.cfgBuild raw = .error .valueError := by
  refuse_missing Pi2Lev.cfgBuild

theorem missing_param_refused_CT14 :
    ∀ raw, Lacks ["param_k", "param_k_prime", "param_l", "param_identifier_size", "prf_f", "prf_f_prime", "ske"] raw →
      CT14.cfgBuild raw = .error .valueError := by
  refuse_missing CT14.cfgBuild

theorem missing_param_refused_ANSS16 :
    ∀ raw, Lacks ["param_lambda", "param_k", "param_k_prime", "param_l", "param_l_prime", "param_identifier_size", "prf", "ske"] raw →
      ANSS16.cfgBuild raw = .error .valueError := by
  refuse_missing ANSS16.cfgBuild

theorem missing_param_refused_SSE1 :
    ∀ raw, Lacks ["param_k", "param_l", "param_s", "param_dictionary_size", "param_identifier_size",
                  "prp_pi", "prp_psi", "prf_f", "ske1", "ske2"] raw → SSE1.cfgBuild raw = .error .valueError := by
  refuse_missing SSE1.cfgBuild

theorem missing_param_refused_SSE2 :
    ∀ raw, Lacks ["param_k", "param_l", "param_n", "param_max_file_size"] raw → SSE2.cfgBuild raw = .error .valueError := by
  refuse_missing SSE2.cfgBuild

theorem missing_param_refused_DP17 :
    ∀ raw, Lacks ["param_lambda", "param_actual_storage_level_ratio", "param_L", "param_identifier_size", "rnd", "prf_f", "hash_h"] raw →
      DP17.cfgBuild raw = .error .valueError := by
  refuse_missing DP17.cfgBuild

/-- a zero or negative size (other than the marker -1) never gets past the shared check -/
theorem nonpositive_param_refused (raw : RawCfg) (f : String) (z : Int) (hm : (f, RawVal.int z) ∈ raw)
    (hf : f.startsWith "param_" = true) (hz : z ≤ 0) (hz1 : z ≠ -1) : checkParamPositive raw = .error .valueError := by
  unfold checkParamPositive
  split
  · rename_i hall
    have := List.all_eq_true.mp hall _ hm
    simp only [hf, Bool.not_true, Bool.false_or, Bool.or_eq_true, decide_eq_true_eq, beq_iff_eq] at this
    omega
  · rfl

/-- every builder starts with that check -/
theorem nonpositive_refused_everywhere (raw : RawCfg) (h : checkParamPositive raw = .error .valueError) :
    PiBas.cfgBuild raw = .error .valueError ∧ PiPack.cfgBuild raw = .error .valueError ∧
    PiPtr.cfgBuild raw = .error .valueError ∧ Pi2Lev.cfgBuild raw = .error .valueError ∧
    CT14.cfgBuild raw = .error .valueError ∧ ANSS16.cfgBuild raw = .error .valueError ∧
    SSE1.cfgBuild raw = .error .valueError ∧ SSE2.cfgBuild raw = .error .valueError ∧
    DP17.cfgBuild raw = .error .valueError := by
  refine ⟨?_, ?_, ?_, ?_, ?_, ?_, ?_, ?_, ?_⟩
  · unfold PiBas.cfgBuild; simp [h, bind, Except.bind]
  · unfold PiPack.cfgBuild; simp [h, bind, Except.bind]
  · unfold PiPtr.cfgBuild; simp [h, bind, Except.bind]
  · unfold Pi2Lev.cfgBuild; simp [h, bind, Except.bind]
  · unfold CT14.cfgBuild; simp [h, bind, Except.bind]
  · unfold ANSS16.cfgBuild; simp [h, bind, Except.bind]
  · unfold SSE1.cfgBuild; simp [h, bind, Except.bind]
  · unfold SSE2.cfgBuild; simp [h, bind, Except.bind]
  · unfold DP17.cfgBuild; simp [h, bind, Except.bind]

/-- PiBas: refused, or loud, or correct — for every raw configuration -/
theorem PiBas.refused_or_correct (raw : RawCfg) (lv : Leaves) (hl : LeafLaws lv) (K : Bytes) (db : DB) (t : Tape)
    (w : Bytes) (ids : List Bytes) (hm : (w, ids) ∈ db) :
    (∃ e, PiBas.cfgBuild raw = .error e) ∨
    ∃ cfg, PiBas.cfgBuild raw = .ok cfg ∧
      ((∃ e, Chain.setup cfg lv K db t = .error e) ∨
       ∃ D t', Chain.setup cfg lv K db t = .ok (D, t') ∧
         ((∀ L, Chain.encDb cfg lv K db t = .ok (L, t') → C01.Chain.NoColl cfg lv K db L) →
           ∃ tk, Chain.token cfg lv K w = .ok tk ∧ Chain.search cfg lv D tk = .ok ids)) := by
  cases hc : PiBas.cfgBuild raw with
  | error e => exact Or.inl ⟨e, rfl⟩
  | ok cfg =>
    refine Or.inr ⟨cfg, rfl, ?_⟩
    cases hs : Chain.setup cfg lv K db t with
    | error e => exact Or.inl ⟨e, rfl⟩
    | ok r =>
      obtain ⟨D, t'⟩ := r
      exact Or.inr ⟨D, t', rfl, fun hnc => C01.PiBas.search_stored raw cfg hc lv hl K db t t' D hs hnc w ids hm⟩

/-- PiBas, the accepted configurations split in two with nothing in between: `prf_f_output_length = param_lambda` gives a
    scheme that sets up and searches correctly (`C01.PiBas.correct`); any other output length makes `EDBSetup` raise as soon
    as the database has a posting — loudly, never an index that answers wrongly -/
theorem PiBas.mismatch_is_loud (raw : RawCfg) (cfg : ChainCfg) (hcfg : PiBas.cfgBuild raw = .ok cfg) (lv : Leaves)
    (hl : LeafLaws lv) (lam out : Int) (hlam : getInt raw "param_lambda" = .ok lam)
    (hout : getInt raw "prf_f_output_length" = .ok out) (hne : out ≠ lam) (K : Bytes) (db : DB) (t : Tape)
    (hdb : ∃ p ∈ db, p.2 ≠ []) : ∃ e, Chain.setup cfg lv K db t = .error e := by
  obtain ⟨lam', out', ske, _, hlam', ho', hske, hc⟩ := PiBas.cfgBuild_ok raw cfg hcfg
  rw [hlam] at hlam'; cases hlam'
  rw [hout] at ho'; cases ho'
  have hk := new_keyLength lam ske hske
  subst hc
  apply Chain.setup_loud _ lv hl K db t rfl rfl
  · simp only [HmacPRF.new, LENGTH_UNLIMITED]; omega
  · simp only [HmacPRF.new]
    by_cases h0 : out = 0
    · subst h0
      simp [LENGTH_NOT_GIVEN]; omega
    · have : (out == LENGTH_NOT_GIVEN) = false := by simpa [LENGTH_NOT_GIVEN] using h0
      simp only [this, Bool.false_eq_true, if_false]
      omega
  · obtain ⟨p, hp, hpne⟩ := hdb
    exact ⟨p, hp, fun chs hch => by cases hch; exact hpne⟩

/-- SSE-2: REFUSED OR CORRECT, with nothing in between and nothing assumed about the run — for EVERY raw configuration the
    builder either refuses it, or the scheme it yields sets up every valid database under every key half of `param_k` bytes,
    generates the token of every stored keyword and answers it with exactly its list (`C01.SSE2.correct`).  There is no
    accepted SSE-2 configuration that raises later or answers wrongly: the bit widths of the address (`8·param_l` for the
    keyword, `bits(n + max)` for the counter) are all derived inside the builder. -/
theorem SSE2.refused_or_correct (raw : RawCfg) (lv : Leaves) (hl : LeafLaws lv) :
    (∃ e, SSE2.cfgBuild raw = .error e) ∨
    ∃ cfg, SSE2.cfgBuild raw = .ok cfg ∧
      ∀ (K1 : Bytes) (db : DB), (K1.length : Int) = cfg.k → (db.map (·.1)).Nodup →
        (∀ p ∈ db, NoLeadingNul p.1 ∧ (p.1.length : Int) ≤ cfg.l ∧ p.2.length ≤ cfg.n.toNat) →
        (∀ id, (db.flatMap (·.2)).count id ≤ cfg.max) →
        ∃ I, SSE2.setup cfg lv K1 db = .ok I ∧
          ∀ w ids, (w, ids) ∈ db → ∃ tk, SSE2.token cfg lv K1 w = .ok tk ∧ SSE2.search I tk = ids := by
  cases hc : SSE2.cfgBuild raw with
  | error e => exact Or.inl ⟨e, rfl⟩
  | ok cfg =>
    exact Or.inr ⟨cfg, rfl, fun K1 db hK hkeys hvalid hcap => C01.SSE2.correct raw cfg hc lv hl K1 hK db hkeys hvalid hcap⟩


/-! ### the remaining label-addressed schemes: refused, or loud at setup, or — under the run's distinctness facts, which the
    driver evaluates on every recorded case — the token of every stored keyword is generated and answered with exactly its
    list.  Each statement ranges over EVERY raw configuration; the side conditions (`0 < idxSize`, `2 ≤ log2 s`) are the
    ones under which the scheme can address its array at all. -/

theorem PiPack.refused_or_correct (raw : RawCfg) (lv : Leaves) (hl : LeafLaws lv) (K : Bytes) (db : DB) (t : Tape)
    (w : Bytes) (ids : List Bytes) (hm : (w, ids) ∈ db) (hv : ValidIdsFor raw ids) :
    (∃ e, PiPack.cfgBuild raw = .error e) ∨
    ∃ cfg, PiPack.cfgBuild raw = .ok cfg ∧
      ((∃ e, Chain.setup cfg lv K db t = .error e) ∨
       ∃ D t', Chain.setup cfg lv K db t = .ok (D, t') ∧
         ((∀ L, Chain.encDb cfg lv K db t = .ok (L, t') → C01.Chain.NoColl cfg lv K db L) →
           ∃ tk, Chain.token cfg lv K w = .ok tk ∧ Chain.search cfg lv D tk = .ok ids)) := by
  cases hc : PiPack.cfgBuild raw with
  | error e => exact Or.inl ⟨e, rfl⟩
  | ok cfg =>
    refine Or.inr ⟨cfg, rfl, ?_⟩
    cases hs : Chain.setup cfg lv K db t with
    | error e => exact Or.inl ⟨e, rfl⟩
    | ok r =>
      obtain ⟨D, t'⟩ := r
      exact Or.inr ⟨D, t', rfl, fun hnc => C01.PiPack.search_stored raw cfg hc lv hl K db t t' D hs hnc w ids hm hv⟩

theorem PiPtr.refused_or_correct (raw : RawCfg) (lv : Leaves) (hl : LeafLaws lv) (K : Bytes) (db : DB) (t : Tape)
    (hsample : ∀ avail t0, takeNats t = .ok (avail, t0) → avail.Nodup ∧ ∀ p ∈ avail, 0 < p)
    (w : Bytes) (ids : List Bytes) (hm : (w, ids) ∈ db) (hne : ids ≠ []) :
    (∃ e, PiPtr.cfgBuild raw = .error e) ∨
    ∃ cfg, PiPtr.cfgBuild raw = .ok cfg ∧
      ((∃ e, PiPtr.setup cfg lv K db t = .error e) ∨
       ∃ edb t', PiPtr.setup cfg lv K db t = .ok (edb, t') ∧
         (C17.ValidIds ids cfg.idSize.toNat →
          (∀ L A avail t0, takeNats t = .ok (avail, t0) →
            PiPtr.encDb cfg lv K (bytesFor (PiPtr.arrayLen cfg db)) db avail (List.replicate (PiPtr.arrayLen cfg db) none) t0
              = .ok (L, A, t') → PiPtr.NoColl cfg lv K L w ids) →
           ∃ tk, PiPtr.token cfg lv K w = .ok tk ∧ PiPtr.search cfg lv edb tk = .ok ids)) := by
  cases hc : PiPtr.cfgBuild raw with
  | error e => exact Or.inl ⟨e, rfl⟩
  | ok cfg =>
    refine Or.inr ⟨cfg, rfl, ?_⟩
    cases hs : PiPtr.setup cfg lv K db t with
    | error e => exact Or.inl ⟨e, rfl⟩
    | ok r =>
      obtain ⟨edb, t'⟩ := r
      exact Or.inr ⟨edb, t', rfl, fun hv hnc =>
        C01.PiPtr.search_stored raw cfg hc lv hl K db t t' edb hs hsample w ids hm hne hv hnc⟩

theorem Pi2Lev.refused_or_correct (raw : RawCfg) (lv : Leaves) (hl : LeafLaws lv) (K : Bytes) (db : DB) (t : Tape)
    (hsample : ∀ avail t0, takeNats t = .ok (avail, t0) → avail.Nodup ∧ ∀ p ∈ avail, 0 < p)
    (w : Bytes) (ids : List Bytes) (hm : (w, ids) ∈ db) (hne : ids ≠ []) :
    (∃ e, Pi2Lev.cfgBuild raw = .error e) ∨
    ∃ cfg, Pi2Lev.cfgBuild raw = .ok cfg ∧
      ((∃ e, Pi2Lev.setup cfg lv K db t = .error e) ∨
       ∃ edb t', Pi2Lev.setup cfg lv K db t = .ok (edb, t') ∧
         (0 < cfg.idxSize → C17.ValidIds ids cfg.idSize.toNat →
          (∀ L A avail t0, takeNats t = .ok (avail, t0) →
            Pi2Lev.encDb cfg lv K db avail (List.replicate (Pi2Lev.arrayLen cfg db) none) t0 = .ok (L, A, t') →
              (L.map (·.1)).Nodup) →
           ∃ tk, Pi2Lev.token cfg lv K w = .ok tk ∧ Pi2Lev.search cfg lv edb tk = .ok ids)) := by
  cases hc : Pi2Lev.cfgBuild raw with
  | error e => exact Or.inl ⟨e, rfl⟩
  | ok cfg =>
    refine Or.inr ⟨cfg, rfl, ?_⟩
    cases hs : Pi2Lev.setup cfg lv K db t with
    | error e => exact Or.inl ⟨e, rfl⟩
    | ok r =>
      obtain ⟨edb, t'⟩ := r
      exact Or.inr ⟨edb, t', rfl, fun hidx hv hnc =>
        C01.Pi2Lev.search_stored raw cfg hc hidx lv hl K db t t' edb hs hsample w ids hm hne hv hnc⟩

theorem CT14.refused_or_correct (raw : RawCfg) (lv : Leaves) (hl : LeafLaws lv) (K : Bytes) (db : DB) (t : Tape)
    (hg : GoodTape t) (w : Bytes) (ids : List Bytes) :
    (∃ e, CT14.cfgBuild raw = .error e) ∨
    ∃ cfg, CT14.cfgBuild raw = .ok cfg ∧
      ((∃ e, CT14.setup cfg lv K db t = .error e) ∨
       ∃ HT t', CT14.setup cfg lv K db t = .ok (HT, t') ∧
         ((∀ x ∈ ids, x.length = cfg.idSize.toNat) →
          (∀ pdb t1, padLoop cfg.idSize.toNat (2 ^ clog2 db.total) (2 ^ clog2 db.total + 1) db db.total t = .ok (pdb, t1) →
            (w, ids) ∈ pdb) →
          (∀ TL, CT14.setupLists cfg lv K db t = .ok (TL, t') → CT14.NoColl cfg lv K TL w ids) →
           ∃ tk, CT14.token cfg lv K w = .ok tk ∧ CT14.search cfg lv HT tk = .ok ids)) := by
  cases hc : CT14.cfgBuild raw with
  | error e => exact Or.inl ⟨e, rfl⟩
  | ok cfg =>
    refine Or.inr ⟨cfg, rfl, ?_⟩
    cases hs : CT14.setup cfg lv K db t with
    | error e => exact Or.inl ⟨e, rfl⟩
    | ok r =>
      obtain ⟨HT, t'⟩ := r
      exact Or.inr ⟨HT, t', rfl, fun hidlen hpad hnc =>
        C01.CT14.search_stored raw cfg hc lv hl K db t t' HT hs hg w ids hidlen hpad hnc⟩

theorem ANSS16.refused_or_correct (raw : RawCfg) (lv : Leaves) (hl : LeafLaws lv) (K : Bytes) (db : DB) (t : Tape)
    (hg : GoodTape t) (w : Bytes) (ids : List Bytes) :
    (∃ e, ANSS16.cfgBuild raw = .error e) ∨
    ∃ cfg, ANSS16.cfgBuild raw = .ok cfg ∧
      ((∃ e, ANSS16.setup cfg lv K db t = .error e) ∨
       ∃ edb t', ANSS16.setup cfg lv K db t = .ok (edb, t') ∧
         ((∀ x ∈ ids, x.length = cfg.idSize.toNat) →
          (∀ pdb t1, padLoop cfg.idSize.toNat (2 ^ clog2 db.total) (2 ^ clog2 db.total + 1) db db.total t = .ok (pdb, t1) →
            (w, ids) ∈ pdb) →
          (∀ SL TL, ANSS16.setupLists cfg lv K db t = .ok (SL, TL, t') →
            (SL.map (·.1)).Nodup ∧ ∀ l ∈ TL, (l.map (·.1)).Nodup) →
           ∃ tk, ANSS16.token cfg lv K w = .ok tk ∧ ANSS16.search cfg lv edb tk = .ok ids)) := by
  cases hc : ANSS16.cfgBuild raw with
  | error e => exact Or.inl ⟨e, rfl⟩
  | ok cfg =>
    refine Or.inr ⟨cfg, rfl, ?_⟩
    cases hs : ANSS16.setup cfg lv K db t with
    | error e => exact Or.inl ⟨e, rfl⟩
    | ok r =>
      obtain ⟨edb, t'⟩ := r
      exact Or.inr ⟨edb, t', rfl, fun hidlen hpad hnc =>
        C01.ANSS16.search_stored raw cfg hc lv hl K db t t' edb hs hg w ids hidlen hpad hnc⟩

/-- SSE-1: no collision hypothesis on ψ or π (both derived from C15); what is left is about the random fillers of this run -/
theorem SSE1.refused_or_correct (raw : RawCfg) (lv : Leaves) (hl : LeafLaws lv) (K1 K2 K3 K4 : Bytes) (db : DB) (t : Tape)
    (hkeys : (db.map (·.1)).Nodup) (hvalid : ∀ p ∈ db, NoLeadingNul p.1) (w : Bytes) (ids : List Bytes) (hm : (w, ids) ∈ db) :
    (∃ e, SSE1.cfgBuild raw = .error e) ∨
    ∃ cfg, SSE1.cfgBuild raw = .ok cfg ∧
      ((∃ e, SSE1.setup cfg lv [K1, K2, K3, K4] db t = .error e) ∨
       ∃ edb t', SSE1.setup cfg lv [K1, K2, K3, K4] db t = .ok (edb, t') ∧
         (2 ≤ cfg.log2s → 2 ≤ (cfg.l * 8).toNat → SSE1.KeysGood cfg t →
          (∀ p ∈ db, ∀ x ∈ p.2, x.length = cfg.idSize.toNat) → ids.length ≤ cfg.s.toNat →
          (∀ g, SSE1.piBytes cfg lv K3 w = .ok g → ∀ b, Draw.bytes b ∈ t → b ≠ g) →
           ∃ tk, SSE1.token cfg lv [K1, K2, K3, K4] w = .ok tk ∧ SSE1.search cfg lv edb tk = .ok ids)) := by
  cases hc : SSE1.cfgBuild raw with
  | error e => exact Or.inl ⟨e, rfl⟩
  | ok cfg =>
    refine Or.inr ⟨cfg, rfl, ?_⟩
    cases hs : SSE1.setup cfg lv [K1, K2, K3, K4] db t with
    | error e => exact Or.inl ⟨e, rfl⟩
    | ok r =>
      obtain ⟨edb, t'⟩ := r
      exact Or.inr ⟨edb, t', rfl, fun h2 hl8 hk hidl hsz hfresh =>
        C01.SSE1.search_stored_valid raw cfg hc lv hl h2 hl8 K1 K2 K3 K4 db t t' edb hs hk hidl hkeys hvalid w ids hm hsz hfresh⟩


/-- DP17: refused, or loud at setup, or — under the run's distinctness facts and the trial-decryption hypothesis of
    `C01.DP17.search_stored` — the search of a stored keyword returns exactly its identifiers (as a set) -/
theorem DP17.refused_or_correct (raw : RawCfg) (lv : Leaves) (hl : LeafLaws lv) (k1 k2 k3 : Bytes) (db : DB) (t : Tape)
    (hkeys : (db.map (·.1)).Nodup) (hperm : DP17.PermsGood t) (w : Bytes) (ids : List Bytes) (hm : (w, ids) ∈ db) :
    (∃ e, DP17.cfgBuild raw = .error e) ∨
    ∃ cfg, DP17.cfgBuild raw = .ok cfg ∧
      ((∃ e, DP17.setup cfg lv [k1, k2, k3] db t = .error e) ∨
       ∃ edb t', DP17.setup cfg lv [k1, k2, k3] db t = .ok (edb, t') ∧
         ((∀ p ∈ db, ∀ id ∈ p.2, (id.length : Int) = cfg.idSize) →
          (∀ levels, DP17.levelsOf cfg db.total = .ok levels → DP17.KeyInj cfg lv k1 levels db) →
          (∀ levels, DP17.levelsOf cfg db.total = .ok levels → ∀ b, Draw.bytes b ∈ t → ∀ w ids c, (w, ids) ∈ db → 1 ≤ c →
            c ≤ DP17.nChunks cfg levels ids → DP17.htKey cfg lv k1 w c ≠ .ok b) →
          ∀ tag vtag etag, DP17.token cfg lv [k1, k2, k3] w = .ok [tag, vtag, etag] →
            DP17.ProbesClean cfg lv edb tag vtag etag ids →
            (∀ levels, DP17.levelsOf cfg db.total = .ok levels → ∀ c, DP17.nChunks cfg levels ids < c → c ≤ cfg.L.toNat →
              ∃ key, DP17.hashH cfg lv (tag ++ natToBytesMin c) = .ok key ∧ edb.HT.get key = none) →
            ∃ res, DP17.search cfg lv edb [tag, vtag, etag] = .ok res ∧ ∀ id, id ∈ res ↔ id ∈ ids)) := by
  cases hc : DP17.cfgBuild raw with
  | error e => exact Or.inl ⟨e, rfl⟩
  | ok cfg =>
    refine Or.inr ⟨cfg, rfl, ?_⟩
    cases hs : DP17.setup cfg lv [k1, k2, k3] db t with
    | error e => exact Or.inl ⟨e, rfl⟩
    | ok r =>
      obtain ⟨edb, t'⟩ := r
      exact Or.inr ⟨edb, t', rfl, fun hidl hinj hfresh tag vtag etag htk hclean hbeyond =>
        C01.DP17.search_stored raw cfg hc lv hl k1 k2 k3 db t t' edb hs hkeys hidl hinj hperm hfresh w ids hm tag vtag etag htk
          hclean hbeyond⟩


/-! ### the lists are the SOURCE's lists (regenerated from `schemes/*/*/config.py` on every run)

  `Generated/ConfigFacts.lean` holds, per scheme, the list literal `_parse_config` hands to `check_param_exist` (`required`), every
  key it reads from the configuration dictionary (`reads`) and whether the existence check is its first statement.  The Lean
  builders check exactly the source's lists; every field a builder reads is one it requires (SSE-2 reads two primitive names it
  does not list: a missing name falls through to the primitive look-up on the empty string, which refuses it — also while the
  configuration is built).  A field dropped from a check list, or a new field read without being required, changes the generated
  file and these theorems stop checking. -/

/-- the same fields, in any order -/
def sameFields (a b : List String) : Bool := a.all (fun f => b.contains f) && b.all (fun f => a.contains f)

theorem Lacks.of_sameFields {a b : List String} (h : sameFields a b = true) {raw : RawCfg} (hl : Lacks a raw) : Lacks b raw := by
  obtain ⟨f, hf, hm⟩ := hl
  simp only [sameFields, Bool.and_eq_true, List.all_eq_true] at h
  have := h.1 f hf
  exact ⟨f, by simpa using this, hm⟩

open SSEPy.Generated.Config in
/-- the source's `check_param_exist` lists name exactly the fields the Lean builders check (as sets: the order in which a list
    is written does not matter) -/
theorem required_lists_are_source :
    sameFields PiBas_required ["param_lambda", "prf_f_output_length", "prf_f", "ske"] = true ∧
    sameFields PiPack_required ["param_lambda", "param_B", "prf_f_output_length", "param_identifier_size", "prf_f", "ske"] = true ∧
    sameFields PiPtr_required ["param_lambda", "param_B", "param_b", "prf_f_output_length", "param_identifier_size", "prf_f", "ske"] = true ∧
    sameFields Pi2Lev_required ["param_lambda", "param_B", "param_b", "param_B_prime", "param_b_prime", "prf_f_output_length",
                       "param_identifier_size", "prf_f", "ske"] = true ∧
    sameFields CT14_required ["param_k", "param_k_prime", "param_l", "param_identifier_size", "prf_f", "prf_f_prime", "ske"] = true ∧
    sameFields ANSS16_required ["param_lambda", "param_k", "param_k_prime", "param_l", "param_l_prime", "param_identifier_size", "prf", "ske"] = true ∧
    sameFields SSE1_required ["param_k", "param_l", "param_s", "param_dictionary_size", "param_identifier_size",
                     "prp_pi", "prp_psi", "prf_f", "ske1", "ske2"] = true ∧
    sameFields SSE2_required ["param_k", "param_l", "param_n", "param_max_file_size"] = true ∧
    sameFields DP17_required ["param_lambda", "param_actual_storage_level_ratio", "param_L", "param_identifier_size", "rnd", "prf_f", "hash_h"] = true := by
  decide

open SSEPy.Generated.Config in
/-- a configuration that lacks (or marks -1) a parameter the SOURCE's `check_param_exist` list names is refused by the builder -/
theorem missing_required_param_refused (raw : RawCfg) :
    (Lacks PiBas_required raw → PiBas.cfgBuild raw = .error .valueError) ∧
    (Lacks PiPack_required raw → PiPack.cfgBuild raw = .error .valueError) ∧
    (Lacks PiPtr_required raw → PiPtr.cfgBuild raw = .error .valueError) ∧
    (Lacks Pi2Lev_required raw → Pi2Lev.cfgBuild raw = .error .valueError) ∧
    (Lacks CT14_required raw → CT14.cfgBuild raw = .error .valueError) ∧
    (Lacks ANSS16_required raw → ANSS16.cfgBuild raw = .error .valueError) ∧
    (Lacks SSE1_required raw → SSE1.cfgBuild raw = .error .valueError) ∧
    (Lacks SSE2_required raw → SSE2.cfgBuild raw = .error .valueError) ∧
    (Lacks DP17_required raw → DP17.cfgBuild raw = .error .valueError) := by
  obtain ⟨h1, h2, h3, h4, h5, h6, h7, h8, h9⟩ := required_lists_are_source
  exact ⟨fun h => missing_param_refused_PiBas raw (Lacks.of_sameFields h1 h), fun h => missing_param_refused_PiPack raw (Lacks.of_sameFields h2 h),
    fun h => missing_param_refused_PiPtr raw (Lacks.of_sameFields h3 h), fun h => missing_param_refused_Pi2Lev raw (Lacks.of_sameFields h4 h),
    fun h => missing_param_refused_CT14 raw (Lacks.of_sameFields h5 h), fun h => missing_param_refused_ANSS16 raw (Lacks.of_sameFields h6 h),
    fun h => missing_param_refused_SSE1 raw (Lacks.of_sameFields h7 h), fun h => missing_param_refused_SSE2 raw (Lacks.of_sameFields h8 h),
    fun h => missing_param_refused_DP17 raw (Lacks.of_sameFields h9 h)⟩

open SSEPy.Generated.Config in
/-- every field a builder reads is one it requires; the existence check is the first statement of every `_parse_config` -/
theorem reads_are_required :
    (∀ f ∈ PiBas_reads, f ∈ PiBas_required) ∧ (∀ f ∈ PiPack_reads, f ∈ PiPack_required) ∧
    (∀ f ∈ PiPtr_reads, f ∈ PiPtr_required) ∧ (∀ f ∈ Pi2Lev_reads, f ∈ Pi2Lev_required) ∧
    (∀ f ∈ CT14_reads, f ∈ CT14_required) ∧ (∀ f ∈ ANSS16_reads, f ∈ ANSS16_required) ∧
    (∀ f ∈ SSE1_reads, f ∈ SSE1_required) ∧ (∀ f ∈ DP17_reads, f ∈ DP17_required) ∧
    (∀ f ∈ SSE2_reads, f ∈ SSE2_required ∨ f = "prp_pi" ∨ f = "ske") ∧
    (PiBas_checked_first && PiPack_checked_first && PiPtr_checked_first && Pi2Lev_checked_first && CT14_checked_first &&
     ANSS16_checked_first && SSE1_checked_first && SSE2_checked_first && DP17_checked_first) = true := by
  decide

/-- SSE-2's two primitive names are not in its existence list; a configuration without them is refused by the look-up -/
theorem SSE2.missing_primitive_refused (raw : RawCfg) (h : raw.get "prp_pi" = none ∨ raw.get "ske" = none) :
    ∃ e, SSE2.cfgBuild raw = .error e := by
  have e1 : checkBitPrp "" = .error .valueError := by decide +kernel
  have e2 : isAesCbcName "" = false := by decide +kernel
  cases hc : SSE2.cfgBuild raw with
  | error e => exact ⟨e, rfl⟩
  | ok cfg =>
    exfalso
    unfold SSE2.cfgBuild at hc
    simp only [bind, Except.bind] at hc
    repeat (split at hc; · cases hc)
    rcases h with h | h
    · have : getName raw "prp_pi" = "" := by simp [getName, h]
      simp_all
    · have : getName raw "ske" = "" := by simp [getName, h]
      simp_all [throw, throwThe, MonadExceptOf.throw]

end SSEPy.C08
