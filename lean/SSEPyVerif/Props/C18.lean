/-
  C18 — Bit strings behave like fixed-width big-endian bit vectors.
  Reference model: the MSB-first list of bits `toBits` (with inverse `ofBits`), equivalently the
  LSB-indexed `Nat.testBit` of the value below the length.  Theorems only.
-/
import SSEPyVerif.Proofs.Bits
import SSEPyVerif.Proofs.Bytes
namespace SSEPy.C18
open Bitset

/-- The code's `(value, length)` pair and the list of bits are the same thing. -/
theorem bits_roundtrip (l : List Bool) : (ofBits l).toBits = l ∧ (ofBits l).WF :=
  ⟨toBits_ofBits l, ofBits_value_lt l⟩

theorem bits_roundtrip_inv (a : Bitset) (ha : a.WF) : ofBits a.toBits = a := ofBits_toBits a ha

/-- construction with an explicit length keeps value and length -/
theorem ctor_keeps (v len : Nat) (hlen : len ≠ 0) (h : v < 2 ^ len) :
    mk' v len = .ok ⟨v, len⟩ := mk'_ok_of_lt v len h hlen

/-- a value too wide for the length is refused -/
theorem ctor_rejects_wide (v len : Nat) (hlen : len ≠ 0) (h : 2 ^ len ≤ v) :
    mk' v len = .error .valueError := by
  unfold mk'
  have : bitLength v > len := by
    have : ¬ bitLength v ≤ len := fun hle => by have := (bitLength_le_iff v len).mp hle; omega
    omega
  simp [hlen, this]

/-- construction without a length uses the minimal number of bits: `len(Bitset(v)) == v.bit_length()` -/
theorem ctor_len_auto (v : Nat) :
    mk' v = .ok ⟨v, bitLength v⟩ ∧ (⟨v, bitLength v⟩ : Bitset).WF := by
  refine ⟨by simp [mk', autoLen], lt_two_pow_bitLength v⟩

/-- construction from bytes is construction from the big-endian integer -/
theorem ctor_bytes (b : Bytes) (len : Nat) : ofBytes b len = mk' (intFromBytes b) len := rfl

/-- concatenation is list append -/
theorem concat_spec (a b : Bitset) (ha : a.WF) (hb : b.WF) :
    ∃ c, a.concat b = .ok c ∧ c.WF ∧ c.toBits = a.toBits ++ b.toBits := by
  have hlt : a.value * 2 ^ b.length + b.value < 2 ^ (a.length + b.length) := by
    rw [Nat.pow_add]
    unfold WF at ha hb
    calc _ < a.value * 2 ^ b.length + 2 ^ b.length := Nat.add_lt_add_left hb _
      _ = (a.value + 1) * 2 ^ b.length := by rw [Nat.add_mul]; omega
      _ ≤ _ := Nat.mul_le_mul_right _ ha
  refine ⟨⟨a.value * 2 ^ b.length + b.value, a.length + b.length⟩, mk'_of_lt _ _ hlt, hlt, ?_⟩
  apply List.ext_getElem
  · simp [toBits]
  · intro i h1 h2
    rw [getElem_toBits]
    simp only [toBits_length] at h1
    simp only
    rw [Nat.mul_comm, Nat.testBit_two_pow_mul_add _ hb]
    by_cases hi : i < a.length
    · rw [List.getElem_append_left (by simpa [toBits] using hi), getElem_toBits]
      have : ¬ (a.length + b.length - i - 1 < b.length) := by omega
      simp only [this, ↓reduceIte]
      congr 1; omega
    · rw [List.getElem_append_right (by simp [toBits]; omega), getElem_toBits]
      have : a.length + b.length - i - 1 < b.length := by omega
      simp only [this, ↓reduceIte, toBits_length]
      congr 1; omega

/-- the higher `k` bits are the first `k` list elements; refused beyond the length -/
theorem higher_spec (a : Bitset) (ha : a.WF) (k : Nat) (hk : k ≤ a.length) :
    ∃ c, a.getHigherBits k = .ok c ∧ c.WF ∧ c.length = k ∧ c.toBits = a.toBits.take k ∧
      c.value = a.value / 2 ^ (a.length - k) := by
  have hlt : a.value / 2 ^ (a.length - k) < 2 ^ k := by
    apply Nat.div_lt_of_lt_mul
    rw [← Nat.pow_add]
    have : a.length - k + k = a.length := by omega
    rw [this]; exact ha
  refine ⟨⟨a.value / 2 ^ (a.length - k), k⟩, ?_, hlt, rfl, ?_, rfl⟩
  · unfold getHigherBits
    have h1 : ¬ ((k : Int) < 0) := by omega
    have h2 : ¬ ((k : Int) > (a.length : Int)) := by omega
    simp only [h1, h2, ↓reduceIte, Int.toNat_natCast, shr]
    exact mk'_of_lt _ _ hlt
  · apply List.ext_getElem
    · simp [toBits]; omega
    · intro i h1 h2
      simp only [toBits_length] at h1
      rw [getElem_toBits, List.getElem_take, getElem_toBits]
      simp only
      rw [Nat.testBit_div_two_pow]
      congr 1; omega

theorem higher_rejects_beyond_length (a : Bitset) (k : Int) (hk : k < 0 ∨ k > a.length) :
    a.getHigherBits k = .error .valueError := by
  unfold getHigherBits
  rcases hk with h | h
  · simp [h]
  · have : ¬ (k < 0) := by omega
    simp [this, h]

/-- the lower `k` bits are the last `k` list elements; refused beyond the length -/
theorem lower_spec (a : Bitset) (_ha : a.WF) (k : Nat) (hk : k ≤ a.length) :
    ∃ c, a.getLowerBits k = .ok c ∧ c.WF ∧ c.length = k ∧ c.toBits = a.toBits.drop (a.length - k) ∧
      c.value = a.value % 2 ^ k := by
  have hval : (a.value * 2 ^ (a.length - k)) % 2 ^ a.length / 2 ^ (a.length - k) = a.value % 2 ^ k := by
    apply Nat.eq_of_testBit_eq
    intro i
    rw [Nat.testBit_div_two_pow, Nat.testBit_mod_two_pow, Nat.testBit_mod_two_pow, Nat.testBit_mul_two_pow]
    have e : i + (a.length - k) - (a.length - k) = i := by omega
    rw [e]
    by_cases hi : i < k
    · have h1 : i + (a.length - k) < a.length := by omega
      have h2 : i + (a.length - k) ≥ a.length - k := by omega
      simp [hi, h1, h2]
    · have h1 : ¬ (i + (a.length - k) < a.length) := by omega
      simp [hi, h1]
  have hlt : a.value % 2 ^ k < 2 ^ k := Nat.mod_lt _ (Nat.pow_pos (by omega))
  refine ⟨⟨a.value % 2 ^ k, k⟩, ?_, hlt, rfl, ?_, rfl⟩
  · unfold getLowerBits
    have h1 : ¬ ((k : Int) < 0) := by omega
    have h2 : ¬ ((k : Int) > (a.length : Int)) := by omega
    simp only [h1, h2, ↓reduceIte, Int.toNat_natCast, shr, shl, hval]
    exact mk'_of_lt _ _ hlt
  · apply List.ext_getElem
    · simp [toBits]; omega
    · intro i h1 h2
      simp only [toBits_length] at h1
      rw [getElem_toBits, List.getElem_drop, getElem_toBits]
      simp only
      rw [Nat.testBit_mod_two_pow]
      have : k - i - 1 < k := by omega
      simp only [this, decide_true, Bool.true_and]
      congr 1; omega

theorem lower_rejects_beyond_length (a : Bitset) (k : Int) (hk : k < 0 ∨ k > a.length) :
    a.getLowerBits k = .error .valueError := by
  unfold getLowerBits
  rcases hk with h | h
  · simp [h]
  · have : ¬ (k < 0) := by omega
    simp [this, h]

/-- `(a + b).higher(len a) == a` and `(a + b).lower(len b) == b` -/
theorem higher_lower_concat (a b : Bitset) (ha : a.WF) (hb : b.WF) :
    ∃ c, a.concat b = .ok c ∧ c.getHigherBits a.length = .ok a ∧ c.getLowerBits b.length = .ok b := by
  obtain ⟨c, hc, hcwf, hbits⟩ := concat_spec a b ha hb
  have hclen : c.length = a.length + b.length := by
    rw [← toBits_length c, hbits]; simp [toBits]
  obtain ⟨h, hh, hhwf, hhlen, hhbits, _⟩ := higher_spec c hcwf a.length (by omega)
  obtain ⟨l, hl, hlwf, hllen, hlbits, _⟩ := lower_spec c hcwf b.length (by omega)
  refine ⟨c, hc, ?_, ?_⟩
  · rw [hh]; congr 1
    apply eq_of_toBits_eq _ _ hhwf ha
    rw [hhbits, hbits, List.take_append_of_le_length (by simp [toBits])]
    exact List.take_of_length_le (by simp [toBits])
  · rw [hl]; congr 1
    apply eq_of_toBits_eq _ _ hlwf hb
    rw [hlbits, hbits, hclen]
    have : a.length + b.length - b.length = a.toBits.length := by simp [toBits]
    rw [this, List.drop_left]

/-- halving without padding splits the list in ⌊n/2⌋ and ⌈n/2⌉ bits; concatenating restores it -/
theorem half_not_padding_spec (x : Bitset) (hx : x.WF) :
    ∃ l r, x.halfNotPadding = .ok (l, r) ∧ l.WF ∧ r.WF ∧
      l.length = x.length / 2 ∧ r.length = (x.length + 1) / 2 ∧
      l.toBits ++ r.toBits = x.toBits := by
  obtain ⟨r, hr, hrwf, hrlen, hrbits, _⟩ := lower_spec x hx ((x.length + 1) / 2) (by omega)
  obtain ⟨l, hl, hlwf, hllen, hlbits, _⟩ := higher_spec x hx (x.length - (x.length + 1) / 2) (by omega)
  refine ⟨l, r, ?_, hlwf, hrwf, by omega, hrlen, ?_⟩
  · unfold halfNotPadding
    simp only [hr, hl, bind, Except.bind]
  · rw [hlbits, hrbits]
    have : x.length - (x.length + 1) / 2 = x.length - (x.length + 1) / 2 := rfl
    exact List.take_append_drop _ _

/-- `half_bits` pads the left half to the right half's length (one leading zero for odd lengths) -/
theorem half_spec (x : Bitset) (hx : x.WF) :
    ∃ l r, x.half = .ok (l, r) ∧ l.WF ∧ r.WF ∧
      l.length = (x.length + 1) / 2 ∧ r.length = (x.length + 1) / 2 ∧
      l.value = x.value / 2 ^ ((x.length + 1) / 2) ∧ r.value = x.value % 2 ^ ((x.length + 1) / 2) := by
  obtain ⟨r, hr, hrwf, hrlen, hrbits, hrval⟩ := lower_spec x hx ((x.length + 1) / 2) (by omega)
  obtain ⟨l, hl, hlwf, hllen, hlbits, hlval'⟩ := higher_spec x hx (x.length - (x.length + 1) / 2) (by omega)
  have hlval : l.value = x.value / 2 ^ ((x.length + 1) / 2) := by
    have : x.length - (x.length - (x.length + 1) / 2) = (x.length + 1) / 2 := by omega
    rw [hlval', this]
  by_cases hodd : l.length < (x.length + 1) / 2
  · refine ⟨{ l with length := (x.length + 1) / 2 }, r, ?_, ?_, hrwf, rfl, hrlen, hlval, hrval⟩
    · unfold half halfNotPadding
      simp only [hr, hl, bind, Except.bind, hodd, ↓reduceIte]
    · unfold WF at hlwf ⊢
      exact Nat.lt_of_lt_of_le hlwf (Nat.pow_le_pow_right (by omega) (by simp; omega))
  · refine ⟨l, r, ?_, hlwf, hrwf, by omega, hrlen, hlval, hrval⟩
    unfold half halfNotPadding
    simp only [hr, hl, bind, Except.bind, hodd, ↓reduceIte]

/-- and / or / xor: bitwise on the values, result as long as the longer operand, well-formed -/
theorem and_spec (a b : Bitset) (ha : a.WF) :
    (a.and b).length = max a.length b.length ∧ (a.and b).WF ∧
    ∀ i, (a.and b).value.testBit i = (a.value.testBit i && b.value.testBit i) := by
  refine ⟨rfl, ?_, fun i => by simp [Bitset.and]⟩
  unfold WF Bitset.and
  exact Nat.lt_of_le_of_lt Nat.and_le_left (Nat.lt_of_lt_of_le ha (Nat.pow_le_pow_right (by omega) (Nat.le_max_left _ _)))

theorem or_spec (a b : Bitset) (ha : a.WF) (hb : b.WF) :
    (a.or b).length = max a.length b.length ∧ (a.or b).WF ∧
    ∀ i, (a.or b).value.testBit i = (a.value.testBit i || b.value.testBit i) := by
  refine ⟨rfl, ?_, fun i => by simp [Bitset.or]⟩
  unfold WF Bitset.or
  exact Nat.or_lt_two_pow
    (Nat.lt_of_lt_of_le ha (Nat.pow_le_pow_right (by omega) (Nat.le_max_left _ _)))
    (Nat.lt_of_lt_of_le hb (Nat.pow_le_pow_right (by omega) (Nat.le_max_right _ _)))

theorem xor_spec (a b : Bitset) (ha : a.WF) (hb : b.WF) :
    (a.xor b).length = max a.length b.length ∧ (a.xor b).WF ∧
    ∀ i, (a.xor b).value.testBit i = (a.value.testBit i ^^ b.value.testBit i) := by
  refine ⟨rfl, ?_, fun i => by simp [Bitset.xor]⟩
  unfold WF Bitset.xor
  exact Nat.xor_lt_two_pow
    (Nat.lt_of_lt_of_le ha (Nat.pow_le_pow_right (by omega) (Nat.le_max_left _ _)))
    (Nat.lt_of_lt_of_le hb (Nat.pow_le_pow_right (by omega) (Nat.le_max_right _ _)))

/-- invert flips exactly the bits below the length -/
theorem invert_spec (a : Bitset) (ha : a.WF) :
    a.invert.length = a.length ∧ a.invert.WF ∧
    ∀ i, a.invert.value.testBit i = (decide (i < a.length) && !a.value.testBit i) := by
  unfold WF at ha
  have hmod : a.value % 2 ^ a.length = a.value := Nat.mod_eq_of_lt ha
  refine ⟨rfl, ?_, ?_⟩
  · unfold WF invert; simp only [hmod]
    have := Nat.pow_pos (n := a.length) (show 0 < 2 by omega); omega
  · intro i
    unfold invert; simp only [hmod]
    have : 2 ^ a.length - 1 - a.value = 2 ^ a.length - (a.value + 1) := by omega
    rw [this, Nat.testBit_two_pow_sub_succ ha]

/-- fixed-width shifts: left shift drops the bits that leave the width, right shift is plain division -/
theorem shl_spec (a : Bitset) (k : Nat) :
    (a.shl k).length = a.length ∧ (a.shl k).WF ∧
    ∀ i, (a.shl k).value.testBit i = (decide (i < a.length) && decide (k ≤ i) && a.value.testBit (i - k)) := by
  refine ⟨rfl, Nat.mod_lt _ (Nat.pow_pos (by omega)), ?_⟩
  intro i
  simp only [shl, Nat.testBit_mod_two_pow, Nat.testBit_mul_two_pow, Bool.and_assoc]

theorem shr_spec (a : Bitset) (ha : a.WF) (k : Nat) :
    (a.shr k).length = a.length ∧ (a.shr k).WF ∧
    ∀ i, (a.shr k).value.testBit i = a.value.testBit (i + k) := by
  refine ⟨rfl, ?_, fun i => by simp [shr, Nat.testBit_div_two_pow]⟩
  unfold WF shr
  exact Nat.lt_of_le_of_lt (Nat.div_le_self _ _) ha

/-- in-range indexing is list indexing (0 = most significant bit) -/
theorem index_spec (a : Bitset) (i : Nat) (h : i < a.length) :
    a.getIdx i = .ok (a.toBits[i]'(by simpa [toBits] using h)) := by
  unfold getIdx
  have h1 : ¬ ((a.length : Int) - (i : Int) - 1 < 0) := by omega
  simp only [h1, ↓reduceIte, getElem_toBits]
  congr 2; omega

/-- slicing: every `start:stop:step` selects `toBits[p]` for `p` in the Python range of the slice -/
theorem slice_spec (a : Bitset) (s e st : Option Int) (idx : List Int)
    (hidx : sliceRange s e st a.length = .ok idx) :
    a.getSlice s e st = .ok (idx.map fun p => a.value.testBit ((a.length : Int) - p - 1).toNat) := by
  unfold getSlice
  simp [hidx]

/-- full slice, iteration and `str` are the list of bits -/
theorem full_slice_spec (a : Bitset) : a.getSlice none none none = .ok a.toBits := by
  have hr : sliceRange none none none a.length
      = .ok ((List.range a.length).map fun (i : Nat) => (i : Int)) := by
    unfold sliceRange sliceIndices
    simp only [Option.getD_none, bind, Except.bind]
    have h0 : ((1 : Int) == 0) = false := by decide
    have h1 : ¬ ((1 : Int) < 0) := by decide
    simp only [h0, h1, Bool.false_eq_true, ↓reduceIte]
    congr 1
    unfold pyRange rangeLen
    by_cases hl : a.length = 0
    · simp [hl]
    · have : (0 : Int) < (a.length : Int) := by omega
      simp only [this, ↓reduceIte, Int.sub_zero]
      have hn : (((a.length : Int) + 1 - 1) / 1).toNat = a.length := by simp
      have h10 : (1 : Int) > 0 := by decide
      simp only [h10, ↓reduceIte, hn]
      apply List.map_congr_left
      intro i _
      simp
  unfold getSlice
  rw [hr]
  simp only [List.map_map, toBits]
  congr 1
  apply List.map_congr_left
  intro i _
  simp only [Function.comp, bitAt]
  congr 1; omega

/-- conversion to bytes: the ⌈n/8⌉-byte big-endian encoding of the value -/
theorem bytes_spec (a : Bitset) (ha : a.WF) :
    ∃ b, a.toBytes = .ok b ∧ b.length = (a.length + 7) / 8 ∧ intFromBytes b = a.value := by
  have hlt : a.value < 256 ^ ((a.length + 7) / 8) := by
    have : (256 : Nat) = 2 ^ 8 := by decide
    rw [this, ← Nat.pow_mul]
    exact Nat.lt_of_lt_of_le ha (Nat.pow_le_pow_right (by omega) (by omega))
  refine ⟨toBE ((a.length + 7) / 8) a.value, ?_, toBE_length _ _, fromBE_toBE _ _ hlt⟩
  unfold toBytes
  have : ¬ (a.value ≥ 256 ^ ((a.length + 7) / 8)) := by omega
  simp [this]

/-- equality is equality of value and length -/
theorem eq_spec (a b : Bitset) : a.beq b = true ↔ a = b := by
  cases a; cases b; simp [beq]

/-- conversion to int is the value of the bit list -/
theorem int_spec (l : List Bool) : (ofBits l).toInt = l.foldl (fun acc b => 2 * acc + (if b then 1 else 0)) 0 := rfl

/-! ### non-vacuity -/
example : (⟨0b10110, 5⟩ : Bitset).WF := by decide
example : (⟨0b10110, 5⟩ : Bitset).toBits = [true, false, true, true, false] := by decide
example : (⟨0b101, 3⟩ : Bitset).concat ⟨0b01, 2⟩ = .ok ⟨0b10101, 5⟩ := by decide
example : (⟨0b10110, 5⟩ : Bitset).halfNotPadding = .ok (⟨0b10, 2⟩, ⟨0b110, 3⟩) := by decide
example : (⟨0b10110, 5⟩ : Bitset).half = .ok (⟨0b10, 3⟩, ⟨0b110, 3⟩) := by decide
example : (⟨0x1ff, 9⟩ : Bitset).toBytes = .ok [1, 255] := by decide

end SSEPy.C18
