/-
  C17 — Byte-level encodings round-trip: id blocks, splits, integers, hex.
  Property theorems only (helper lemmas live in Proofs/Bytes.lean).  Every statement is about the
  executable definitions of Model/Bytes.lean, which the correspondence run ties to
  toolkit/database_utils.py, toolkit/bytes_utils.py, toolkit/list_utils.py.
-/
import SSEPyVerif.Proofs.Bytes
namespace SSEPy.C17

/-- identifiers of exactly `sz` bytes, none all-zero -/
def ValidIds (ids : List Bytes) (sz : Nat) : Prop := ∀ id ∈ ids, id.length = sz ∧ allZero id = false

/-- the block size the packer uses: the default 0 selects `cap * sz` -/
def effBs (cap sz bs : Nat) : Nat := if bs = 0 then cap * sz else bs

/-- Packing then parsing returns the identifier list, for every capacity, identifier size and block
    size ≥ capacity·size (or the default 0), and any list length. -/
theorem parse_partition (ids : List Bytes) (cap sz bs : Nat) (hsz : 0 < sz) (hcap : 0 < cap)
    (hbs : bs = 0 ∨ cap * sz ≤ bs) (hv : ValidIds ids sz) :
    ∃ blocks, partitionBlocksNat ids cap sz bs = .ok blocks ∧
      (∀ b : Bytes, parseBySizeNat b sz = .ok (parseLoop b.length b sz)) ∧
      blocks.flatMap (fun b => parseLoop b.length b sz) = ids := by
  have hbs' : cap * sz ≤ effBs cap sz bs := by
    unfold effBs; rcases hbs with h | h
    · simp [h]
    · split <;> omega
  refine ⟨(chunksFuel ids.length ids cap).map fun grp => padBlock grp.flatten (effBs cap sz bs), ?_, ?_, ?_⟩
  · unfold partitionBlocksNat
    have h1 : ¬ (effBs cap sz bs < cap * sz) := by omega
    have h2 : cap ≠ 0 := by omega
    simp only [effBs] at h1 ⊢
    simp [h1, h2]
  · intro b
    unfold parseBySizeNat
    have : sz ≠ 0 := by omega
    simp [this]
  · rw [List.flatMap_map]
    have hmem := chunksFuel_mem_length cap hcap ids.length ids (Nat.le_refl _)
    have hflat := chunksFuel_flatten cap hcap ids.length ids (Nat.le_refl _)
    have hsub : ∀ c ∈ chunksFuel ids.length ids cap, ∀ id ∈ c, id ∈ ids := by
      intro c hc id hid
      rw [← hflat]; exact List.mem_flatten.mpr ⟨c, hc, hid⟩
    generalize chunksFuel ids.length ids cap = cs at hmem hflat hsub
    rw [← hflat]
    clear hflat
    induction cs with
    | nil => simp
    | cons c cs ih =>
      simp only [List.flatMap_cons, List.flatten_cons]
      rw [ih (fun c' hc' => hmem c' (by simp [hc'])) (fun c' hc' => hsub c' (by simp [hc']))]
      congr 1
      have hc := hmem c (by simp)
      have hvc : ∀ id ∈ c, id.length = sz ∧ allZero id = false := fun id hid => hv id (hsub c (by simp) id hid)
      have hlen : c.flatten.length = c.length * sz := flatten_length_of_all sz c (fun id hid => (hvc id hid).1)
      have hle : c.flatten.length ≤ effBs cap sz bs := by
        rw [hlen]
        calc c.length * sz ≤ cap * sz := Nat.mul_le_mul_right _ hc.2
          _ ≤ _ := hbs'
      unfold padBlock
      split
      · exact parseLoop_flatten_zeros sz hsz c _ _ hvc (Nat.le_refl _)
      · have := parseLoop_flatten_zeros sz hsz c 0 c.flatten.length hvc (by simp [zeros])
        simpa [zeros] using this

/-- The number of blocks is ⌈n / capacity⌉. -/
theorem partition_count (ids : List Bytes) (cap sz bs : Nat) (hcap : 0 < cap) (blocks : List Bytes)
    (h : partitionBlocksNat ids cap sz bs = .ok blocks) : blocks.length = ceilDiv ids.length cap := by
  unfold partitionBlocksNat at h
  have h2 : cap ≠ 0 := by omega
  simp only [h2, ↓reduceIte] at h
  by_cases hlt : (if bs = 0 then cap * sz else bs) < cap * sz
  · simp [hlt] at h
  · simp only [hlt, ↓reduceIte, Except.ok.injEq] at h
    rw [← h, List.length_map]
    exact chunksFuel_length cap hcap _ _ (Nat.le_refl _)

/-- All blocks have the same length: the effective block size (identifiers of the declared size). -/
theorem partition_block_len (ids : List Bytes) (cap sz bs : Nat) (hcap : 0 < cap)
    (hv : ∀ id ∈ ids, id.length = sz) (blocks : List Bytes)
    (h : partitionBlocksNat ids cap sz bs = .ok blocks) :
    ∀ b ∈ blocks, b.length = effBs cap sz bs := by
  unfold partitionBlocksNat at h
  have h2 : cap ≠ 0 := by omega
  simp only [h2, ↓reduceIte] at h
  by_cases hnot : (if bs = 0 then cap * sz else bs) < cap * sz
  · simp [hnot] at h
  · simp only [hnot, ↓reduceIte, Except.ok.injEq] at h
    intro b hb
    rw [← h] at hb
    simp only [List.mem_map] at hb
    obtain ⟨c, hc, rfl⟩ := hb
    have hmem := chunksFuel_mem_length cap hcap ids.length ids (Nat.le_refl _) c hc
    have hflat := chunksFuel_flatten cap hcap ids.length ids (Nat.le_refl _)
    have hlen : c.flatten.length = c.length * sz :=
      flatten_length_of_all sz c (fun id hid => hv id (by rw [← hflat]; exact List.mem_flatten.mpr ⟨c, hc, hid⟩))
    have hle : c.length * sz ≤ cap * sz := Nat.mul_le_mul_right _ hmem.2
    unfold effBs
    generalize (if bs = 0 then cap * sz else bs) = E at hnot ⊢
    unfold padBlock
    by_cases hp : c.flatten.length < E
    · simp only [hp, ↓reduceIte, List.length_append, zeros, List.length_replicate]; omega
    · simp only [hp, ↓reduceIte]; omega

/-- Parsing by entry count is parsing by identifier size whenever `block_size // capacity == size`. -/
theorem parse_by_count (blk : Bytes) (cap sz : Nat) (hcap : 0 < cap) (h : blk.length / cap = sz) :
    parseByCountNat blk cap = parseBySizeNat blk sz := by
  unfold parseByCountNat
  have : cap ≠ 0 := by omega
  simp [this, h]

/-- The Python-int wrappers agree with the natural-domain functions on non-negative arguments
    (this is the definition of the wrappers; stated so that the tie is explicit). -/
theorem wrappers_agree (ids : List Bytes) (blk : Bytes) (cap sz bs : Nat) :
    partitionBlocks ids cap sz bs = partitionBlocksNat ids cap sz bs ∧
    parseBySize blk sz = parseBySizeNat blk sz ∧
    parseByCount blk cap = parseByCountNat blk cap := by
  refine ⟨?_, ?_, ?_⟩
  · unfold partitionBlocks
    have : (0 : Int) ≤ cap ∧ (0 : Int) ≤ sz ∧ (0 : Int) ≤ bs := ⟨by omega, by omega, by omega⟩
    simp [this]
  · unfold parseBySize
    have : ¬ ((sz : Int) < 0) := by omega
    simp [this]
  · unfold parseByCount
    have : ¬ ((cap : Int) < 0) := by omega
    simp [this]

/-- split: joining the pieces restores the string. -/
theorem split_concat (x : Bytes) (lens : List Nat) (pieces : List Bytes)
    (h : splitBytes x lens = .ok pieces) : pieces.flatten = x := by
  unfold splitBytes at h
  split at h
  · cases h
  · rename_i hlen
    simp at hlen h
    subst h
    have key : ∀ (lens : List Nat) (c : Nat), c + lens.sum = x.length →
        (splitLoop x lens c).flatten = x.drop c := by
      intro lens
      induction lens with
      | nil => intro c hc; simp at hc; simp [splitLoop, hc]
      | cons n rest ih =>
        intro c hc
        simp only [List.sum_cons] at hc
        simp only [splitLoop, List.flatten_cons]
        rw [ih (c + n) (by omega)]
        simp only [slice]
        have h1 : List.drop c (List.take (c + n) x) = List.take n (List.drop c x) := by
          rw [List.drop_take]; simp
        rw [h1]
        conv => rhs; rw [← List.take_append_drop n (List.drop c x)]
        simp [List.drop_drop, Nat.add_comm]
    simpa using key lens 0 (by omega)

/-- split: a length vector that does not sum to the string length is refused with ValueError. -/
theorem split_mismatch_raises (x : Bytes) (lens : List Nat) (h : x.length ≠ lens.sum) :
    splitBytes x lens = .error .valueError := by
  unfold splitBytes; simp [h]

/-- split: when the vector sums to the length the split succeeds and the piece lengths are exactly
    the vector (zero lengths, leading or trailing, included). -/
theorem split_lengths (x : Bytes) (lens : List Nat) (h : x.length = lens.sum) :
    ∃ pieces, splitBytes x lens = .ok pieces ∧ pieces.map List.length = lens := by
  unfold splitBytes
  simp only [h, bne_self_eq_false, Bool.false_eq_true, ↓reduceIte]
  refine ⟨_, rfl, ?_⟩
  have key : ∀ (lens : List Nat) (c : Nat), c + lens.sum = x.length →
      (splitLoop x lens c).map List.length = lens := by
    intro lens
    induction lens with
    | nil => intro c _; simp [splitLoop]
    | cons n rest ih =>
      intro c hc
      simp only [List.sum_cons] at hc
      simp only [splitLoop, List.map_cons, List.cons.injEq]
      refine ⟨?_, ih (c + n) (by omega)⟩
      simp [slice]; omega
  exact key lens 0 (by omega)

/-- integers: `int_from_bytes(int_to_bytes(x, w)) == x` at any width that holds `x`. -/
theorem int_roundtrip (x w : Nat) (b : Bytes) (h : intToBytesNat x w = .ok b) :
    intFromBytes b = x ∧ b.length = w := by
  unfold intToBytesNat at h
  split at h
  · cases h
  · rename_i hlt
    simp only [Except.ok.injEq] at h
    subst h
    exact ⟨fromBE_toBE w x (by omega), toBE_length w x⟩

/-- integers: the default (minimal) width also round-trips. -/
theorem int_roundtrip_min (x : Nat) : intFromBytes (natToBytesMin x) = x := by
  unfold natToBytesMin intFromBytes
  apply fromBE_toBE
  unfold bitLength
  split
  · subst_vars; simp
  · rename_i hx
    have : x < 2 ^ (Nat.log2 x + 1) := Nat.lt_log2_self
    calc x < 2 ^ (Nat.log2 x + 1) := this
      _ ≤ 2 ^ (8 * ((Nat.log2 x + 1 + 7) / 8)) := Nat.pow_le_pow_right (by omega) (by omega)
      _ = 256 ^ ((Nat.log2 x + 1 + 7) / 8) := by rw [Nat.pow_mul]

/-- integers: a too-narrow width is refused (never truncated). -/
theorem int_too_narrow_refused (x w : Nat) (h : 256 ^ w ≤ x) :
    intToBytesNat x w = .error .overflowError := by
  unfold intToBytesNat
  simp [h]

theorem int_wrapper_agrees (x w : Nat) :
    intToBytes x w = intToBytesNat x w ∧ intToBytes x (-1) = .ok (natToBytesMin x) := by
  unfold intToBytes
  have h1 : ((w : Int) == -1) = false := by simp
  have h2 : ¬ ((w : Int) < 0) := by omega
  have h3 : ¬ ((x : Int) < 0) := by omega
  simp [h1, h2, h3]

/-- XOR is an involution (and keeps the length of its first argument). -/
theorem xor_involution (a b : Bytes) (h : b.length ≤ a.length) :
    ∃ c, bytesXor a b = .ok c ∧ c.length = a.length ∧ bytesXor c b = .ok a := by
  unfold bytesXor
  have : ¬ (b.length > a.length) := by omega
  simp only [this, ↓reduceIte]
  refine ⟨_, rfl, xorPrefix_length a b, ?_⟩
  have : ¬ (b.length > (xorPrefix a b).length) := by rw [xorPrefix_length]; omega
  simp only [this, ↓reduceIte, xorPrefix_involution]

theorem xor_longer_refused (a b : Bytes) (h : a.length < b.length) :
    bytesXor a b = .error .indexError := by
  unfold bytesXor; simp [h]

/-- hex: `fromhex(b.hex()) == b`. -/
theorem hex_roundtrip_bytes (b : Bytes) : fromHex (toHex b) = .ok b := by
  induction b with
  | nil => simp [toHex, fromHex]
  | cons x xs ih =>
    have hx : ∀ n, n < 16 → hexVal (hexDigit n) = some n := by decide
    simp only [toHex, List.flatMap_cons, List.cons_append, List.nil_append] at ih ⊢
    unfold fromHex
    have h1 := hx (x.toNat / 16) (by have := x.toNat_lt; omega)
    have h2 := hx (x.toNat % 16) (by omega)
    rw [h1, h2]
    simp only [ih, bind, Except.bind]
    congr 2
    have : x.toNat / 16 * 16 + x.toNat % 16 = x.toNat := Nat.div_add_mod' _ _
    rw [this]; simp

/-- hex: `bytes.fromhex(h).hex() == h.lower()` for every hex string the parser accepts
    (even length, hex digits only; anything else is refused with ValueError). -/
theorem hex_roundtrip (h : List Char) (b : Bytes) (hb : fromHex h = .ok b) :
    toHex b = h.map lowerHexChar := by
  induction h using fromHex.induct generalizing b with
  | case1 => simp [fromHex] at hb; subst hb; simp [toHex]
  | case2 c => simp [fromHex] at hb
  | case3 a c rest x y hy hx ih =>
    unfold fromHex at hb
    simp only [hx, hy] at hb
    cases hr : fromHex rest with
    | error e => simp [hr, bind, Except.bind] at hb
    | ok tl =>
      simp only [hr, bind, Except.bind] at hb
      cases hb
      obtain ⟨hx16, hxd⟩ := hexVal_spec a x hx
      obtain ⟨hy16, hyd⟩ := hexVal_spec c y hy
      have ih' := ih tl hr
      simp only [toHex, List.flatMap_cons, List.cons_append, List.nil_append, List.map_cons] at ih' ⊢
      rw [ih']
      have hlt : x * 16 + y < 256 := by omega
      have hn : (UInt8.ofNat (x * 16 + y)).toNat = x * 16 + y := by
        simp [UInt8.toNat_ofNat']; omega
      rw [hn]
      have h1 : (x * 16 + y) / 16 = x := by omega
      have h2 : (x * 16 + y) % 16 = y := by omega
      rw [h1, h2, hxd, hyd]
  | case4 a c rest hno =>
    unfold fromHex at hb
    split at hb
    · rename_i x y hx hy
      exact absurd hy (fun h2 => hno x y hx h2)
    · cases hb

/-! ### non-vacuity: the hypotheses are met by concrete non-trivial inputs, and the functions compute -/

example : ValidIds [[1, 2], [3, 4], [0, 5]] 2 := by unfold ValidIds; decide
example : partitionBlocksNat [[1, 2], [3, 4], [0, 5]] 2 2 5 = .ok [[1, 2, 3, 4, 0], [0, 5, 0, 0, 0]] := by decide
example : parseBySizeNat [0, 5, 0, 0, 0] 2 = .ok [[0, 5]] := by decide
example : splitBytes [1, 2, 3] [0, 2, 1, 0] = .ok [[], [1, 2], [3], []] := by decide
example : intToBytesNat 258 3 = .ok [0, 1, 2] := by decide
example : fromHex ['0', 'a', 'F', 'f'] = .ok [10, 255] := by decide

end SSEPy.C17
