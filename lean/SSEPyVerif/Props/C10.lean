/-
  C10 — Server keeps each service in a forward-only, write-once state machine.
  The theorems are about the program extracted from frontend/server/** on this run
  (`Generated.serverProgram`), which `program_is_expected` identifies with the program the refinement
  was proved for.  Histories are arbitrary finite lists of events on one service id: messages
  config(c) / upload(e) / search(t) / foreign sid / missing type or sid / unknown type, and
  reconnections (after or before the previous connection's cleanup), over any number of connections.
-/
import SSEPyVerif.Proofs.Server
import SSEPyVerif.Generated.ServerIR
namespace SSEPy.C10
open SSEPy.ServerIR

/-- the tie: what the translator read from the source today is the program of the proofs -/
theorem program_is_expected : SSEPy.Generated.serverProgram = expectedProgram := by decide

abbrev G := SSEPy.Generated.serverProgram

theorem G_eq : G = expectedProgram := program_is_expected

/-- every state reachable from the empty disk is consistent (`Inv`) -/
theorem reachable_inv (evs : List Ev) : Inv (runEvs G {} evs).1 := by
  rw [G_eq]; exact (run_refines evs {} inv_init).1

/-- the observable trace of any history equals the trace of the three-state reference machine, and
    the durable state denotes the reference machine's state -/
theorem refines_three_state_machine (evs : List Ev) :
    (runEvs G {} evs).2 = (spec3Run {} evs).2 ∧ absS (runEvs G {} evs).1 = (spec3Run {} evs).1 := by
  rw [G_eq]
  have h := run_refines evs {} inv_init
  have h0 : absS ({} : SrvD) = ({} : Spec3) := rfl
  rw [h0] at h
  exact ⟨h.2.1, h.2.2⟩

/-- one more event after any history behaves as one step of the reference machine -/
theorem step_after (evs : List Ev) (e : Ev) :
    let s := (runEvs G {} evs).1
    (stepEv G s e).2 = (spec3Step (absS s) e).2 ∧ absS (stepEv G s e).1 = (spec3Step (absS s) e).1 := by
  have hinv := reachable_inv evs
  rw [G_eq] at hinv ⊢
  exact (step_refines _ hinv e).2

/-! the reference machine's laws, hence (by `step_after`) the server's after any history -/

/-- the reference states that denote a durable state: nothing / a configuration / configuration and index -/
def Ok (t : Spec3) : Prop :=
  (t.st = 0 ∧ t.cfg = none ∧ t.edb = none) ∨ (t.st = 1 ∧ t.cfg.isSome ∧ t.edb = none) ∨
  (t.st = 2 ∧ t.cfg.isSome ∧ t.edb.isSome)

theorem reachable_ok (evs : List Ev) : Ok (absS (runEvs G {} evs).1) := by
  obtain ⟨st, cfg, edb, hs, _, _⟩ := reachable_inv evs
  rw [absS_of_shape _ st cfg edb hs]
  cases hs' : (runEvs G {} evs).1.disk
  rw [hs'] at hs
  cases hs <;> simp [Ok]

/-- the reported state only moves not-configured → configured → ready -/
theorem state_monotone (t : Spec3) (e : Ev) (hok : Ok t) : t.st ≤ (spec3Step t e).1.st ∧ (spec3Step t e).1.st ≤ 2 := by
  have h : t.st ≤ 2 := by rcases hok with h | h | h <;> omega
  cases e with
  | reconnect => exact ⟨Nat.le_refl _, h⟩
  | reconnectFast => exact ⟨Nat.le_refl _, h⟩
  | msg m =>
    cases m <;> simp only [spec3Step, spec3Msg, Spec3.die] <;>
      (repeat' split) <;> simp_all <;> omega

/-- an accepted configuration or index is never replaced -/
theorem write_once (t : Spec3) (e : Ev) (hok : Ok t) :
    (∀ c, t.cfg = some c → (spec3Step t e).1.cfg = some c) ∧ (∀ x, t.edb = some x → (spec3Step t e).1.edb = some x) := by
  unfold Ok at hok
  cases e with
  | reconnect => exact ⟨fun _ h => h, fun _ h => h⟩
  | reconnectFast => exact ⟨fun _ h => h, fun _ h => h⟩
  | msg m =>
    cases m <;> simp only [spec3Step, spec3Msg, Spec3.die] <;>
      (repeat' split) <;> simp_all

/-- a search is answered with a result only in the ready state, and then from the accepted index
    under the accepted configuration -/
theorem search_only_when_ready (t : Spec3) (e : Ev) (c : Cfg) (x : Edb) (k : Tok)
    (h : Out.result c x k ∈ (spec3Step t e).2) : t.st = 2 ∧ t.cfg = some c ∧ t.edb = some x := by
  cases e with
  | reconnect => simp [spec3Step] at h
  | reconnectFast => simp [spec3Step] at h
  | msg m =>
    cases m <;> simp only [spec3Step, spec3Msg, Spec3.die] at h <;>
      (repeat' split at h) <;> simp_all

/-- a refused request (the connection is closed on the client) changes nothing durable -/
theorem refused_changes_nothing (t : Spec3) (e : Ev) (h : Out.closed ∈ (spec3Step t e).2) :
    (spec3Step t e).1.st = t.st ∧ (spec3Step t e).1.cfg = t.cfg ∧ (spec3Step t e).1.edb = t.edb := by
  cases e with
  | reconnect => simp [spec3Step] at h
  | reconnectFast => simp [spec3Step] at h
  | msg m =>
    cases m <;> simp only [spec3Step, spec3Msg, Spec3.die] at h ⊢ <;>
      (repeat' split at h) <;> (repeat' split) <;> simp_all

/-- the state reported at the start of a connection is the state reached by the accepted requests -/
theorem reported_state_is_durable (t : Spec3) (e : Ev) (n : Nat) (h : Out.initEcho n ∈ (spec3Step t e).2) :
    n = t.st := by
  cases e with
  | reconnect => simpa [spec3Step] using h
  | reconnectFast => simpa [spec3Step] using h
  | msg m =>
    cases m <;> simp only [spec3Step, spec3Msg, Spec3.die] at h <;>
      (repeat' split at h) <;> simp_all

/-- on a consistent server state the echo reports exactly what is on disk -/
theorem reported_state_is_disk_state (evs : List Ev) :
    let s := (runEvs G {} evs).1
    (stepEv G s .reconnect).2 = [.initEcho (absS s).st] := by
  have h := step_after evs .reconnect
  simp only [spec3Step] at h
  exact h.1

/-! ### non-vacuity: a concrete history, evaluated by the kernel on the extracted program -/
example :
    (runEvs G {} [.msg (.search (some 1)), .msg (.config (some 7)), .msg (.config (some 8)), .msg (.upload 3),
                  .reconnectFast, .msg (.upload 4), .msg (.search (some 1))]).2
      = [.initEcho 0, .refused "result", .closed, .initEcho 0, .ok "config", .refused "config", .closed,
         .initEcho 1, .ok "upload_edb", .initEcho 2, .refused "upload_edb", .closed, .initEcho 2, .result 7 3 1] := by
  decide

end SSEPy.C10
