/- C10 — placeholder: the extracted program is the expected one (property theorems follow in Proofs/Server.lean) -/
import SSEPyVerif.Generated.ServerIR
namespace SSEPy.C10
open SSEPy.ServerIR

theorem recv_loop_standard : SSEPy.Generated.serverProgram.recvLoopIsStandard = true := by decide

end SSEPy.C10
