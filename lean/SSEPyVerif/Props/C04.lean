/-
  C04 — The stored index and the tokens never expose keywords or identifiers; encryption is randomized.

  What a theorem can carry here is structural:
  * every ciphertext produced by the encryption wrapper starts with the 16 random bytes drawn for it, so two
    encryptions with different draws are different ciphertexts — whatever the keys and messages, in particular for one
    identifier stored under every keyword, or the same database encrypted twice (`distinct_draws_distinct_ciphertexts`);
  * in the counter-chain schemes every stored value is such a ciphertext with its own draw, so pairwise distinct draws
    give pairwise distinct entries (`Chain.values_distinct`), and every stored key is a PRF output (`Chain.keys_are_prf`,
    from `encDb_labels`): keywords and identifiers enter the index only as ARGUMENTS of keyed primitives.
  * PiPtr and Pi2Lev: EVERY byte string `EDBSetup` stores — every occupied array cell and every dictionary value — is a ciphertext
    that starts with a 16-byte draw of this run (`PiPtr.index_is_ciphertexts`, `Pi2Lev.index_is_ciphertexts`): identifier blocks and pointer blocks enter
    the index only as plaintexts of the randomized cipher, for every key, database and tape; hence two set-ups whose
    draws do not overlap share no array cell and no dictionary value, even for the same key and database
    (`PiPtr.reencryption_shares_nothing`).
  * CT14 and ANSS16: every VALUE of every level table (and of ANSS16's size table) is either a concatenation of
    ciphertexts that starts with a 16-byte draw of this run or is itself a random draw — a padding entry
    (`CT14.values_from_randomness`, `ANSS16.values_from_randomness`): identifiers and list lengths enter the index only
    as plaintexts of the randomized cipher.
  That no keyword or identifier then occurs as a substring is a probability statement about pseudo-random bytes; the
  direct oracle scans the real serialized index and tokens.
-/
import SSEPyVerif.Proofs.Schemes.Chain
import SSEPyVerif.Proofs.Schemes.Prims
import SSEPyVerif.Proofs.Schemes.Stamped
import SSEPyVerif.Proofs.Schemes.StampedLevels
import SSEPyVerif.Proofs.Schemes.DP17Cells
import SSEPyVerif.Proofs.Schemes.SSE1Stamped
import SSEPyVerif.Proofs.Schemes.ChainStamped
import SSEPyVerif.Proofs.Schemes.SSE2Entries
namespace SSEPy.C04
open SSEPy.Sch SSEPy.Sch.Chain

/-- a ciphertext starts with the IV that was drawn for it -/
theorem ciphertext_starts_with_draw (s : AESxCBC) (E : BlockFn) (key iv msg c : Bytes) (hiv : iv.length = 16)
    (h : s.encrypt E key iv msg = .ok c) : c.take 16 = iv := C14.enc_iv_prefix s E key iv msg c hiv h

/-- different draws, different ciphertexts — any keys, any messages (equal ones included) -/
theorem distinct_draws_distinct_ciphertexts (s s' : AESxCBC) (E : BlockFn) (key key' iv iv' msg msg' c c' : Bytes)
    (hiv : iv.length = 16) (hiv' : iv'.length = 16) (hne : iv ≠ iv')
    (h : s.encrypt E key iv msg = .ok c) (h' : s'.encrypt E key' iv' msg' = .ok c') : c ≠ c' := by
  intro e
  have h1 := ciphertext_starts_with_draw s E key iv msg c hiv h
  have h2 := ciphertext_starts_with_draw s' E key' iv' msg' c' hiv' h'
  rw [e] at h1
  exact hne (h1.symm.trans h2)

/-- the draws consumed by a run: the 16-byte prefixes of the stored values, in order -/
theorem Chain.values_start_with_draws (cfg : ChainCfg) (lv : Leaves) (K1 K2 : Bytes) (c : Nat) (chs : List Bytes)
    (t t' : Tape) (ps : List (Bytes × Bytes)) (h : encChunks cfg lv K1 K2 c chs t = .ok (ps, t')) :
    t = (ps.map fun p => Draw.bytes (p.2.take 16)) ++ t' := by
  induction chs generalizing c t ps with
  | nil => simp [encChunks] at h; obtain ⟨rfl, rfl⟩ := h; rfl
  | cons ch rest ih =>
    simp only [encChunks, bind, Except.bind] at h
    split at h
    · cases h
    · rename_i l hl
      split at h
      · cases h
      · rename_i r hr0
        obtain ⟨d, t1⟩ := r
        obtain ⟨iv, hr, hd⟩ := skeEncrypt_ok hr0
        simp only at h
        split at h
        · cases h
        · rename_i r2 hr2
          obtain ⟨ps', t2⟩ := r2
          simp only [pure, Except.pure] at h
          cases h
          have hivl := takeBytes_len hr
          have hpre := ciphertext_starts_with_draw cfg.ske lv.E K2 iv ch d hivl hd
          have ht : t = Draw.bytes iv :: t1 := by
            cases t with
            | nil => simp [takeBytes] at hr
            | cons x xs =>
              cases x with
              | bytes b =>
                simp only [takeBytes] at hr
                split at hr
                · cases hr; rfl
                · cases hr
              | nat _ => simp [takeBytes] at hr
              | nats _ => simp [takeBytes] at hr
          rw [ht, ih _ _ _ hr2]
          simp [hpre]

/-- pairwise distinct draws give pairwise distinct stored values (one keyword's chain) -/
theorem Chain.values_distinct (cfg : ChainCfg) (lv : Leaves) (K1 K2 : Bytes) (c : Nat) (chs : List Bytes)
    (t t' : Tape) (ps : List (Bytes × Bytes)) (h : encChunks cfg lv K1 K2 c chs t = .ok (ps, t'))
    (hfresh : t.Nodup) : (ps.map (·.2)).Nodup := by
  have ht := Chain.values_start_with_draws cfg lv K1 K2 c chs t t' ps h
  rw [ht] at hfresh
  have h1 : (ps.map fun p => Draw.bytes (p.2.take 16)).Nodup := (List.nodup_append.mp hfresh).1
  have h2 : (ps.map fun p => Draw.bytes (p.2.take 16)) = (ps.map (·.2)).map (fun v => Draw.bytes (v.take 16)) := by
    simp [List.map_map]
  rw [h2] at h1
  exact List.Pairwise.of_map (fun v => Draw.bytes (v.take 16)) (fun a b hab e => hab (by rw [e])) h1

/-- every stored key of the counter-chain index is a PRF output under a per-keyword key derived by the PRF — no keyword,
    no identifier -/
theorem Chain.keys_are_prf (cfg : ChainCfg) (lv : Leaves) (K : Bytes) (db : DB) (t t' : Tape) (L : List (Bytes × Bytes))
    (h : encDb cfg lv K db t = .ok (L, t')) : L.map (·.1) = db.flatMap (kwLabels cfg lv K) :=
  encDb_labels cfg lv K db t t' L h

/-- PiPtr (schemes/CJJ14/PiPtr): every occupied array cell and every dictionary value of the index `EDBSetup` returns is a
    ciphertext whose first 16 bytes are one of the draws of this run — for every key, database and tape.  Nothing else is
    stored: no identifier, no pointer and no keyword in clear. -/
theorem PiPtr.index_is_ciphertexts (cfg : PiPtrCfg) (lv : Leaves) (K : Bytes) (db : DB) (t t' : Tape) (edb : PiPtrEDB)
    (h : PiPtr.setup cfg lv K db t = .ok (edb, t')) :
    (∀ c, some c ∈ edb.A → Stamped t c) ∧ (∀ p ∈ edb.D, Stamped t p.2) :=
  PiPtr.setup_stamped cfg lv K db t t' edb h

/-- two PiPtr set-ups whose randomness does not overlap share no stored byte string — whatever the keys and databases,
    the same ones included: encrypting a database twice gives two indexes with nothing in common -/
theorem PiPtr.reencryption_shares_nothing (cfg : PiPtrCfg) (lv : Leaves) (K K' : Bytes) (db db' : DB) (t t' u u' : Tape)
    (e e' : PiPtrEDB) (h : PiPtr.setup cfg lv K db t = .ok (e, t')) (h' : PiPtr.setup cfg lv K' db' u = .ok (e', u'))
    (hdis : ∀ b, Draw.bytes b ∈ t → Draw.bytes b ∉ u) :
    (∀ c, some c ∈ e.A → some c ∉ e'.A) ∧ (∀ p ∈ e.D, ∀ q ∈ e'.D, p.2 ≠ q.2) := by
  obtain ⟨a1, d1⟩ := PiPtr.index_is_ciphertexts cfg lv K db t t' e h
  obtain ⟨a2, d2⟩ := PiPtr.index_is_ciphertexts cfg lv K' db' u u' e' h'
  exact ⟨fun c hc hc' => hdis _ (a1 c hc) (a2 c hc'), fun p hp q hq he => hdis _ (d1 p hp) (by rw [he]; exact d2 q hq)⟩

/-- Pi2Lev (schemes/CJJ14/Pi2Lev): the same for the two-level scheme — every occupied array cell (identifier blocks and
    pointer blocks of both levels) and every dictionary value (small lists, pointer lists) is a ciphertext stamped with a
    draw of this run, for every key, database and tape -/
theorem Pi2Lev.index_is_ciphertexts (cfg : Pi2LevCfg) (lv : Leaves) (K : Bytes) (db : DB) (t t' : Tape) (edb : PiPtrEDB)
    (h : Pi2Lev.setup cfg lv K db t = .ok (edb, t')) :
    (∀ c, some c ∈ edb.A → Stamped t c) ∧ (∀ p ∈ edb.D, Stamped t p.2) :=
  Pi2Lev.setup_stamped cfg lv K db t t' edb h

/-- two Pi2Lev set-ups whose randomness does not overlap share no stored byte string -/
theorem Pi2Lev.reencryption_shares_nothing (cfg : Pi2LevCfg) (lv : Leaves) (K K' : Bytes) (db db' : DB) (t t' u u' : Tape)
    (e e' : PiPtrEDB) (h : Pi2Lev.setup cfg lv K db t = .ok (e, t')) (h' : Pi2Lev.setup cfg lv K' db' u = .ok (e', u'))
    (hdis : ∀ b, Draw.bytes b ∈ t → Draw.bytes b ∉ u) :
    (∀ c, some c ∈ e.A → some c ∉ e'.A) ∧ (∀ p ∈ e.D, ∀ q ∈ e'.D, p.2 ≠ q.2) := by
  obtain ⟨a1, d1⟩ := Pi2Lev.index_is_ciphertexts cfg lv K db t t' e h
  obtain ⟨a2, d2⟩ := Pi2Lev.index_is_ciphertexts cfg lv K' db' u u' e' h'
  exact ⟨fun c hc hc' => hdis _ (a1 c hc) (a2 c hc'), fun p hp q hq he => hdis _ (d1 p hp) (by rw [he]; exact d2 q hq)⟩

/-- CT14 (schemes/CT14/Pi): every value stored in a level table of the index is either the concatenation of a chunk's
    ciphertexts — which starts with the 16 random bytes drawn for the first of them — or a padding entry that is itself a
    random draw.  For every key, database and tape; the only assumption is that the block cipher maps 16 bytes to 16. -/
theorem CT14.values_from_randomness (cfg : CT14Cfg) (lv : Leaves) (hl : LeafLaws lv) (K : Bytes) (db : DB) (t t' : Tape)
    (HT : List Table) (h : CT14.setup cfg lv K db t = .ok (HT, t')) : ∀ T ∈ HT, ∀ p ∈ T, FromTape t p.2 :=
  CT14.setup_from cfg lv hl.enc_len K db t t' HT h

/-- ANSS16 Scheme 3: the same for the size table `HT(S)` (encrypted list lengths, random padding) and for every level table
    (padded lists encrypted identifier by identifier, random padding) -/
theorem ANSS16.values_from_randomness (cfg : ANSSCfg) (lv : Leaves) (hl : LeafLaws lv) (K : Bytes) (db : DB) (t t' : Tape)
    (edb : ANSSEDB) (h : ANSS16.setup cfg lv K db t = .ok (edb, t')) :
    (∀ p ∈ edb.HTS, FromTape t p.2) ∧ ∀ T ∈ edb.HTL, ∀ p ∈ T, FromTape t p.2 :=
  ANSS16.setup_from cfg lv hl.enc_len K db t t' edb h


/-- DP17: the level arrays hold nothing but whole cells of `param_identifier_cipher_len` bytes, and every cell is either a random
    draw of this run (a dummy) or `Enc(F_k3(w), iv, id ‖ 0^λ)` for a posting `(w, id)` of the database under an IV drawn in
    this run: keywords and identifiers enter the arrays only as arguments of the PRF and plaintexts of the randomized cipher —
    for every accepted configuration, key, database and tape. -/
theorem DP17.cells_from_randomness (raw : RawCfg) (cfg : DP17Cfg) (hcfg : DP17.cfgBuild raw = .ok cfg) (lv : Leaves)
    (hl : LeafLaws lv) (k1 k2 k3 : Bytes) (db : DB) (t t' : Tape) (edb : DP17EDB)
    (hs : DP17.setup cfg lv [k1, k2, k3] db t = .ok (edb, t'))
    (hidl : ∀ p ∈ db, ∀ id ∈ p.2, (id.length : Int) = cfg.idSize) :
    ∀ p ∈ edb.A, ∀ a ∈ p.2, ∃ cs : List Bytes, a = cs.flatten ∧ (∀ c ∈ cs, c.length = cfg.cipherLen) ∧
      ∀ c ∈ cs, Draw.bytes c ∈ t ∨ ∃ w id etag iv, (∃ ids, (w, ids) ∈ db ∧ id ∈ ids) ∧ cfg.prfF.call lv.hmac k3 w = .ok etag ∧
        Draw.bytes iv ∈ t ∧ iv.length = 16 ∧ cfg.rnd.encrypt lv.E etag iv (id ++ zeros cfg.lambda.toNat) = .ok c :=
  DP17.setup_cells cfg lv raw hcfg hl k1 k2 k3 db t t' edb hs hidl

/-- … hence every real cell starts with the IV drawn for it: two real cells with different IVs differ, whatever the
    keywords and identifiers (one identifier under every keyword included) -/
theorem DP17.real_cells_start_with_draws (cfg : DP17Cfg) (lv : Leaves) (etag iv msg c : Bytes) (hiv : iv.length = 16)
    (h : cfg.rnd.encrypt lv.E etag iv msg = .ok c) : c.take 16 = iv :=
  ciphertext_starts_with_draw cfg.rnd lv.E etag iv msg c hiv h


/-- SSE-1: every cell of the array `A` of the index `EDBSetup` returns is either a node ciphertext that starts with the 16
    random bytes drawn for it in this run, or a random filler drawn in this run — for every configuration, key, database and
    tape.  Identifiers, node keys and node addresses enter the array only as plaintexts of the randomized cipher; two set-ups
    whose draws do not overlap share no node ciphertext. -/
theorem SSE1.array_from_randomness (cfg : SSE1Cfg) (lv : Leaves) (K1 K2 K3 K4 : Bytes) (db : DB) (t t' : Tape) (edb : SSE1EDB)
    (h : SSE1.setup cfg lv [K1, K2, K3, K4] db t = .ok (edb, t')) : ∀ c ∈ edb.A, FromTape t c :=
  SSE1.setup_cells_from cfg lv K1 K2 K3 K4 db t t' edb h


/-- PiBas and PiPack, whole runs: EVERY value of the dictionary `EDBSetup` returns is a ciphertext that starts with the 16
    random bytes drawn for it in this run (every key, database and tape; identifiers — single or packed into blocks — enter the
    index only as plaintexts of the randomized cipher) … -/
theorem Chain.index_is_ciphertexts (cfg : ChainCfg) (lv : Leaves) (K : Bytes) (db : DB) (t t' : Tape) (D : Table)
    (h : Chain.setup cfg lv K db t = .ok (D, t')) : ∀ p ∈ D, Stamped t p.2 :=
  Chain.setup_stamped cfg lv K db t t' D h

/-- … so two set-ups whose draws do not overlap share no stored value, even for the same key and the same database -/
theorem Chain.reencryption_shares_nothing (cfg : ChainCfg) (lv : Leaves) (K K' : Bytes) (db db' : DB) (t t' u u' : Tape)
    (D D' : Table) (h : Chain.setup cfg lv K db t = .ok (D, t')) (h' : Chain.setup cfg lv K' db' u = .ok (D', u'))
    (hdis : ∀ b, Draw.bytes b ∈ t → Draw.bytes b ∉ u) : ∀ p ∈ D, ∀ q ∈ D', p.2 ≠ q.2 := by
  intro p hp q hq e
  have h1 := Chain.setup_stamped cfg lv K db t t' D h p hp
  have h2 := Chain.setup_stamped cfg lv K' db' u u' D' h' q hq
  rw [e] at h1
  exact hdis _ h1 h2


/-- SSE-1: every entry of the look-up table `T` is `(π_K3(w), (first address ‖ first key) ⊕ F_K2(w))` for a stored keyword `w`
    — the label a PRP output, the value masked by a PRF output — or a pair of random draws of the run.  No keyword, no
    identifier: the keyword enters only as the argument of the keyed PRP and PRF. -/
theorem SSE1.table_from_primitives (cfg : SSE1Cfg) (lv : Leaves) (K1 K2 K3 K4 : Bytes) (db : DB) (t t' : Tape) (edb : SSE1EDB)
    (h : SSE1.setup cfg lv [K1, K2, K3, K4] db t = .ok (edb, t')) :
    ∀ p ∈ edb.T,
      (∃ w ids x eta, (w, ids) ∈ db ∧ SSE1.piBytes cfg lv K3 w = .ok p.1 ∧
          cfg.prfF.call lv.hmac K2 (addLeadingZeros w cfg.l) = .ok eta ∧ bytesXor x eta = .ok p.2) ∨
      (Draw.bytes p.1 ∈ t ∧ Draw.bytes p.2 ∈ t) :=
  SSE1.setup_table_from cfg lv K1 K2 K3 K4 db t t' edb h


/-- SSE-2: every entry of the index maps a PRP value `π_K1(x ‖ j)` to an identifier of the database, `x` a stored keyword (a
    posting) or the all-zero word (a filler).  Keywords enter the index only as arguments of the keyed PRP; the identifiers
    are stored in the clear, which is what the property exempts SSE-2 for. -/
theorem SSE2.entries_are_prp_addressed (cfg : SSE2Cfg) (lv : Leaves) (K1 : Bytes) (db : DB) (I : ITable)
    (h : SSE2.setup cfg lv K1 db = .ok I) :
    ∀ e ∈ I, ∃ x j, SSE2.addr cfg lv K1 x j = .ok e.1 ∧ (x ∈ db.map (·.1) ∨ x = zeros cfg.l.toNat) ∧ e.2 ∈ db.flatMap (·.2) :=
  SSE2.setup_entries cfg lv K1 db I h

end SSEPy.C04
