/-
  C04 — The stored index and the tokens never expose keywords or identifiers; encryption is randomized.

  What a theorem can carry here is structural:
  * every ciphertext produced by the encryption wrapper starts with the 16 random bytes drawn for it, so two
    encryptions with different draws are different ciphertexts — whatever the keys and messages, in particular for one
    identifier stored under every keyword, or the same database encrypted twice (`distinct_draws_distinct_ciphertexts`);
  * in the counter-chain schemes every stored value is such a ciphertext with its own draw, so pairwise distinct draws
    give pairwise distinct entries (`Chain.values_distinct`), and every stored key is a PRF output (`Chain.keys_are_prf`,
    from `encDb_labels`): keywords and identifiers enter the index only as ARGUMENTS of keyed primitives.
  That no keyword or identifier then occurs as a substring is a probability statement about pseudo-random bytes; the
  direct oracle scans the real serialized index and tokens.
-/
import SSEPyVerif.Proofs.Schemes.Chain
import SSEPyVerif.Proofs.Schemes.Prims
namespace SSEPy.C04
open SSEPy.Sch SSEPy.Sch.Chain

/-- a ciphertext starts with the IV that was drawn for it -/
theorem ciphertext_starts_with_draw (s : AESxCBC) (E : BlockFn) (key iv msg c : Bytes) (hiv : iv.length = 16)
    (h : s.encrypt E key iv msg = .ok c) : c.take 16 = iv := C14.enc_iv_prefix s E key iv msg c hiv h

/-- different draws, different ciphertexts — any keys, any messages (equal ones included) -/
theorem distinct_draws_distinct_ciphertexts (s s' : AESxCBC) (E : BlockFn) (key key' iv iv' msg msg' c c' : Bytes)
    (hiv : iv.length = 16) (hiv' : iv'.length = 16) (hne : iv ≠ iv')
    (h : s.encrypt E key iv msg = .ok c) (h' : s'.encrypt E key' iv' msg' = .ok c') : c ≠ c' := by
  intro e
  have h1 := ciphertext_starts_with_draw s E key iv msg c hiv h
  have h2 := ciphertext_starts_with_draw s' E key' iv' msg' c' hiv' h'
  rw [e] at h1
  exact hne (h1.symm.trans h2)

/-- the draws consumed by a run: the 16-byte prefixes of the stored values, in order -/
theorem Chain.values_start_with_draws (cfg : ChainCfg) (lv : Leaves) (K1 K2 : Bytes) (c : Nat) (chs : List Bytes)
    (t t' : Tape) (ps : List (Bytes × Bytes)) (h : encChunks cfg lv K1 K2 c chs t = .ok (ps, t')) :
    t = (ps.map fun p => Draw.bytes (p.2.take 16)) ++ t' := by
  induction chs generalizing c t ps with
  | nil => simp [encChunks] at h; obtain ⟨rfl, rfl⟩ := h; rfl
  | cons ch rest ih =>
    simp only [encChunks, bind, Except.bind] at h
    split at h
    · cases h
    · rename_i l hl
      split at h
      · cases h
      · rename_i r hr0
        obtain ⟨d, t1⟩ := r
        obtain ⟨iv, hr, hd⟩ := skeEncrypt_ok hr0
        simp only at h
        split at h
        · cases h
        · rename_i r2 hr2
          obtain ⟨ps', t2⟩ := r2
          simp only [pure, Except.pure] at h
          cases h
          have hivl := takeBytes_len hr
          have hpre := ciphertext_starts_with_draw cfg.ske lv.E K2 iv ch d hivl hd
          have ht : t = Draw.bytes iv :: t1 := by
            cases t with
            | nil => simp [takeBytes] at hr
            | cons x xs =>
              cases x with
              | bytes b =>
                simp only [takeBytes] at hr
                split at hr
                · cases hr; rfl
                · cases hr
              | nat _ => simp [takeBytes] at hr
              | nats _ => simp [takeBytes] at hr
          rw [ht, ih _ _ _ hr2]
          simp [hpre]

/-- pairwise distinct draws give pairwise distinct stored values (one keyword's chain) -/
theorem Chain.values_distinct (cfg : ChainCfg) (lv : Leaves) (K1 K2 : Bytes) (c : Nat) (chs : List Bytes)
    (t t' : Tape) (ps : List (Bytes × Bytes)) (h : encChunks cfg lv K1 K2 c chs t = .ok (ps, t'))
    (hfresh : t.Nodup) : (ps.map (·.2)).Nodup := by
  have ht := Chain.values_start_with_draws cfg lv K1 K2 c chs t t' ps h
  rw [ht] at hfresh
  have h1 : (ps.map fun p => Draw.bytes (p.2.take 16)).Nodup := (List.nodup_append.mp hfresh).1
  have h2 : (ps.map fun p => Draw.bytes (p.2.take 16)) = (ps.map (·.2)).map (fun v => Draw.bytes (v.take 16)) := by
    simp [List.map_map]
  rw [h2] at h1
  exact List.Pairwise.of_map (fun v => Draw.bytes (v.take 16)) (fun a b hab e => hab (by rw [e])) h1

/-- every stored key of the counter-chain index is a PRF output under a per-keyword key derived by the PRF — no keyword,
    no identifier -/
theorem Chain.keys_are_prf (cfg : ChainCfg) (lv : Leaves) (K : Bytes) (db : DB) (t t' : Tape) (L : List (Bytes × Bytes))
    (h : encDb cfg lv K db t = .ok (L, t')) : L.map (·.1) = db.flatMap (kwLabels cfg lv K) :=
  encDb_labels cfg lv K db t t' L h

end SSEPy.C04
