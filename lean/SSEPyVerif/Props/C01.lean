/-
  C01 — Search returns exactly the posting list of every stored keyword.

  Per scheme: once `setup` has returned an index, the token of every stored keyword can be generated and `search`
  returns exactly that keyword's identifier list — same elements, same order, no exception, and in particular the
  probe loop terminates (`search` is not `.error .diverges`).  No bound on the number of keywords, list lengths or
  block sizes: the smallest database and every block / level / power-of-two boundary are instances.

  Hypotheses, all explicit:
  * `LeafLaws lv` — the AES block function is invertible on 16-byte blocks (leaf assumption; C14 lifts it to
    `Decrypt(Encrypt(m)) = m` for the CBC wrapper);
  * `NoColl` — the PRF labels that this run computes are pairwise distinct and the label one past the end of a
    keyword's chain is not a stored label (a statement about HMAC outputs on the inputs `1‖w`, `2‖w`, counters:
    true except with probability ≈ (#labels)²/2^(8·λ); the driver evaluates it on every recorded run);
  * `ValidIdsFor` — the property's own validity predicate for identifiers (PiPack).
-/
import SSEPyVerif.Proofs.Schemes.ChainCfg
import SSEPyVerif.Proofs.Schemes.SSE2
import SSEPyVerif.Proofs.Schemes.PiPtr
import SSEPyVerif.Proofs.Schemes.ANSS16
import SSEPyVerif.Proofs.Schemes.CT14
import SSEPyVerif.Proofs.Schemes.SSE1
import SSEPyVerif.Proofs.Schemes.Pi2Lev
import SSEPyVerif.Proofs.Schemes.DP17
import SSEPyVerif.Proofs.Schemes.DP17Exact
import SSEPyVerif.Proofs.Schemes.DP17Cells
import SSEPyVerif.Proofs.Schemes.ChainComplete
import SSEPyVerif.Proofs.Schemes.CT14Complete
import SSEPyVerif.Proofs.Schemes.PiPtrComplete
import SSEPyVerif.Proofs.Schemes.Pi2LevComplete
import SSEPyVerif.Proofs.Schemes.DP17Room
import SSEPyVerif.Proofs.Schemes.DP17Complete
import SSEPyVerif.Proofs.Schemes.SSE2Complete
import SSEPyVerif.Proofs.Schemes.SSE1Complete
namespace SSEPy.C01
open SSEPy.Sch SSEPy.Sch.Chain

/-- the run's labels do not collide (decidable; evaluated by the driver on every recorded run) -/
structure Chain.NoColl (cfg : ChainCfg) (lv : Leaves) (K : Bytes) (db : DB) (L : List (Bytes × Bytes)) : Prop where
  labels_distinct : (L.map (·.1)).Nodup
  end_fresh : ∀ w ids, (w, ids) ∈ db → EndFresh cfg lv K L w ids

/-- PiBas (schemes/CJJ14/PiBas) -/
theorem PiBas.search_stored (raw : RawCfg) (cfg : ChainCfg) (hcfg : PiBas.cfgBuild raw = .ok cfg)
    (lv : Leaves) (hl : LeafLaws lv) (K : Bytes) (db : DB) (t t' : Tape) (D : Table)
    (hs : Chain.setup cfg lv K db t = .ok (D, t'))
    (hnc : ∀ L, encDb cfg lv K db t = .ok (L, t') → Chain.NoColl cfg lv K db L)
    (w : Bytes) (ids : List Bytes) (hm : (w, ids) ∈ db) :
    ∃ tk, Chain.token cfg lv K w = .ok tk ∧ Chain.search cfg lv D tk = .ok ids := by
  obtain ⟨L, hL, rfl⟩ := setup_eq cfg lv K db t t' D hs
  have := hnc L hL
  exact search_present cfg lv (PiBas.dec_enc raw cfg hcfg lv hl) K db t t' L hL this.labels_distinct w ids hm
    (PiBas.roundTrip raw cfg hcfg ids) (this.end_fresh w ids hm)

/-- PiPack (schemes/CJJ14/PiPack): every block size `param_B ≥ 1` and identifier size — lists shorter than, equal to
    and longer than a block, and multiples of the block size alike -/
theorem PiPack.search_stored (raw : RawCfg) (cfg : ChainCfg) (hcfg : PiPack.cfgBuild raw = .ok cfg)
    (lv : Leaves) (hl : LeafLaws lv) (K : Bytes) (db : DB) (t t' : Tape) (D : Table)
    (hs : Chain.setup cfg lv K db t = .ok (D, t'))
    (hnc : ∀ L, encDb cfg lv K db t = .ok (L, t') → Chain.NoColl cfg lv K db L)
    (w : Bytes) (ids : List Bytes) (hm : (w, ids) ∈ db) (hv : ValidIdsFor raw ids) :
    ∃ tk, Chain.token cfg lv K w = .ok tk ∧ Chain.search cfg lv D tk = .ok ids := by
  obtain ⟨L, hL, rfl⟩ := setup_eq cfg lv K db t t' D hs
  have := hnc L hL
  exact search_present cfg lv (PiPack.dec_enc raw cfg hcfg lv hl) K db t t' L hL this.labels_distinct w ids hm
    (PiPack.roundTrip raw cfg hcfg ids hv) (this.end_fresh w ids hm)

/-- PiPtr (schemes/CJJ14/PiPtr): identifier blocks in the array at the recorded random positions, pointer blocks in a counter
    chain.  Hypotheses: the recorded `random.sample` is duplicate-free and positive (it is a sample of `range(1, |A|)`), and
    the run's labels do not collide. -/
theorem PiPtr.search_stored (raw : RawCfg) (cfg : PiPtrCfg) (hcfg : PiPtr.cfgBuild raw = .ok cfg) (lv : Leaves)
    (hl : LeafLaws lv) (K : Bytes) (db : DB) (t t' : Tape) (edb : PiPtrEDB)
    (hs : PiPtr.setup cfg lv K db t = .ok (edb, t'))
    (hsample : ∀ avail t0, takeNats t = .ok (avail, t0) → avail.Nodup ∧ ∀ p ∈ avail, 0 < p)
    (w : Bytes) (ids : List Bytes) (hm : (w, ids) ∈ db) (hne : ids ≠ []) (hv : C17.ValidIds ids cfg.idSize.toNat)
    (hnc : ∀ L A avail t0, takeNats t = .ok (avail, t0) →
      PiPtr.encDb cfg lv K (bytesFor (PiPtr.arrayLen cfg db)) db avail (List.replicate (PiPtr.arrayLen cfg db) none) t0 = .ok (L, A, t') →
      PiPtr.NoColl cfg lv K L w ids) :
    ∃ tk, PiPtr.token cfg lv K w = .ok tk ∧ PiPtr.search cfg lv edb tk = .ok ids := by
  obtain ⟨hB, hb, hsz, hplain⟩ := PiPtr.cfgBuild_ok cfg raw hcfg
  exact PiPtr.search_present cfg lv (fun key iv msg c hiv he => ske_dec_enc lv hl cfg.ske hplain key iv msg c hiv he)
    hB hb hsz K db t t' edb hs hsample w ids hm hne hv hnc

/-- ANSS16 Scheme 3 (schemes/ANSS16/Scheme3): the list is padded to 2^p entries and stored whole at level p; HT(S) holds its
    encrypted true length.  Hypotheses: no 16-byte draw is all zero (`GoodTape`: an all-zero IV would make the block parser
    stop early), the dummy keywords of the padding loop did not overwrite the keyword (`hpad`), and the labels of every
    table are distinct (`hnc`). -/
theorem ANSS16.search_stored (raw : RawCfg) (cfg : ANSSCfg) (hcfg : ANSS16.cfgBuild raw = .ok cfg) (lv : Leaves)
    (hl : LeafLaws lv) (K : Bytes) (db : DB) (t t' : Tape) (edb : ANSSEDB)
    (hs : ANSS16.setup cfg lv K db t = .ok (edb, t')) (hg : GoodTape t)
    (w : Bytes) (ids : List Bytes) (hidlen : ∀ x ∈ ids, x.length = cfg.idSize.toNat)
    (hpad : ∀ pdb t1, padLoop cfg.idSize.toNat (2 ^ clog2 db.total) (2 ^ clog2 db.total + 1) db db.total t = .ok (pdb, t1) →
      (w, ids) ∈ pdb)
    (hnc : ∀ SL TL, ANSS16.setupLists cfg lv K db t = .ok (SL, TL, t') →
      (SL.map (·.1)).Nodup ∧ ∀ l ∈ TL, (l.map (·.1)).Nodup) :
    ∃ tk, ANSS16.token cfg lv K w = .ok tk ∧ ANSS16.search cfg lv edb tk = .ok ids :=
  ANSS16.search_present cfg lv
    (fun key iv msg c hiv he => ske_dec_enc lv hl cfg.ske (ANSS16.cfgBuild_plain cfg raw hcfg) key iv msg c hiv he)
    hl.enc_len K db t t' edb hs hg w ids hidlen hpad hnc

/-- CT14 (schemes/CT14/Pi): the list is cut greedily into power-of-two chunks (`chunkAt`: a chunk at level j iff bit j of the
    length is set, starting where the higher bits end); the descending level scan of the search reassembles exactly the
    list — every length, in particular 1, powers of two and 2^k ± 1.  Hypotheses as for ANSS16, plus: at the levels where
    the keyword has no chunk its label is not stored. -/
theorem CT14.search_stored (raw : RawCfg) (cfg : CT14Cfg) (hcfg : CT14.cfgBuild raw = .ok cfg) (lv : Leaves)
    (hl : LeafLaws lv) (K : Bytes) (db : DB) (t t' : Tape) (HT : List Table)
    (hs : CT14.setup cfg lv K db t = .ok (HT, t')) (hg : GoodTape t)
    (w : Bytes) (ids : List Bytes) (hidlen : ∀ x ∈ ids, x.length = cfg.idSize.toNat)
    (hpad : ∀ pdb t1, padLoop cfg.idSize.toNat (2 ^ clog2 db.total) (2 ^ clog2 db.total + 1) db db.total t = .ok (pdb, t1) →
      (w, ids) ∈ pdb)
    (hnc : ∀ TL, CT14.setupLists cfg lv K db t = .ok (TL, t') → CT14.NoColl cfg lv K TL w ids) :
    ∃ tk, CT14.token cfg lv K w = .ok tk ∧ CT14.search cfg lv HT tk = .ok ids :=
  CT14.search_present cfg lv
    (fun key iv msg c hiv he => ske_dec_enc lv hl cfg.ske (CT14.cfgBuild_plain cfg raw hcfg) key iv msg c hiv he)
    hl.enc_len K db t t' HT hs hg w ids hidlen hpad hnc

/-- the greedy decomposition covers the list exactly once, in order (non-vacuity of `chunkAt` / `scan`) -/
theorem CT14.decomposition_covers (ids : List Bytes) (J : Nat) (h : ids.length < 2 ^ J) : CT14.scan ids J = ids :=
  CT14.scan_all ids J h

/-- SSE-1 (schemes/CGKO06/SSE1): per keyword a linked list of encrypted nodes at the addresses ψ_K1(ctr), a look-up table entry
    that hides the first address and key.  That node addresses never collide is PROVED here from the C15 theorems (ψ is the
    bit-level format-preserving PRP on `log2_s`-bit counters and can be inverted) — no collision hypothesis on ψ.
    Remaining hypotheses: HMAC digests have 20 bytes and the AES block function is invertible (`LeafLaws`); the array has
    at least 3 cells (`2 ≤ log2_s`); no key-sized draw is all zero (it would read as the list terminator); table labels of
    different keywords differ (`GammaInj`: π is a permutation too) and no random filler key equals this keyword's label. -/
theorem SSE1.search_stored (raw : RawCfg) (cfg : SSE1Cfg) (hcfg : SSE1.cfgBuild raw = .ok cfg) (lv : Leaves)
    (hl : LeafLaws lv) (h2 : 2 ≤ cfg.log2s) (K1 K2 K3 K4 : Bytes) (db : DB) (t t' : Tape) (edb : SSE1EDB)
    (hs : SSE1.setup cfg lv [K1, K2, K3, K4] db t = .ok (edb, t')) (hk : SSE1.KeysGood cfg t)
    (hidl : ∀ p ∈ db, ∀ x ∈ p.2, x.length = cfg.idSize.toNat) (hkeys : (db.map (·.1)).Nodup)
    (hg : SSE1.GammaInj cfg lv K3 db) (w : Bytes) (ids : List Bytes) (hm : (w, ids) ∈ db)
    (hsz : ids.length ≤ cfg.s.toNat)
    (hfresh : ∀ g, SSE1.piBytes cfg lv K3 w = .ok g → ∀ b, Draw.bytes b ∈ t → b ≠ g) :
    ∃ tk, SSE1.token cfg lv [K1, K2, K3, K4] w = .ok tk ∧ SSE1.search cfg lv edb tk = .ok ids := by
  obtain ⟨hlb, hplain⟩ := SSE1.cfgBuild_ok cfg raw hcfg
  exact SSE1.search_present cfg lv
    (fun key iv msg c hiv he => ske_dec_enc lv hl cfg.ske1 hplain key iv msg c hiv he) hlb K1 K2 K3 K4 db t t' edb hs
    (SSE1.psiInj_of_leaves cfg lv hl.hmac_len h2 K1 db.total) (SSE1.psiLen_of_leaves cfg lv hl.hmac_len h2 K1)
    hk hidl hkeys hg w ids hm hsz hfresh

/-- Pi2Lev (schemes/CJJ14/Pi2Lev): small lists inside the dictionary block, medium lists through one level of pointers,
    large lists through two; the level marks make the loop of `search` pick the right block capacity at each level.
    All three cases, every list length the configuration admits (the boundaries `b`, `B·b'` and `B·B'·b'` included).
    Hypotheses: the pointer width is positive (`param_B·idsize ≥ param_B'`), the recorded `random.sample` is duplicate-free
    and positive, the dictionary labels of this run are distinct. -/
theorem Pi2Lev.search_stored (raw : RawCfg) (cfg : Pi2LevCfg) (hcfg : Pi2Lev.cfgBuild raw = .ok cfg) (hidx : 0 < cfg.idxSize)
    (lv : Leaves) (hl : LeafLaws lv) (K : Bytes) (db : DB) (t t' : Tape) (edb : PiPtrEDB)
    (hs : Pi2Lev.setup cfg lv K db t = .ok (edb, t'))
    (hsample : ∀ avail t0, takeNats t = .ok (avail, t0) → avail.Nodup ∧ ∀ p ∈ avail, 0 < p)
    (w : Bytes) (ids : List Bytes) (hm : (w, ids) ∈ db) (hne : ids ≠ []) (hv : C17.ValidIds ids cfg.idSize.toNat)
    (hnc : ∀ L A avail t0, takeNats t = .ok (avail, t0) →
      Pi2Lev.encDb cfg lv K db avail (List.replicate (Pi2Lev.arrayLen cfg db) none) t0 = .ok (L, A, t') → (L.map (·.1)).Nodup) :
    ∃ tk, Pi2Lev.token cfg lv K w = .ok tk ∧ Pi2Lev.search cfg lv edb tk = .ok ids := by
  obtain ⟨hg, hplain⟩ := Pi2Lev.cfgBuild_ok cfg raw hcfg hidx
  exact Pi2Lev.search_present cfg lv (fun key iv msg c hiv he => ske_dec_enc lv hl cfg.ske hplain key iv msg c hiv he)
    hg K db t t' edb hs hsample w ids hm hne hv hnc

/-- SSE-2 (schemes/CGKO06/SSE2): the hypotheses are about this run's PRP values — the addresses of the stored postings
    are pairwise distinct and the address one past a list's end is not a stored address (both follow from the PRP being a
    permutation, C15, on the distinct inputs `w ‖ j`) — and about capacity: the token has at least as many entries as
    the list (`param_n` = number of distinct files ≥ any duplicate-free list) and no identifier occurs under more than
    `param_max` keywords (the filler loop does not run). -/
theorem SSE2.search_stored (cfg : SSE2Cfg) (lv : Leaves) (K1 : Bytes) (db : DB) (I : ITable)
    (hs : SSE2.setup cfg lv K1 db = .ok I) (hkeys : (db.map (·.1)).Nodup) (hinj : SSE2.AddrInj cfg lv K1 db)
    (hcap : ∀ I0 cnt, SSE2.encDb cfg lv K1 db [] [] = .ok (I0, cnt) → ∀ p ∈ cnt, p.2 ≤ cfg.max)
    (w : Bytes) (ids : List Bytes) (hm : (w, ids) ∈ db) (hn : ids.length ≤ cfg.n.toNat)
    (hend : ids.length < cfg.n.toNat →
      ∀ a, SSE2.addr cfg lv K1 w ((1 + ids.length : Nat) : Int) = .ok a → ¬ SSE2.IsStored cfg lv K1 db a)
    (tk : List Nat) (htk : SSE2.token cfg lv K1 w = .ok tk) : SSE2.search I tk = ids := by
  unfold SSE2.setup at hs
  simp only [bind, Except.bind] at hs
  split at hs
  · cases hs
  · rename_i r hr
    obtain ⟨I0, cnt⟩ := r
    have hI : I = I0 := by
      simp only at hs
      split at hs
      · rw [SSE2.fillAll_noop cfg lv K1 cnt _ I0 (hcap I0 cnt hr)] at hs; cases hs; rfl
      · simp only [pure, Except.pure] at hs; cases hs; rfl
    subst hI
    obtain ⟨l1, l2⟩ := SSE2.encDb_lookup cfg lv K1 db [] [] I cnt hr hkeys hinj
    obtain ⟨tl, tg⟩ := SSE2.tokenLoop_get cfg lv K1 w cfg.n.toNat 1 tk htk
    apply SSE2.search_prefix
    · intro i hi
      obtain ⟨a, ha, hl⟩ := l1 w ids hm i hi
      obtain ⟨a', ha', hg⟩ := tg i (by omega)
      rw [ha] at ha'; cases ha'
      exact ⟨a, hg, hl⟩
    · by_cases he : ids.length = cfg.n.toNat
      · left; omega
      · right
        have hlt : ids.length < cfg.n.toNat := by omega
        obtain ⟨a, ha, hg⟩ := tg ids.length hlt
        refine ⟨a, hg, ?_⟩
        rw [l2 a (hend hlt a ha)]
        rfl

/-- SSE-1 with NO collision hypothesis on either permutation: node addresses (ψ) and table labels (π) are distinct because
    both are the invertible bit PRP of C15, counters are distinct and keywords without a leading NUL byte have distinct
    integer encodings.  Left: leaf laws; the array has ≥ 3 cells and keywords ≥ 1 byte; no key-sized draw is all zero;
    no random filler key of the table equals this keyword's label. -/
theorem SSE1.search_stored_valid (raw : RawCfg) (cfg : SSE1Cfg) (hcfg : SSE1.cfgBuild raw = .ok cfg) (lv : Leaves)
    (hl : LeafLaws lv) (h2 : 2 ≤ cfg.log2s) (hl8 : 2 ≤ (cfg.l * 8).toNat) (K1 K2 K3 K4 : Bytes) (db : DB) (t t' : Tape)
    (edb : SSE1EDB) (hs : SSE1.setup cfg lv [K1, K2, K3, K4] db t = .ok (edb, t')) (hk : SSE1.KeysGood cfg t)
    (hidl : ∀ p ∈ db, ∀ x ∈ p.2, x.length = cfg.idSize.toNat) (hkeys : (db.map (·.1)).Nodup)
    (hvalid : ∀ p ∈ db, NoLeadingNul p.1) (w : Bytes) (ids : List Bytes) (hm : (w, ids) ∈ db)
    (hsz : ids.length ≤ cfg.s.toNat)
    (hfresh : ∀ g, SSE1.piBytes cfg lv K3 w = .ok g → ∀ b, Draw.bytes b ∈ t → b ≠ g) :
    ∃ tk, SSE1.token cfg lv [K1, K2, K3, K4] w = .ok tk ∧ SSE1.search cfg lv edb tk = .ok ids :=
  SSE1.search_stored raw cfg hcfg lv hl h2 K1 K2 K3 K4 db t t' edb hs hk hidl hkeys
    (SSE1.gammaInj_of_leaves cfg lv hl.hmac_len hl8 K3 db hvalid) w ids hm hsz hfresh

/-- SSE-2 with NO collision hypothesis: address distinctness is derived from the C15 theorems (the bit PRP is invertible)
    and the injectivity of the encoding `keyword ‖ counter` on keywords without a leading NUL byte — the validity
    condition of the property.  Left: leaf law (HMAC digest length), capacity (`hcap`, `hn`). -/
theorem SSE2.search_stored_valid (cfg : SSE2Cfg) (lv : Leaves) (hl : LeafLaws lv) (hl8 : 0 < (cfg.l * 8).toNat)
    (hbits : 0 < cfg.bitsNM) (K1 : Bytes) (db : DB) (I : ITable)
    (hs : SSE2.setup cfg lv K1 db = .ok I) (hkeys : (db.map (·.1)).Nodup) (hvalid : ∀ p ∈ db, NoLeadingNul p.1)
    (hcap : ∀ I0 cnt, SSE2.encDb cfg lv K1 db [] [] = .ok (I0, cnt) → ∀ p ∈ cnt, p.2 ≤ cfg.max)
    (w : Bytes) (ids : List Bytes) (hm : (w, ids) ∈ db) (hn : ids.length ≤ cfg.n.toNat)
    (tk : List Nat) (htk : SSE2.token cfg lv K1 w = .ok tk) : SSE2.search I tk = ids := by
  have inj := SSE2.addr_inj cfg lv hl.hmac_len hl8 hbits K1
  have same_list : ∀ w ids ids', (w, ids) ∈ db → (w, ids') ∈ db → ids = ids' := by
    intro w ids ids' h1 h2
    clear hs hcap hm htk hvalid
    induction db with
    | nil => cases h1
    | cons p rest ih =>
      simp only [List.map_cons, List.nodup_cons] at hkeys
      simp only [List.mem_cons] at h1 h2
      rcases h1 with rfl | h1 <;> rcases h2 with h2 | h2
      · cases h2; rfl
      · exact absurd (List.mem_map.mpr ⟨(w, ids'), h2, rfl⟩) hkeys.1
      · subst h2; exact absurd (List.mem_map.mpr ⟨(w, ids), h1, rfl⟩) hkeys.1
      · exact ih hkeys.2 h1 h2
  have addrOf_ok : ∀ w j a, SSE2.addrOf cfg lv K1 w j = some a → SSE2.addr cfg lv K1 w (j : Int) = .ok a := by
    intro w j a h
    unfold SSE2.addrOf at h
    split at h
    · rename_i a' ha; cases h; exact ha
    · cases h
  apply SSE2.search_stored cfg lv K1 db I hs hkeys ?_ hcap w ids hm hn ?_ tk htk
  · intro w ids i w' ids' i' a h1 h2 hi hi' he he'
    have := inj w w' (1 + i) (1 + i') a (hvalid _ h1) (hvalid _ h2) (addrOf_ok _ _ _ he) (addrOf_ok _ _ _ he')
    exact ⟨this.1, by omega⟩
  · intro hlt a ha hst
    obtain ⟨w', ids', i, h1, hi, he⟩ := hst
    have := inj w w' (1 + ids.length) (1 + i) a (hvalid _ hm) (hvalid _ h1) ha (addrOf_ok _ _ _ he)
    obtain ⟨rfl, hji⟩ := this
    have := same_list w ids ids' hm h1
    subst this
    omega

/-- DP17 (schemes/DP17/Pi), the half of C01 that is a consequence of the leaf laws: NO IDENTIFIER IS MISSED.  Whatever the
    number of levels, the level adjacent to the list length, the random choice of buckets, the shuffles and the padding:
    when `Setup` has returned an index and the search for a stored keyword returns, the result contains every identifier
    of that keyword's list.  (The binary search `_find_adjacent_i` always returns a level that holds the list in at most
    `L` chunks, so the `L` probes of `Search` reach every chunk; every chunk's hash-table entry decodes to the level and
    bucket the chunk was put in; the bucket's array cell is a concatenation of equally long ciphertexts, so cutting it by
    `param_identifier_cipher_len` gives the ciphertexts back; the entry decrypts under `F_k3(w)` to `id ‖ 0^λ`.)
    Hypotheses (all evaluated by the driver on every recorded run): leaf laws; identifiers have the configured size;
    the hash-table keys `H(F_k1(w) ‖ c)` of the chunks are pairwise different and no random filler key equals one of
    them; every recorded shuffle is a permutation.

    PARTIAL with respect to C01's "exactly": not proved are (a) that the search does not raise and (b) that it returns
    nothing else.  Both need that trial decryption of a FOREIGN bucket entry (another keyword's, or a random filler) under
    `F_k3(w)` does not end in `0^λ`, and that a probe beyond the last chunk does not hit a random filler of the hash table —
    facts about AES / HMAC outputs that hold with overwhelming probability but do not follow from the leaf laws.  The
    correspondence and the direct oracle compare the whole result on every run.  (`DP17.search_stored` below proves (a)
    outright and (b) under exactly that fact, stated as a hypothesis about this run's probes.) -/
theorem DP17.search_stored_partial (raw : RawCfg) (cfg : DP17Cfg) (hcfg : DP17.cfgBuild raw = .ok cfg) (lv : Leaves)
    (hl : LeafLaws lv) (k1 k2 k3 : Bytes) (db : DB) (t t' : Tape) (edb : DP17EDB)
    (hs : DP17.setup cfg lv [k1, k2, k3] db t = .ok (edb, t')) (hkeys : (db.map (·.1)).Nodup)
    (hidl : ∀ p ∈ db, ∀ id ∈ p.2, (id.length : Int) = cfg.idSize)
    (hinj : ∀ levels, DP17.levelsOf cfg db.total = .ok levels → DP17.KeyInj cfg lv k1 levels db) (hperm : DP17.PermsGood t)
    (hfresh : ∀ levels, DP17.levelsOf cfg db.total = .ok levels → ∀ b, Draw.bytes b ∈ t → ∀ w ids c, (w, ids) ∈ db → 1 ≤ c →
      c ≤ DP17.nChunks cfg levels ids → DP17.htKey cfg lv k1 w c ≠ .ok b)
    (w : Bytes) (ids : List Bytes) (hm : (w, ids) ∈ db) (tk : List Bytes) (htk : DP17.token cfg lv [k1, k2, k3] w = .ok tk)
    (res : List Bytes) (hres : DP17.search cfg lv edb tk = .ok res) : ∀ id ∈ ids, id ∈ res :=
  DP17.search_present cfg lv raw hcfg hl k1 k2 k3 db t t' edb hs hkeys hidl hinj hperm hfresh w ids hm tk htk res hres

/-- DP17, the FULL statement: the search for a stored keyword RETURNS — no KeyError from `A_dict[i]`, no IndexError from
    `A_dict[i][offset]`, no error from the mask XOR or from cutting the bucket: every chunk's hash-table entry is there,
    decodes to a level the index has and a bucket inside that level's array, and the bucket is a whole number of cells — and
    its result is, as a set, exactly the keyword's list.  On top of the hypotheses of `search_stored_partial` two facts
    about this run, both evaluated by the driver on every recorded case (`DP17.hypsB`):
    `ProbesClean` — whatever a probe under this keyword's token yields belongs to the keyword, i.e. trial decryption of a
    foreign or dummy cell under `F_k3(w)` does not end in `0^λ` (an AES fact, outside the leaf laws: this is the one place
    where "nothing extra" is assumed rather than derived); and the probes `nChunks < count ≤ L` miss the hash table. -/
theorem DP17.search_stored (raw : RawCfg) (cfg : DP17Cfg) (hcfg : DP17.cfgBuild raw = .ok cfg) (lv : Leaves)
    (hl : LeafLaws lv) (k1 k2 k3 : Bytes) (db : DB) (t t' : Tape) (edb : DP17EDB)
    (hs : DP17.setup cfg lv [k1, k2, k3] db t = .ok (edb, t')) (hkeys : (db.map (·.1)).Nodup)
    (hidl : ∀ p ∈ db, ∀ id ∈ p.2, (id.length : Int) = cfg.idSize)
    (hinj : ∀ levels, DP17.levelsOf cfg db.total = .ok levels → DP17.KeyInj cfg lv k1 levels db) (hperm : DP17.PermsGood t)
    (hfresh : ∀ levels, DP17.levelsOf cfg db.total = .ok levels → ∀ b, Draw.bytes b ∈ t → ∀ w ids c, (w, ids) ∈ db → 1 ≤ c →
      c ≤ DP17.nChunks cfg levels ids → DP17.htKey cfg lv k1 w c ≠ .ok b)
    (w : Bytes) (ids : List Bytes) (hm : (w, ids) ∈ db) (tag vtag etag : Bytes)
    (htk : DP17.token cfg lv [k1, k2, k3] w = .ok [tag, vtag, etag])
    (hclean : DP17.ProbesClean cfg lv edb tag vtag etag ids)
    (hbeyond : ∀ levels, DP17.levelsOf cfg db.total = .ok levels → ∀ c, DP17.nChunks cfg levels ids < c → c ≤ cfg.L.toNat →
      ∃ key, DP17.hashH cfg lv (tag ++ natToBytesMin c) = .ok key ∧ edb.HT.get key = none) :
    ∃ res, DP17.search cfg lv edb [tag, vtag, etag] = .ok res ∧ ∀ id, id ∈ res ↔ id ∈ ids :=
  DP17.search_exact cfg lv raw hcfg hl k1 k2 k3 db t t' edb hs hkeys hidl hinj hperm hfresh w ids hm tag vtag etag htk
    hclean hbeyond

/-- DP17 with the cryptographic assumption in its textbook form.  `ProbesClean` is DERIVED: every bucket of every level array
    is a whole number of cells, each a random draw of the run or `Enc(F_k3(w'), iv, id' ‖ 0^λ)` of a posting of the database
    (`DP17.setup_cells`); a cell of this keyword decrypts to its own identifier, and `WrongKeyRejected` says that under
    `F_k3(w)` trial decryption accepts neither a dummy nor another keyword's ciphertext.  So: the search of a stored keyword
    returns, and its result is exactly the keyword's list (as a set).  (`WrongKeyRejected` speaks about cells the real search
    never decrypts, so the driver cannot evaluate it from a recorded run; it evaluates `ProbesClean` itself — `search_stored`.) -/
theorem DP17.search_stored_of_wrongKey (raw : RawCfg) (cfg : DP17Cfg) (hcfg : DP17.cfgBuild raw = .ok cfg) (lv : Leaves)
    (hl : LeafLaws lv) (k1 k2 k3 : Bytes) (db : DB) (t t' : Tape) (edb : DP17EDB)
    (hs : DP17.setup cfg lv [k1, k2, k3] db t = .ok (edb, t')) (hkeys : (db.map (·.1)).Nodup)
    (hidl : ∀ p ∈ db, ∀ id ∈ p.2, (id.length : Int) = cfg.idSize)
    (hinj : ∀ levels, DP17.levelsOf cfg db.total = .ok levels → DP17.KeyInj cfg lv k1 levels db) (hperm : DP17.PermsGood t)
    (hfresh : ∀ levels, DP17.levelsOf cfg db.total = .ok levels → ∀ b, Draw.bytes b ∈ t → ∀ w ids c, (w, ids) ∈ db → 1 ≤ c →
      c ≤ DP17.nChunks cfg levels ids → DP17.htKey cfg lv k1 w c ≠ .ok b)
    (w : Bytes) (ids : List Bytes) (hm : (w, ids) ∈ db) (tag vtag etag : Bytes)
    (htk : DP17.token cfg lv [k1, k2, k3] w = .ok [tag, vtag, etag])
    (hwk : DP17.WrongKeyRejected cfg lv k3 db t w etag)
    (hbeyond : ∀ levels, DP17.levelsOf cfg db.total = .ok levels → ∀ c, DP17.nChunks cfg levels ids < c → c ≤ cfg.L.toNat →
      ∃ key, DP17.hashH cfg lv (tag ++ natToBytesMin c) = .ok key ∧ edb.HT.get key = none) :
    ∃ res, DP17.search cfg lv edb [tag, vtag, etag] = .ok res ∧ ∀ id, id ∈ res ↔ id ∈ ids :=
  DP17.search_exact cfg lv raw hcfg hl k1 k2 k3 db t t' edb hs hkeys hidl hinj hperm hfresh w ids hm tag vtag etag htk
    (DP17.probesClean_of_wrongKey cfg lv raw hcfg hl k1 k2 k3 db t t' edb hs hkeys hidl w ids hm tag vtag etag htk hwk) hbeyond

/-- without the two run-specific facts the probes of the stored chunks still all return (this part has no cryptographic
    hypothesis beyond key distinctness): the number of chunks is at most `L` and each probe finds its bucket -/
theorem DP17.probes_of_stored_chunks_return (raw : RawCfg) (cfg : DP17Cfg) (hcfg : DP17.cfgBuild raw = .ok cfg) (lv : Leaves)
    (hl : LeafLaws lv) (k1 k2 k3 : Bytes) (db : DB) (t t' : Tape) (edb : DP17EDB)
    (hs : DP17.setup cfg lv [k1, k2, k3] db t = .ok (edb, t')) (hkeys : (db.map (·.1)).Nodup)
    (hidl : ∀ p ∈ db, ∀ id ∈ p.2, (id.length : Int) = cfg.idSize)
    (hinj : ∀ levels, DP17.levelsOf cfg db.total = .ok levels → DP17.KeyInj cfg lv k1 levels db) (hperm : DP17.PermsGood t)
    (hfresh : ∀ levels, DP17.levelsOf cfg db.total = .ok levels → ∀ b, Draw.bytes b ∈ t → ∀ w ids c, (w, ids) ∈ db → 1 ≤ c →
      c ≤ DP17.nChunks cfg levels ids → DP17.htKey cfg lv k1 w c ≠ .ok b)
    (w : Bytes) (ids : List Bytes) (hm : (w, ids) ∈ db) (tag vtag etag : Bytes)
    (htk : DP17.token cfg lv [k1, k2, k3] w = .ok [tag, vtag, etag]) :
    ∃ levels, DP17.levelsOf cfg db.total = .ok levels ∧ DP17.nChunks cfg levels ids ≤ cfg.L.toNat ∧
      ∀ c, 1 ≤ c → c ≤ DP17.nChunks cfg levels ids → ∃ key here, DP17.hashH cfg lv (tag ++ natToBytesMin c) = .ok key ∧
        DP17.searchOne cfg lv edb vtag etag c key = .ok here :=
  DP17.probes_return cfg lv raw hcfg hl k1 k2 k3 db t t' edb hs hkeys hidl hinj hperm hfresh w ids hm tag vtag etag htk

/-- a PiBas configuration with `prf_f_output_length = param_lambda` can run -/
theorem PiBas.runnable (raw : RawCfg) (cfg : ChainCfg) (hcfg : PiBas.cfgBuild raw = .ok cfg)
    (hout : getInt raw "prf_f_output_length" = getInt raw "param_lambda") : Chain.Runnable cfg ∧ cfg.prfF.keyLength = cfg.lambda := by
  obtain ⟨lam, out, ske, _, hlam, ho, hske, rfl⟩ := PiBas.cfgBuild_ok raw cfg hcfg
  rw [hlam, ho] at hout
  cases hout
  have hk := new_keyLength lam ske hske
  have hne : (lam == LENGTH_NOT_GIVEN) = false := by
    simp [LENGTH_NOT_GIVEN]; omega
  refine ⟨⟨rfl, ?_, ?_, ?_, rfl, (new_plain lam ske hske).1⟩, rfl⟩
  · simp [HmacPRF.new, hne]
  · simp [HmacPRF.new, hne, (new_plain lam ske hske).2]
  · simp [HmacPRF.new, hne]; omega

/-- PiBas, WITHOUT "once setup has returned": for a configuration the builder accepts with `prf_f_output_length =
    param_lambda`, every key of `param_lambda` bytes, every database and every tape that supplies one 16-byte IV per
    posting, `EDBSetup` returns an index — and then (`PiBas.search_stored`) every stored keyword's search is exact. -/
theorem PiBas.setup_returns (raw : RawCfg) (cfg : ChainCfg) (hcfg : PiBas.cfgBuild raw = .ok cfg)
    (hout : getInt raw "prf_f_output_length" = getInt raw "param_lambda") (lv : Leaves) (hl : LeafLaws lv)
    (K : Bytes) (hK : (K.length : Int) = cfg.lambda) (db : DB) (t : Tape) (hs : Chain.Supplies db.total t) :
    ∃ D t', Chain.setup cfg lv K db t = .ok (D, t') := by
  obtain ⟨hr, hkl⟩ := PiBas.runnable raw cfg hcfg hout
  obtain ⟨lam, out, ske, _, _, _, _, hc⟩ := PiBas.cfgBuild_ok raw cfg hcfg
  have hpack : ∀ ids, cfg.pack ids = .ok ids := by rw [hc]; intro ids; rfl
  apply Chain.setup_complete cfg lv hl hr K db t (by rw [hkl]; exact hK) (fun p _ => ⟨p.2, hpack p.2⟩)
  have : (db.map (Chain.nBlocks cfg)) = db.map (·.2.length) := by
    apply List.map_congr_left
    intro p _
    simp [Chain.nBlocks, hpack]
  rw [this]
  exact hs

/-- the whole of C01 for PiBas in one statement: setup returns, the token exists, the search returns the list -/
theorem PiBas.correct (raw : RawCfg) (cfg : ChainCfg) (hcfg : PiBas.cfgBuild raw = .ok cfg)
    (hout : getInt raw "prf_f_output_length" = getInt raw "param_lambda") (lv : Leaves) (hl : LeafLaws lv)
    (K : Bytes) (hK : (K.length : Int) = cfg.lambda) (db : DB) (t : Tape) (hs : Chain.Supplies db.total t)
    (hnc : ∀ L t', encDb cfg lv K db t = .ok (L, t') → Chain.NoColl cfg lv K db L) :
    ∃ D t', Chain.setup cfg lv K db t = .ok (D, t') ∧ ∀ w ids, (w, ids) ∈ db →
      ∃ tk, Chain.token cfg lv K w = .ok tk ∧ Chain.search cfg lv D tk = .ok ids := by
  obtain ⟨D, t', hset⟩ := PiBas.setup_returns raw cfg hcfg hout lv hl K hK db t hs
  exact ⟨D, t', hset, fun w ids hm => PiBas.search_stored raw cfg hcfg lv hl K db t t' D hset (fun L hL => hnc L t' hL) w ids hm⟩

/-- the hypotheses of the completeness theorems are satisfiable: two 16-byte draws supply two encryptions -/
example : Chain.Supplies 2 [.bytes (zeros 16), .bytes (zeros 16)] := by simp [Chain.Supplies, zeros]

/-- PiPack, WITHOUT "once setup has returned": for an accepted configuration with `prf_f_output_length = param_lambda`,
    every key of `param_lambda` bytes, EVERY database (the packer accepts any list for positive `param_B`) and every tape
    that supplies one 16-byte IV per block, `EDBSetup` returns — and every stored keyword with valid identifiers is then
    searched exactly. -/
theorem PiPack.correct (raw : RawCfg) (cfg : ChainCfg) (hcfg : PiPack.cfgBuild raw = .ok cfg)
    (hout : getInt raw "prf_f_output_length" = getInt raw "param_lambda") (lv : Leaves) (hl : LeafLaws lv)
    (K : Bytes) (hK : (K.length : Int) = cfg.lambda) (db : DB) (t : Tape)
    (hs : Chain.Supplies (db.map (Chain.nBlocks cfg)).sum t)
    (hnc : ∀ L t', encDb cfg lv K db t = .ok (L, t') → Chain.NoColl cfg lv K db L) :
    ∃ D t', Chain.setup cfg lv K db t = .ok (D, t') ∧ ∀ w ids, (w, ids) ∈ db → ValidIdsFor raw ids →
      ∃ tk, Chain.token cfg lv K w = .ok tk ∧ Chain.search cfg lv D tk = .ok ids := by
  obtain ⟨lam, B, out, sz, ske, hpos, hex, hlam, hB, ho, hsz, hske, hc⟩ := PiPack.cfgBuild_ok raw cfg hcfg
  rw [hlam, ho] at hout
  cases hout
  have hk := new_keyLength lam ske hske
  have hne : (lam == LENGTH_NOT_GIVEN) = false := by
    simp [LENGTH_NOT_GIVEN]; omega
  have hr : Chain.Runnable cfg := by
    rw [hc]
    refine ⟨rfl, ?_, ?_, ?_, rfl, (new_plain lam ske hske).1⟩
    · simp [HmacPRF.new, hne]
    · simp [HmacPRF.new, hne, (new_plain lam ske hske).2]
    · simp [HmacPRF.new, hne]; omega
  have hBpos : 0 < B := param_pos _ raw "param_B" B hpos hex (by decide +kernel) (by simp) hB
  have hszpos : 0 < sz := param_pos _ raw "param_identifier_size" sz hpos hex (by decide +kernel) (by simp) hsz
  have hpack : ∀ ids, ∃ chs, cfg.pack ids = .ok chs := by
    intro ids
    rw [hc]
    simp only
    have e : partitionBlocks ids B sz = partitionBlocksNat ids B.toNat sz.toNat 0 := by
      unfold partitionBlocks
      have : (0 ≤ B ∧ 0 ≤ sz ∧ (0 : Int) ≤ 0) := ⟨by omega, by omega, by omega⟩
      simp [this]
    rw [e]
    unfold partitionBlocksNat
    have : B.toNat ≠ 0 := by omega
    simp [this]
  have hkl : cfg.prfF.keyLength = cfg.lambda := by rw [hc]; rfl
  obtain ⟨D, t', hset⟩ := Chain.setup_complete cfg lv hl hr K db t (by rw [hkl]; exact hK) (fun p _ => hpack p.2) hs
  exact ⟨D, t', hset, fun w ids hm hv =>
    PiPack.search_stored raw cfg hcfg lv hl K db t t' D hset (fun L hL => hnc L t' hL) w ids hm hv⟩

/-- CT14: `EDBSetup` NEVER RAISES.  For every accepted configuration, every key of `param_k` bytes and every database with at
    least one keyword and no empty list, the only way the model's setup can fail is `.miss` — the recorded randomness ran
    out or had the wrong kind, which `os.urandom` and `random` cannot do.  No IndexError: a chunk of `2^j` identifiers goes
    to level `j ≤ ⌊log2 |DB(w)|⌋ ≤ t` and the index has `t + 1` levels (the list of exactly `2^t` postings that raised
    before commit f819d98 is an instance); no ValueError from the PRFs or the cipher: the halves of `F(K, w)` have the
    lengths `F'` and the cipher take as keys.  Together with `CT14.search_stored` this is the whole of C01 for CT14. -/
theorem CT14.setup_never_raises (raw : RawCfg) (cfg : CT14Cfg) (hcfg : CT14.cfgBuild raw = .ok cfg) (lv : Leaves)
    (hl : LeafLaws lv) (K : Bytes) (hK : (K.length : Int) = cfg.k) (db : DB) (t : Tape) (hne : db ≠ [])
    (hlists : ∀ p ∈ db, 1 ≤ p.2.length) (e : Err) (h : CT14.setup cfg lv K db t = .error e) : e = .miss :=
  CT14.setup_onlyMiss cfg lv hl (CT14.cfgBuild_usable cfg raw hcfg) K hK db t hne hlists e h

/-- ANSS16: `EDBSetup` NEVER RAISES (accepted configuration with `param_k = param_k_prime`, which the scheme needs because it
    uses one cipher object for both keys; every key; every database with a keyword and no empty list): the only failure left
    is `.miss`.  No OverflowError: every list length fits the `⌈(t+1)/8⌉`-byte length field (`2^t < 256^⌈(t+1)/8⌉`; the width
    repaired by 7b4d508); no IndexError: a list padded to `2^p` entries has `p ≤ t`. -/
theorem ANSS16.setup_never_raises (raw : RawCfg) (cfg : ANSSCfg) (hcfg : ANSS16.cfgBuild raw = .ok cfg)
    (hkk : cfg.kPrime = cfg.k) (lv : Leaves) (hl : LeafLaws lv) (K : Bytes) (db : DB) (t : Tape) (hne : db ≠ [])
    (hlists : ∀ p ∈ db, 1 ≤ p.2.length) (e : Err) (h : ANSS16.setup cfg lv K db t = .error e) : e = .miss :=
  ANSS16.setup_onlyMiss cfg lv hl (ANSS16.cfgBuild_usable cfg raw hcfg hkk) K db t hne hlists e h

/-- PiPtr: `EDBSetup` NEVER RAISES (accepted configuration with `prf_f_output_length = param_lambda`, key of `param_lambda`
    bytes, ANY database, a recorded `random.sample` whose entries are below `|A|`, as a sample of `range(1, |A|)` is): the only
    failure left in the model is `.miss`.  No IndexError from popping a free slot (the sample has exactly as many entries
    as there are identifier blocks) or from writing the array, no OverflowError from the pointer width `⌈log2 |A| / 8⌉`. -/
theorem PiPtr.setup_never_raises (raw : RawCfg) (cfg : PiPtrCfg) (hcfg : PiPtr.cfgBuild raw = .ok cfg)
    (hout : getInt raw "prf_f_output_length" = getInt raw "param_lambda") (lv : Leaves) (hl : LeafLaws lv)
    (K : Bytes) (hK : (K.length : Int) = cfg.lambda) (db : DB) (t : Tape)
    (hsample : ∀ sample t0, takeNats t = .ok (sample, t0) → ∀ p ∈ sample, p < PiPtr.arrayLen cfg db)
    (e : Err) (h : PiPtr.setup cfg lv K db t = .error e) : e = .miss :=
  PiPtr.setup_onlyMiss cfg lv hl (PiPtr.cfgBuild_usable cfg raw hcfg hout) K hK db t hsample e h

/-- DP17: THERE IS ALWAYS ROOM — `random.choice` never sees an empty list of buckets.  Level `i` is an array of
    `2N + 2^(i+1)` cells in buckets of `2^(i+1)`; while fewer than `N` postings are stored on it, some bucket has at least
    `2^i` free cells (if all had fewer, the free cells would add up to less than `N + 2^(i+1)`, but `2N + 2^(i+1)` cells
    minus at most `N` stored ones are free).  So over the whole of `_Enc`, for every database and every recorded choice,
    `_Enc` raises no IndexError at all once every list finds its level: not from the placement, and not from the hash-table
    update either (the mask `H(F_k2(w) ‖ count)` has exactly the bytes of the `level ‖ bucket` field; `d` = the digest
    length of `hash_h`).  This is what the constant `2N + 2^(i+1)` is for.  Partial with respect to "EDBSetup never raises":
    the level search is a hypothesis. -/
theorem DP17.room_for_every_chunk_partial (cfg : DP17Cfg) (lv : Leaves) (k1 k2 : Bytes) (levels : List Int) (db : DB)
    (ls0 : List Level) (t : Tape) (hinit : DP17.initLevels db.total levels [] = .ok ls0)
    (hfa : ∀ p ∈ db, ∃ i : Nat, DP17.findAdjacent cfg levels p.2.length = .ok (i : Int))
    (d : Nat) (hd0 : 0 < d) (hsha : ∀ m, (lv.sha m).length = d) :
    ∀ e, DP17.encDb cfg lv k1 k2 levels db ls0 [] t = .error e → e ≠ .indexError :=
  DP17.encDb_room cfg lv db.total k1 k2 levels db 0 ls0 [] t
    (DP17.initLevels_linv db.total levels [] ls0 hinit (fun l hl => by cases hl)) (by omega) hfa
    (fun w count i x c HT e => DP17.htInsert_noIndexError cfg lv d hd0 hsha k1 k2 w count i x c HT e)

/-- DP17: `_Enc` raises no IndexError — neither from the level search (`_find_adjacent_i`, a binary search that is proved to
    return the FIRST level that holds the list), nor from `random.choice`, nor from the hash-table update — for every
    database and every recorded choice, when the level list ascends, has no negative level and its last level holds every
    list (`L · 2^⌈log2 N⌉ ≥ N ≥ |DB(w)|` for `L ≥ 1`).  The hypotheses on the level list are decidable facts about `N` and
    the configuration (they fail for the level ratios noted in DESIGN.md 11.3, where the code computes negative levels). -/
theorem DP17.enc_no_index_error (cfg : DP17Cfg) (lv : Leaves) (k1 k2 : Bytes) (levels : List Int) (db : DB)
    (ls0 : List Level) (t : Tape) (hinit : DP17.initLevels db.total levels [] = .ok ls0) (hL : 0 ≤ cfg.L)
    (hasc : ∀ (i j : Nat) (a b : Int), i ≤ j → levels[i]? = some a → levels[j]? = some b → a ≤ b)
    (hnn : ∀ a ∈ levels, 0 ≤ a) (hfits : ∀ p ∈ db, ∃ a ∈ levels, DP17.fits cfg a p.2.length = true)
    (d : Nat) (hd0 : 0 < d) (hsha : ∀ m, (lv.sha m).length = d) :
    ∀ e, DP17.encDb cfg lv k1 k2 levels db ls0 [] t = .error e → e ≠ .indexError :=
  DP17.room_for_every_chunk_partial cfg lv k1 k2 levels db ls0 t hinit
    (fun p hp => DP17.findAdjacent_ok cfg levels p.2.length hL hasc hnn (hfits p hp)) d hd0 hsha

/-- Pi2Lev: `EDBSetup` NEVER RAISES for a valid database: accepted configuration with a positive pointer width and
    `prf_f_output_length = param_lambda`, key of `param_lambda` bytes, every list shorter than `B·B'·b'` (the two-level
    limit), an array that the pointer width can address, and a recorded `random.sample` of `range(1, |A|)`.  The only
    failure left in the model is `.miss`.  The array has a free slot for every block that is stored: `⌈n/B⌉` identifier
    blocks for a medium or large list and, for a large one, `⌈⌈n/B⌉/B'⌉ = ⌈n/(B·B')⌉` first-level pointer blocks — the count
    `EDBSetup` sizes the array with. -/
theorem Pi2Lev.setup_never_raises (raw : RawCfg) (cfg : Pi2LevCfg) (hcfg : Pi2Lev.cfgBuild raw = .ok cfg)
    (hidx : 0 < cfg.idxSize) (hout : getInt raw "prf_f_output_length" = getInt raw "param_lambda")
    (lv : Leaves) (hl : LeafLaws lv) (K : Bytes) (hK : (K.length : Int) = cfg.lambda) (db : DB) (t : Tape)
    (hcap : ∀ p ∈ db, (p.2.length : Int) < (cfg.B * cfg.Bp) * cfg.bp)
    (hfit : Pi2Lev.arrayLen cfg db ≤ 2 ^ (cfg.idxSize * 8).toNat)
    (hsample : ∀ sample t0, takeNats t = .ok (sample, t0) → ∀ p ∈ sample, p < Pi2Lev.arrayLen cfg db)
    (e : Err) (h : Pi2Lev.setup cfg lv K db t = .error e) : e = .miss :=
  Pi2Lev.setup_onlyMiss cfg lv hl (Pi2Lev.cfgBuild_usable cfg raw hcfg hidx hout) K hK db t hcap hfit hsample e h

/-- DP17: `EDBSetup` NEVER RAISES — accepted configuration, three keys of `param_lambda` bytes, a non-empty database, a level
    list that ascends without negative levels and whose last level holds every list, level numbers and bucket indices that
    fit their halves of the hash-table value, a hash function with digests of one positive length: the only failure left in
    the model is `.miss`.  Everything that could raise is excluded by proof: the level search finds the first fitting
    level, every level has its bucket array, `random.choice` always has a bucket with room (the `2N + 2^(i+1)` sizing), the
    hash-table fields and the xor mask have matching widths, the PRF and cipher keys have the lengths they are declared
    with.  The hypotheses on the level list are decidable facts about `N` and the configuration; they fail for the level
    ratios of DESIGN.md 11.3, where the code itself raises. -/
theorem DP17.setup_never_raises (raw : RawCfg) (cfg : DP17Cfg) (hcfg : DP17.cfgBuild raw = .ok cfg) (lv : Leaves)
    (hl : LeafLaws lv) (d : Nat) (hd0 : 0 < d) (hsha : ∀ m, (lv.sha m).length = d)
    (k1 k2 k3 : Bytes) (h1 : (k1.length : Int) = cfg.lambda) (h2 : (k2.length : Int) = cfg.lambda)
    (h3 : (k3.length : Int) = cfg.lambda) (db : DB) (t : Tape) (hN : db.total ≠ 0)
    (hlv : ∀ levels, DP17.levelsOf cfg db.total = .ok levels →
      (∀ (i j : Nat) (a b : Int), i ≤ j → levels[i]? = some a → levels[j]? = some b → a ≤ b) ∧
      (∀ a ∈ levels, 0 ≤ a) ∧ (∀ p ∈ db, ∃ a ∈ levels, DP17.fits cfg a p.2.length = true) ∧
      ∀ i : Nat, (i : Int) ∈ levels → i < 256 ^ (cfg.dsz / 2) ∧
        (DP17.sizesOf db.total (i : Int)).length ≤ 256 ^ (cfg.dsz - cfg.dsz / 2))
    (e : Err) (h : DP17.setup cfg lv [k1, k2, k3] db t = .error e) : e = .miss := by
  obtain ⟨hu, hL⟩ := DP17.cfgBuild_usable cfg raw hcfg
  exact DP17.setup_onlyMiss cfg lv hl hu d hd0 hsha k1 k2 k3 h1 h2 h3 db t hN
    (fun levels hlevels => by
      obtain ⟨hasc, hnn, hfits, hw⟩ := hlv levels hlevels
      exact ⟨hnn, fun p hp => DP17.findAdjacent_ok cfg levels p.2.length (by omega) hasc hnn (hfits p hp), hw⟩) e h

/-- SSE-2, the WHOLE of C01 with no hypothesis about the run (SSE-2 draws no randomness in `EDBSetup` / `TokenGen`): for
    an accepted configuration, a key half of `param_k` bytes and a valid database — distinct keywords without a leading
    NUL byte and of at most `param_l` bytes, at most `param_n` identifiers per keyword, no identifier posted more than
    `param_max` times — `EDBSetup` RETURNS, and for every stored keyword `TokenGen` RETURNS and `Search` yields exactly its
    identifier list, in order.  Left: the leaf law (HMAC digest length).  The address arithmetic — the keyword fits its
    `8·l`-bit field, every counter up to `param_n` fits the `bits(n + max)`-bit field because `determine_param_max` of a
    positive size is positive, the PRP is called with the widths it was declared with — is proved, not assumed. -/
theorem SSE2.correct (raw : RawCfg) (cfg : SSE2Cfg) (hcfg : SSE2.cfgBuild raw = .ok cfg) (lv : Leaves) (hl : LeafLaws lv)
    (K1 : Bytes) (hK : (K1.length : Int) = cfg.k) (db : DB) (hkeys : (db.map (·.1)).Nodup)
    (hvalid : ∀ p ∈ db, NoLeadingNul p.1 ∧ (p.1.length : Int) ≤ cfg.l ∧ p.2.length ≤ cfg.n.toNat)
    (hcap : ∀ id, (db.flatMap (·.2)).count id ≤ cfg.max) :
    ∃ I, SSE2.setup cfg lv K1 db = .ok I ∧
      ∀ w ids, (w, ids) ∈ db → ∃ tk, SSE2.token cfg lv K1 w = .ok tk ∧ SSE2.search I tk = ids := by
  obtain ⟨hu, hn, _⟩ := SSE2.cfgBuild_usable raw cfg hcfg
  have hcap' : ∀ I0 cnt, SSE2.encDb cfg lv K1 db [] [] = .ok (I0, cnt) → ∀ p ∈ cnt, p.2 ≤ cfg.max := fun I0 cnt h p hp => by
    have := SSE2.encDb_cnt cfg lv K1 db [] [] [] I0 cnt h (fun q hq => by cases hq) p hp
    simp only [List.nil_append] at this
    exact Nat.le_trans this (hcap p.1)
  obtain ⟨I, hI⟩ := SSE2.setup_ok cfg lv hl.hmac_len hu K1 hK db
    (fun p hp => ⟨(hvalid p hp).2.1, Nat.lt_of_le_of_lt (hvalid p hp).2.2 hn⟩) hcap'
  refine ⟨I, hI, fun w ids hm => ?_⟩
  obtain ⟨tk, htk, _⟩ := SSE2.token_ok cfg lv hl.hmac_len hu K1 w hK (hvalid _ hm).2.1 hn
  exact ⟨tk, htk, SSE2.search_stored_valid cfg lv hl (by have := hu.lpos; omega) hu.bits K1 db I hI hkeys
    (fun p hp => (hvalid p hp).1) hcap' w ids hm (hvalid _ hm).2.2 tk htk⟩

/-- SSE-1: `EDBSetup` NEVER RAISES — accepted configuration whose array size `param_s` is a power of two (at least 4), four
    keys of `param_k` bytes, keywords of at most `param_l` bytes, no empty list and fewer than `param_s` postings: the only
    failure left in the model is `.miss` (exhausted recorded randomness).  Excluded by proof: a counter that does not fit
    `log2 s` bits (ValueError), an address beyond the array (IndexError — ψ permutes exactly the `s` cells), a mask longer
    than `address ‖ key` (IndexError), a refusal by the PRF, the PRPs or the cipher.  For a `param_s` that is not a power of
    two the code itself raises (DESIGN.md 11.3) and the theorem does not apply. -/
theorem SSE1.setup_never_raises (raw : RawCfg) (cfg : SSE1Cfg) (hcfg : SSE1.cfgBuild raw = .ok cfg) (lv : Leaves)
    (hl : LeafLaws lv) (h2 : 2 ≤ cfg.log2s) (hs : cfg.s.toNat = 2 ^ cfg.log2s) (K1 K2 K3 K4 : Bytes)
    (h1 : (K1.length : Int) = cfg.k) (hk2 : (K2.length : Int) = cfg.k) (h3 : (K3.length : Int) = cfg.k)
    (db : DB) (t : Tape) (hdb : ∀ p ∈ db, (p.1.length : Int) ≤ cfg.l ∧ p.2 ≠ []) (hN : db.total < cfg.s.toNat)
    (e : Err) (h : SSE1.setup cfg lv [K1, K2, K3, K4] db t = .error e) : e = .miss :=
  SSE1.setup_onlyMiss cfg lv hl (SSE1.cfgBuild_usable cfg raw hcfg) h2 K1 K2 K3 K4 h1 hk2 h3 db t hs hdb hN e h

end SSEPy.C01
