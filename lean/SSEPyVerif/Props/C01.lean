/-
  C01 — Search returns exactly the posting list of every stored keyword.

  Per scheme: once `setup` has returned an index, the token of every stored keyword can be generated and `search`
  returns exactly that keyword's identifier list — same elements, same order, no exception, and in particular the
  probe loop terminates (`search` is not `.error .diverges`).  No bound on the number of keywords, list lengths or
  block sizes: the smallest database and every block / level / power-of-two boundary are instances.

  Hypotheses, all explicit:
  * `LeafLaws lv` — the AES block function is invertible on 16-byte blocks (leaf assumption; C14 lifts it to
    `Decrypt(Encrypt(m)) = m` for the CBC wrapper);
  * `NoColl` — the PRF labels that this run computes are pairwise distinct and the label one past the end of a
    keyword's chain is not a stored label (a statement about HMAC outputs on the inputs `1‖w`, `2‖w`, counters:
    true except with probability ≈ (#labels)²/2^(8·λ); the driver evaluates it on every recorded run);
  * `ValidIdsFor` — the property's own validity predicate for identifiers (PiPack).
-/
import SSEPyVerif.Proofs.Schemes.ChainCfg
namespace SSEPy.C01
open SSEPy.Sch SSEPy.Sch.Chain

/-- the run's labels do not collide (decidable; evaluated by the driver on every recorded run) -/
structure Chain.NoColl (cfg : ChainCfg) (lv : Leaves) (K : Bytes) (db : DB) (L : List (Bytes × Bytes)) : Prop where
  labels_distinct : (L.map (·.1)).Nodup
  end_fresh : ∀ w ids, (w, ids) ∈ db → EndFresh cfg lv K L w ids

/-- PiBas (schemes/CJJ14/PiBas) -/
theorem PiBas.search_stored (raw : RawCfg) (cfg : ChainCfg) (hcfg : PiBas.cfgBuild raw = .ok cfg)
    (lv : Leaves) (hl : LeafLaws lv) (K : Bytes) (db : DB) (t t' : Tape) (D : Table)
    (hs : Chain.setup cfg lv K db t = .ok (D, t'))
    (hnc : ∀ L, encDb cfg lv K db t = .ok (L, t') → Chain.NoColl cfg lv K db L)
    (w : Bytes) (ids : List Bytes) (hm : (w, ids) ∈ db) :
    ∃ tk, Chain.token cfg lv K w = .ok tk ∧ Chain.search cfg lv D tk = .ok ids := by
  obtain ⟨L, hL, rfl⟩ := setup_eq cfg lv K db t t' D hs
  have := hnc L hL
  exact search_present cfg lv (PiBas.dec_enc raw cfg hcfg lv hl) K db t t' L hL this.labels_distinct w ids hm
    (PiBas.roundTrip raw cfg hcfg ids) (this.end_fresh w ids hm)

/-- PiPack (schemes/CJJ14/PiPack): every block size `param_B ≥ 1` and identifier size — lists shorter than, equal to
    and longer than a block, and multiples of the block size alike -/
theorem PiPack.search_stored (raw : RawCfg) (cfg : ChainCfg) (hcfg : PiPack.cfgBuild raw = .ok cfg)
    (lv : Leaves) (hl : LeafLaws lv) (K : Bytes) (db : DB) (t t' : Tape) (D : Table)
    (hs : Chain.setup cfg lv K db t = .ok (D, t'))
    (hnc : ∀ L, encDb cfg lv K db t = .ok (L, t') → Chain.NoColl cfg lv K db L)
    (w : Bytes) (ids : List Bytes) (hm : (w, ids) ∈ db) (hv : ValidIdsFor raw ids) :
    ∃ tk, Chain.token cfg lv K w = .ok tk ∧ Chain.search cfg lv D tk = .ok ids := by
  obtain ⟨L, hL, rfl⟩ := setup_eq cfg lv K db t t' D hs
  have := hnc L hL
  exact search_present cfg lv (PiPack.dec_enc raw cfg hcfg lv hl) K db t t' L hL this.labels_distinct w ids hm
    (PiPack.roundTrip raw cfg hcfg ids hv) (this.end_fresh w ids hm)

end SSEPy.C01
