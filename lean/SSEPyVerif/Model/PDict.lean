/-
  data_persistence/persistent_dict.py — `PickledDict` (in-memory dict, whole-dict pickle on sync/close,
  load on open, closed marker) and one open session of `DBMDict` (`BytesShelf(writeback=True)` over dbm,
  whose cache makes it behave as a dict within the session).
  A Python dict is an insertion-ordered association list with update-in-place.
-/
import SSEPyVerif.Model.Basic
namespace SSEPy.PDict

abbrev Assoc := List (Bytes × Bytes)

def lookup (k : Bytes) : Assoc → Option Bytes
  | [] => none
  | (k', v) :: rest => if k' = k then some v else lookup k rest

/-- `d[k] = v`: an existing key keeps its position, a new key goes to the end -/
def dinsert (k v : Bytes) : Assoc → Assoc
  | [] => [(k, v)]
  | (k', v') :: rest => if k' = k then (k, v) :: rest else (k', v') :: dinsert k v rest

def derase (k : Bytes) : Assoc → Assoc
  | [] => []
  | (k', v') :: rest => if k' = k then rest else (k', v') :: derase k rest

/-- a value handed in by the caller: byte strings are accepted, anything else is refused -/
inductive Val where
  | bytes (b : Bytes)
  | nonBytes
  deriving Repr, DecidableEq

structure PDict where
  data : Assoc
  closed : Bool
  /-- what the backing file holds: `none` until the first sync/close -/
  disk : Option Assoc

inductive Op where
  | set (k : Bytes) (v : Val)
  | get (k : Bytes)
  | del (k : Bytes)
  | contains (k : Bytes)
  | len | iter
  | getd (k : Bytes) (dflt : Option Bytes)
  | clear | sync | close
  deriving Repr

inductive Out where
  | unit
  | val (b : Bytes)
  | optVal (b : Option Bytes)
  | bool (b : Bool)
  | nat (n : Nat)
  | keys (l : List Bytes)
  | err (e : Err)
  deriving Repr, DecidableEq

/-- one operation of `PickledDict` -/
def step (d : PDict) (op : Op) : PDict × Out :=
  match op with
  | .set k v =>
    match v with
    | .nonBytes => (d, .err .typeError)               -- the type check comes first, even on a closed dict
    | .bytes b => if d.closed then (d, .err .valueError) else ({ d with data := dinsert k b d.data }, .unit)
  | .close => if d.closed then (d, .unit) else ({ d with closed := true, disk := some d.data }, .unit)
  | op =>
    if d.closed then (d, .err .valueError) else
    match op with
    | .get k => match lookup k d.data with
      | some v => (d, .val v)
      | none => (d, .err .keyError)
    | .del k => match lookup k d.data with
      | some _ => ({ d with data := derase k d.data }, .unit)
      | none => (d, .err .keyError)
    | .contains k => (d, .bool (lookup k d.data).isSome)
    | .len => (d, .nat d.data.length)
    | .iter => (d, .keys (d.data.map Prod.fst))
    | .getd k dflt => (d, .optVal ((lookup k d.data).or dflt))
    | .clear => ({ d with data := [] }, .unit)
    | .sync => ({ d with disk := some d.data }, .unit)
    | _ => (d, .unit)

/-- `PickledDict.create(path)` on a fresh path -/
def create : PDict := { data := [], closed := false, disk := none }

/-- `PickledDict.from_dict(d, path)`: copy, then sync -/
def fromDict (a : Assoc) : PDict := { data := a, closed := false, disk := some a }

/-- `PickledDict.open(path)` of a dictionary whose file was written by sync/close -/
def reopen (d : PDict) : Except Err PDict :=
  match d.disk with
  | some a => .ok { data := a, closed := false, disk := some a }
  | none => .error .other            -- empty file: pickle.load raises EOFError

/-- keys are unique (true of every Python dict) -/
def WF (a : Assoc) : Prop := (a.map Prod.fst).Nodup

end SSEPy.PDict
