/-
  The server side of the front end (frontend/server/**) as an intermediate representation plus its
  interpreter.  The IR *values* are regenerated from the source on every run
  (Generated/ServerIR.lean, by harness/translate/frontend_ir.py); this file fixes what each IR op means.

  Abstraction: configurations, encrypted databases and tokens are opaque identifiers (`Nat`); the
  scheme enters only through `searchOf cfg edb tok`, the result the loaded scheme computes.
-/
import SSEPyVerif.Model.Basic
namespace SSEPy.ServerIR

inductive Cmp where | eq | ne
  deriving DecidableEq, Repr

/-- statements of the three request handlers and of `close_service` -/
inductive Eff where
  | guardRefuse (c : Cmp) (n : Nat) (mt : String)   -- if state <c> n: send {ok: False}; raise
  | guardNoRaise (c : Cmp) (n : Nat) (mt : String)  -- if state <c> n: send {ok: False}   (no raise)
  | loadsConfig | mkdirSid | writeConfig | setMemConfig
  | setState (n : Nat) | writeMeta | writeEdb
  | sendOk (mt : String)
  | loadScheme | loadEdb | getDigest | deserToken | doSearch | sendResult
  | unknown (s : String)
  deriving DecidableEq, Repr

inductive CLeaf where
  | readConfig | readMeta | loadModule | loadConfigObject | initMeta (n : Nat) | unknown (s : String)
  deriving DecidableEq, Repr

/-- statements of `Service.__init__` -/
inductive CEff where
  | ifDirExists (t e : List CLeaf)
  | buildDispatch
  | ifStateEq (n : Nat) (body : List CLeaf)
  | sendInitEcho
  | unknown (s : String)
  deriving DecidableEq, Repr

/-- primitive file-system operations of a file-manager function -/
inductive FsOp where
  | retDirExists | retAllExist (fs : List String)
  | mkdir | mkdirExistOk | rmtree | returnIfNoDir
  | readFile (f : String) | openTrunc (f : String) | write (f : String) | unlink (f : String)
  | openTmp (f : String) | writeTmp (f : String) | replace (f : String)    -- `<f>.tmp` written, then renamed over `<f>`
  | unknown (s : String)
  deriving DecidableEq, Repr

inductive MLeaf where
  | sendControl | awaitPrevClosed | register | sleep | closeService | delEntry
  | waitTurn      -- `if sid in registry or waiting[0] is not service: send CONTROL; await cond.wait_for(both false)`
  | dequeue | refresh | notifyAll
  | unknown (s : String)
  deriving DecidableEq, Repr

/-- steps of `ServicesManager.create_service` / `clean_service_when_close_connection` -/
inductive MEff where
  | construct
  | enqueue       -- `waiting = self._waiting_dict.setdefault(sid, []); waiting.append(service)`
  | ifRegistered (b : List MLeaf)
  | locked (b : List MLeaf)
  | spawnCleanup | serve | awaitCleanup | awaitClosed
  | unknown (s : String)
  deriving DecidableEq, Repr

/-- the extracted program -/
structure Program where
  handleConfig : List Eff
  handleUpload : List Eff
  handleSearch : List Eff
  dispatch : List (String × String)
  ctor : List CEff
  recvLoopIsStandard : Bool
  closeService : List Eff
  fmCreateSidFolder : List FsOp
  fmWriteConfig : List FsOp
  fmWriteMeta : List FsOp
  fmWriteEdb : List FsOp
  fmReadConfig : List FsOp
  fmReadMeta : List FsOp
  fmReadEdb : List FsOp
  fmCheckDir : List FsOp
  mgrCreate : List MEff
  mgrCleanup : List MEff
  mgrLockIsCondition : Bool
  deriving DecidableEq, Repr

/-! ### state -/

abbrev Cfg := Nat
abbrev Edb := Nat
abbrev Tok := Nat

/-- a file: absent, truncated-but-not-yet-written, or complete -/
inductive FileSt (α : Type) where
  | absent | empty | full (v : α)
  deriving DecidableEq, Repr

structure Disk where
  dir : Bool := false
  config : FileSt Cfg := .absent
  metaSt : FileSt Nat := .absent
  edb : FileSt Edb := .absent
  deriving DecidableEq, Repr

/-- a `Service` object (one connection) -/
structure Conn where
  state : Nat := 0
  memConfig : Option Cfg := none
  moduleLoaded : Bool := false
  schemeLoaded : Bool := false
  edbCache : Option Edb := none
  deriving DecidableEq, Repr

/-- what a client can observe -/
inductive Out where
  | initEcho (state : Nat)
  | ok (mt : String)
  | refused (mt : String)
  | result (cfg : Cfg) (edb : Edb) (tok : Tok)
  | control
  | closed                      -- the connection died (handler raised): close code 1011
  | unknownStatement (s : String)
  deriving DecidableEq, Repr

/-- how a run of statements ended -/
inductive Status where
  | done | raised | crashed
  deriving DecidableEq, Repr

/-- the payload of a request -/
structure Payload where
  cfg : Option Cfg := none      -- `config` message: `none` = bytes that do not unpickle
  edb : Edb := 0
  tok : Option Tok := none      -- `token` message: `none` = bytes the scheme cannot deserialize
  deriving DecidableEq, Repr

/-- machine state while interpreting statements: disk, connection, outputs (most recent first), the
    remaining crash budget (`none` = no crash; `some k` = the process dies when the (k+1)-th
    file-system mutation is about to start), scratch registers of the handler -/
structure M where
  disk : Disk
  conn : Conn
  outs : List Out := []
  budget : Option Nat := none
  regCfg : Option Cfg := none
  regTok : Option Tok := none
  regResult : Option (Cfg × Edb × Tok) := none
  deriving Repr

/-- one file-system mutation: consumes one unit of the crash budget -/
def tick (m : M) : Option M :=
  match m.budget with
  | none => some m
  | some 0 => none
  | some (k + 1) => some { m with budget := some k }

inductive FileId where | config | metaF | edb
  deriving DecidableEq, Repr

def fileIdOf (f : String) : Option FileId :=
  if f == "config.json" then some .config else if f == "service_meta" then some .metaF
  else if f == "edb" then some .edb else none

/-- run the primitive operations of one file-manager *write* function; `wcfg/wmeta/wedb` are the values
    being written.  Returns `none` when the crash budget ran out (state = what is on disk then). -/
def runFsWrite (ops : List FsOp) (m : M) (wcfg : Cfg) (wmeta : Nat) (wedb : Edb) : M × Status :=
  match ops with
  | [] => (m, .done)
  | op :: rest =>
    match op with
    | .returnIfNoDir => if m.disk.dir then runFsWrite rest m wcfg wmeta wedb else (m, .done)
    | .mkdir =>
      if m.disk.dir then (m, .raised) else
      match tick m with
      | none => (m, .crashed)
      | some m' => runFsWrite rest { m' with disk := { m'.disk with dir := true } } wcfg wmeta wedb
    | .mkdirExistOk =>
      if m.disk.dir then runFsWrite rest m wcfg wmeta wedb else
      match tick m with
      | none => (m, .crashed)
      | some m' => runFsWrite rest { m' with disk := { m'.disk with dir := true } } wcfg wmeta wedb
    | .openTmp _ | .writeTmp _ =>
      -- the temporary file is never read: creating / filling it changes nothing a loader can see
      match tick m with
      | none => (m, .crashed)
      | some m' => if !m'.disk.dir then (m', .raised) else runFsWrite rest m' wcfg wmeta wedb
    | .replace f =>
      match tick m with
      | none => (m, .crashed)
      | some m' =>
        match fileIdOf f with
        | some .config => runFsWrite rest { m' with disk := { m'.disk with config := .full wcfg } } wcfg wmeta wedb
        | some .metaF => runFsWrite rest { m' with disk := { m'.disk with metaSt := .full wmeta } } wcfg wmeta wedb
        | some .edb => runFsWrite rest { m' with disk := { m'.disk with edb := .full wedb } } wcfg wmeta wedb
        | none => ({ m' with outs := .unknownStatement f :: m'.outs }, .raised)
    | .openTrunc f =>
      match tick m with
      | none => (m, .crashed)
      | some m' =>
        if !m'.disk.dir then (m', .raised) else     -- open() in a missing directory: FileNotFoundError
        match fileIdOf f with
        | some .config => runFsWrite rest { m' with disk := { m'.disk with config := .empty } } wcfg wmeta wedb
        | some .metaF => runFsWrite rest { m' with disk := { m'.disk with metaSt := .empty } } wcfg wmeta wedb
        | some .edb => runFsWrite rest { m' with disk := { m'.disk with edb := .empty } } wcfg wmeta wedb
        | none => ({ m' with outs := .unknownStatement f :: m'.outs }, .raised)
    | .write f =>
      match tick m with
      | none => (m, .crashed)
      | some m' =>
        match fileIdOf f with
        | some .config => runFsWrite rest { m' with disk := { m'.disk with config := .full wcfg } } wcfg wmeta wedb
        | some .metaF => runFsWrite rest { m' with disk := { m'.disk with metaSt := .full wmeta } } wcfg wmeta wedb
        | some .edb => runFsWrite rest { m' with disk := { m'.disk with edb := .full wedb } } wcfg wmeta wedb
        | none => ({ m' with outs := .unknownStatement f :: m'.outs }, .raised)
    | .unknown s => ({ m with outs := .unknownStatement s :: m.outs }, .raised)
    | _ => ({ m with outs := .unknownStatement "unexpected fs op in a write function" :: m.outs }, .raised)

def cmpHolds (c : Cmp) (a b : Nat) : Bool :=
  match c with
  | .eq => a == b
  | .ne => a != b

/-- the scheme's answer: the loaded scheme searches the loaded index with the token -/
def say (m : M) (o : Out) : M := { m with outs := o :: m.outs }

/-- interpret the statements of a handler -/
def runEffs (p : Program) (pl : Payload) : List Eff → M → M × Status
  | [], m => (m, .done)
  | e :: rest, m =>
    match e with
    | .guardRefuse c n mt =>
      if cmpHolds c m.conn.state n then (say m (.refused mt), .raised) else runEffs p pl rest m
    | .guardNoRaise c n mt =>
      if cmpHolds c m.conn.state n then runEffs p pl rest (say m (.refused mt)) else runEffs p pl rest m
    | .loadsConfig =>
      match pl.cfg with
      | none => (m, .raised)
      | some c => runEffs p pl rest { m with regCfg := some c }
    | .mkdirSid =>
      match runFsWrite p.fmCreateSidFolder m 0 0 0 with
      | (m', .done) => runEffs p pl rest m'
      | r => r
    | .writeConfig =>
      match m.regCfg with
      | none => (m, .raised)
      | some c =>
        match runFsWrite p.fmWriteConfig m c 0 0 with
        | (m', .done) => runEffs p pl rest m'
        | r => r
    | .setMemConfig => runEffs p pl rest { m with conn := { m.conn with memConfig := m.regCfg } }
    | .setState n => runEffs p pl rest { m with conn := { m.conn with state := n } }
    | .writeMeta =>
      match runFsWrite p.fmWriteMeta m 0 m.conn.state 0 with
      | (m', .done) => runEffs p pl rest m'
      | r => r
    | .writeEdb =>
      match runFsWrite p.fmWriteEdb m 0 0 pl.edb with
      | (m', .done) => runEffs p pl rest m'
      | r => r
    | .sendOk mt => runEffs p pl rest (say m (.ok mt))
    | .loadScheme =>
      match m.conn.memConfig with
      | none => (m, .raised)                       -- AttributeError: the config of this service is None
      | some _ => runEffs p pl rest { m with conn := { m.conn with moduleLoaded := true, schemeLoaded := true } }
    | .loadEdb =>
      match m.conn.edbCache with
      | some _ => runEffs p pl rest m
      | none =>
        match m.conn.memConfig, m.disk.edb with
        | some _, .full e => runEffs p pl rest { m with conn := { m.conn with edbCache := some e, moduleLoaded := true } }
        | _, _ => (m, .raised)                     -- missing / truncated index file, or no config
    | .getDigest => runEffs p pl rest m
    | .deserToken =>
      match pl.tok with
      | none => (m, .raised)
      | some t => runEffs p pl rest { m with regTok := some t }
    | .doSearch =>
      match m.conn.memConfig, m.conn.edbCache, m.regTok with
      | some c, some e, some t => runEffs p pl rest { m with regResult := some (c, e, t) }
      | _, _, _ => (m, .raised)
    | .sendResult =>
      match m.regResult with
      | some (c, e, t) => runEffs p pl rest (say m (.result c e t))
      | none => (m, .raised)
    | .unknown s => (say m (.unknownStatement s), .raised)

def runCLeafs : List CLeaf → Disk → Conn → Option Conn
  | [], _, c => some c
  | l :: rest, d, c =>
    match l with
    | .readConfig =>
      match d.config with
      | .full v => runCLeafs rest d { c with memConfig := some v }
      | _ => none                                  -- missing file / invalid JSON: the constructor raises
    | .readMeta =>
      match d.metaSt with
      | .full s => runCLeafs rest d { c with state := s }
      | _ => none                                  -- missing file / empty pickle
    | .loadModule =>
      match c.memConfig with
      | some _ => runCLeafs rest d { c with moduleLoaded := true }
      | none => none
    | .loadConfigObject =>
      match c.memConfig with
      | some _ => runCLeafs rest d { c with moduleLoaded := true }
      | none => none
    | .initMeta n => runCLeafs rest d { c with state := n }
    | .unknown _ => none

def fileExists (d : Disk) (f : String) : Bool :=
  match fileIdOf f with
  | some .config => d.config != .absent
  | some .metaF => d.metaSt != .absent
  | some .edb => d.edb != .absent
  | none => false

/-- `FileManager.check_sid_folder_exist(sid)` -/
def serviceExists (p : Program) (d : Disk) : Bool :=
  match p.fmCheckDir with
  | [.retDirExists] => d.dir
  | [.retAllExist fs] => d.dir && fs.all (fileExists d)
  | _ => false

/-- `Service(sid, websocket)`: `none` = the constructor raised (the connection dies before any echo) -/
def construct (p : Program) (d : Disk) : Option (Conn × List Out) :=
  let rec go : List CEff → Conn → List Out → Option (Conn × List Out)
    | [], c, o => some (c, o)
    | e :: rest, c, o =>
      match e with
      | .ifDirExists t el =>
        match runCLeafs (if serviceExists p d then t else el) d c with
        | some c' => go rest c' o
        | none => none
      | .buildDispatch => go rest c o
      | .ifStateEq n body =>
        if c.state == n then
          match runCLeafs body d c with
          | some c' => go rest c' o
          | none => none
        else go rest c o
      | .sendInitEcho => go rest c (.initEcho c.state :: o)
      | .unknown s => some (c, .unknownStatement s :: o)
  go p.ctor {} []

/-- a protocol message for one service id -/
inductive Msg where
  | config (c : Option Cfg)
  | upload (e : Edb)
  | search (t : Option Tok)
  | foreignSid | noType | noSid      -- skipped by the receive loop
  | unknownType                      -- a type without a handler: `recv_msg_handler[msg_type]` raises KeyError
  deriving DecidableEq, Repr

def msgTypeOf : Msg → Option String
  | .config _ => some "config" | .upload _ => some "upload_edb" | .search _ => some "token"
  | _ => none

def payloadOf : Msg → Payload
  | .config c => { cfg := c }
  | .upload e => { edb := e }
  | .search t => { tok := t }
  | _ => {}

def handlerNamed (p : Program) (name : String) : Option (List Eff) :=
  if name == "handle_upload_config" then some p.handleConfig
  else if name == "handle_upload_encrypted_database" then some p.handleUpload
  else if name == "handle_search_token" then some p.handleSearch
  else none

/-- one message on a live connection: new disk, the connection object afterwards, whether it is still
    alive (a raising handler kills it with close code 1011), observations -/
def handleMsg (p : Program) (d : Disk) (c : Conn) (msg : Msg) (budget : Option Nat := none) :
    Disk × Conn × Bool × List Out × Status :=
  match msg with
  | .foreignSid | .noType | .noSid => (d, c, true, [], .done)
  | .unknownType => (d, c, false, [.closed], .raised)
  | _ =>
    match msgTypeOf msg with
    | none => (d, c, false, [.closed], .raised)
    | some mt =>
      match (p.dispatch.find? (·.1 == mt)).bind (fun e => handlerNamed p e.2) with
      | none => (d, c, false, [.closed], .raised)       -- KeyError in the dispatch table
      | some effs =>
        match runEffs p (payloadOf msg) effs { disk := d, conn := c, budget := budget } with
        | (m, .done) => (m.disk, m.conn, true, m.outs.reverse, .done)
        | (m, .raised) => (m.disk, m.conn, false, m.outs.reverse ++ [.closed], .raised)
        | (m, .crashed) => (m.disk, m.conn, false, m.outs.reverse, .crashed)

/-- `close_service()` at cleanup: the connection's snapshot of the meta is written back -/
def closeConn (p : Program) (d : Disk) (c : Conn) : Disk :=
  (runEffs p {} p.closeService { disk := d, conn := c }).1.disk

/-! ### one service id, consecutive connections -/

inductive Ev where
  | reconnect                 -- close the current connection (if any), wait for its cleanup, connect again
  | reconnectFast             -- connect again at once: the new `Service` is built *before* the old cleanup runs
  | msg (m : Msg)
  deriving DecidableEq, Repr

/-- a dead connection's object is cleaned up too (its snapshot is written back); we keep the object
    until then -/
structure SrvD where
  disk : Disk := {}
  conn : Option Conn := none        -- the registered Service object (alive or not)
  alive : Bool := false
  deriving Repr

/-- the disk after the registered object's cleanup (`close_service()` writes its snapshot back) -/
def cleanupDisk (p : Program) (s : SrvD) : Disk :=
  match s.conn with
  | some c => closeConn p s.disk c
  | none => s.disk

/-- open a new connection: `Service(sid, ws)` reads `dRead`; afterwards the disk is `dAfter` -/
def connectOn (p : Program) (dRead dAfter : Disk) : SrvD × List Out :=
  match construct p dRead with
  | some (c, o) => ({ disk := dAfter, conn := some c, alive := true }, o.reverse)
  | none => ({ disk := dAfter, conn := none, alive := false }, [.closed])

/-- wait for the old connection's cleanup, then connect -/
def reconnectSlow (p : Program) (s : SrvD) : SrvD × List Out :=
  connectOn p (cleanupDisk p s) (cleanupDisk p s)

/-- connect at once: `create_service` builds the new `Service` (reading the disk as it is now) and the
    old connection's cleanup completes while the new one waits for the registry lock -/
def reconnectFast (p : Program) (s : SrvD) : SrvD × List Out :=
  connectOn p s.disk (cleanupDisk p s)

def stepEv (p : Program) (s : SrvD) (ev : Ev) : SrvD × List Out :=
  match ev with
  | .reconnect => reconnectSlow p s
  | .reconnectFast => reconnectFast p s
  | .msg m =>
    -- a message needs a live connection: after a refusal the client connects again first
    let r1 := if s.alive then (s, []) else reconnectSlow p s
    match r1.1.conn, r1.1.alive with
    | some c, true =>
      let r := handleMsg p r1.1.disk c m
      ({ disk := r.1, conn := some r.2.1, alive := r.2.2.1 }, r1.2 ++ r.2.2.2.1)   -- a dead object survives until its cleanup
    | _, _ => r1

def runEvs (p : Program) (s : SrvD) : List Ev → SrvD × List Out
  | [] => (s, [])
  | e :: es => let (s1, o) := stepEv p s e; let (s2, os) := runEvs p s1 es; (s2, o ++ os)

/-! ### the three-state reference machine (not-configured → configured → ready) -/

structure Spec3 where
  st : Nat := 0
  cfg : Option Cfg := none
  edb : Option Edb := none
  alive : Bool := false
  deriving DecidableEq, Repr

def Spec3.die (t : Spec3) : Spec3 := { t with alive := false }

def spec3Msg (t : Spec3) : Msg → Spec3 × List Out
  | .foreignSid | .noType | .noSid => (t, [])
  | .unknownType => (t.die, [.closed])
  | .config c =>
    if t.st ≠ 0 then (t.die, [.refused "config", .closed]) else
    match c with
    | none => (t.die, [.closed])
    | some v => ({ t with st := 1, cfg := some v }, [.ok "config"])
  | .upload e =>
    if t.st ≠ 1 then (t.die, [.refused "upload_edb", .closed])
    else ({ t with st := 2, edb := some e }, [.ok "upload_edb"])
  | .search tk =>
    if t.st ≠ 2 then (t.die, [.refused "result", .closed]) else
    match tk, t.cfg, t.edb with
    | some k, some c, some e => (t, [.result c e k])
    | _, _, _ => (t.die, [.closed])

def spec3Step (t : Spec3) : Ev → Spec3 × List Out
  | .reconnect | .reconnectFast => ({ t with alive := true }, [.initEcho t.st])
  | .msg m =>
    let (t1, o1) := if t.alive then (t, []) else ({ t with alive := true }, [Out.initEcho t.st])
    let (t2, o2) := spec3Msg t1 m
    (t2, o1 ++ o2)

def spec3Run (t : Spec3) : List Ev → Spec3 × List Out
  | [] => (t, [])
  | e :: es => let (t1, o) := spec3Step t e; let (t2, os) := spec3Run t1 es; (t2, o ++ os)


end SSEPy.ServerIR
