/-
  toolkit/symmetric_encryption/aes.py (`AESxCBC`) and toolkit/symmetric_padding.py.
  The AES block function (`blockEnc`/`blockDec`, i.e. AES-ECB on one 16-byte block) is a parameter;
  PKCS7, CBC chaining, the prepended IV and the three length contracts are modelled.
-/
import SSEPyVerif.Model.Bytes
namespace SSEPy

/-- key → 16-byte block → 16-byte block -/
abbrev BlockFn := Bytes → Bytes → Bytes

/-- `pkcs7_pad(message, 128)` -/
def pkcs7Pad (m : Bytes) : Bytes :=
  let p := 16 - m.length % 16
  m ++ List.replicate p (UInt8.ofNat p)

/-- `pkcs7_unpad(padded, 128)`: the unpadder's `finalize` needs exactly one buffered block (so the input
    is non-empty and block-aligned), a last byte `n` in 1..16 and `n` trailing bytes equal to `n`;
    anything else is `ValueError("Invalid padding bytes.")`. -/
def pkcs7Unpad (p : Bytes) : Except Err Bytes :=
  if p.length == 0 || p.length % 16 != 0 then .error .valueError else
  let n := (p.getLastD 0).toNat
  if n == 0 || n > 16 then .error .valueError
  else if (p.drop (p.length - n)).all (· == UInt8.ofNat n) then .ok (p.take (p.length - n))
  else .error .valueError

/-- split into 16-byte blocks -/
def blocks16 (x : Bytes) : List Bytes := chunksFuel x.length x 16

/-- CBC encryption of a list of blocks: `c_i = E_k(p_i ⊕ c_{i-1})`, `c_0 = iv` -/
def cbcEnc (E : BlockFn) (k : Bytes) : Bytes → List Bytes → List Bytes
  | _, [] => []
  | prev, p :: ps => let c := E k (xorPrefix p prev); c :: cbcEnc E k c ps

/-- CBC decryption: `p_i = D_k(c_i) ⊕ c_{i-1}` -/
def cbcDec (D : BlockFn) (k : Bytes) : Bytes → List Bytes → List Bytes
  | _, [] => []
  | prev, c :: cs => xorPrefix (D k c) prev :: cbcDec D k c cs

/-- `AESxCBC(key_length, cipher_length, message_length)`; -1 = unlimited -/
structure AESxCBC where
  keyLength : Int
  cipherLength : Int
  messageLength : Int
  deriving Repr

/-- the constructor's checks -/
def AESxCBC.new (keyLength : Int) (cipherLength : Int := -1) (messageLength : Int := -1) : Except Err AESxCBC :=
  if keyLength != 16 && keyLength != 24 && keyLength != 32 then .error .valueError
  else if cipherLength != -1 && Int.emod cipherLength 16 != 0 then .error .valueError
  else .ok { keyLength, cipherLength, messageLength }

/-- `Encrypt(key, message)` with the 16 random IV bytes made explicit -/
def AESxCBC.encrypt (s : AESxCBC) (E : BlockFn) (key iv msg : Bytes) : Except Err Bytes :=
  if s.messageLength != -1 && (msg.length : Int) != s.messageLength then .error .valueError
  else if (key.length : Int) != s.keyLength then .error .valueError
  else .ok (iv ++ (cbcEnc E key iv (blocks16 (pkcs7Pad msg))).flatten)

/-- `Decrypt(key, cipher_text)` -/
def AESxCBC.decrypt (s : AESxCBC) (D : BlockFn) (key ct : Bytes) : Except Err Bytes :=
  if s.cipherLength != -1 && (ct.length : Int) != s.cipherLength then .error .valueError
  else if (key.length : Int) != s.keyLength then .error .valueError
  else
    let iv := ct.take 16
    let body := ct.drop 16
    if iv.length != 16 then .error .valueError              -- modes.CBC: "Invalid IV size"
    else if body.length % 16 != 0 then .error .valueError   -- decryptor.finalize(): not a multiple of the block length
    else pkcs7Unpad (cbcDec D key iv (blocks16 body)).flatten

end SSEPy
