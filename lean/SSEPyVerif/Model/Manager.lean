/-
  frontend/server/services/services_manager.py — several connections on ONE service id, as a labelled
  transition system.  asyncio runs one task at a time and switches only at `await`, so the steps below
  are exactly the atomic blocks between the awaits of `create_service` and
  `clean_service_when_close_connection` (whose order is extracted by the translator and compared with
  `ServerIR.expectedProgram.mgrCreate / mgrCleanup`):

    create_service:  Service(sid, ws)  ·  waiting.append  ·  [lock]  wait_for(turn)  pop  refresh  register  [unlock]
                     ·  serve requests  ·
    cleanup:         await closed  ·  [lock]  sleep  close_service  del  notify_all  [unlock]

  The scheduler (the event loop, the clients, the cleanup delay) chooses among the enabled actions.
-/
import SSEPyVerif.Model.ServerIR
namespace SSEPy.Manager
open SSEPy.ServerIR

inductive Phase where
  | queued      -- constructed and appended to the waiting list; has not taken the registry lock yet
  | waiting     -- inside `wait_for`: told to wait for the earlier connections
  | serving     -- registered: its requests are processed
  | finished    -- the socket is closed and the serve loop has ended; its cleanup has not taken the lock yet
  | cleaning    -- its cleanup holds the lock (the delay)
  | done
  deriving DecidableEq, Repr

structure CRec where
  obj : Conn                    -- the `Service` object (its snapshot of the durable state)
  phase : Phase := .queued
  clientOpen : Bool := true     -- the client has not closed the socket
  dead : Bool := false          -- the server closed it (a handler raised)
  inbox : List Msg := []        -- frames received but not yet processed
  outs : List Out := []         -- what was sent to this client, most recent first
  deriving Repr

structure MState where
  disk : Disk := {}
  conns : List CRec := []       -- index = opening order
  registry : Option Nat := none
  queue : List Nat := []        -- `_waiting_dict[sid]`
  lockHeld : Bool := false      -- the condition's lock is held across an await only by a cleanup (its delay)
  deriving Repr

inductive Act where
  | openConn                    -- a new connection: `Service(sid, ws)` + `waiting.append`
  | enter (j : Nat)             -- connection j takes the lock for the first time
  | wake (j : Nat)              -- connection j, woken by `notify_all`, finds its turn has come
  | send (j : Nat) (m : Msg)    -- the client of j sends a frame
  | deliver (j : Nat)           -- the serve loop of j processes its next frame
  | clientClose (j : Nat)
  | finish (j : Nat)            -- the serve loop of j ends
  | cleanupStart (j : Nat)
  | cleanupEnd (j : Nat)
  deriving DecidableEq, Repr

def setConn (s : MState) (j : Nat) (c : CRec) : MState := { s with conns := s.conns.set j c }

/-- `refresh_service_state()` + register, for the connection whose turn it is -/
def registerConn (p : Program) (s : MState) (j : Nat) (c : CRec) : MState :=
  let obj' := match construct p s.disk with
    | some (o, _) => o
    | none => c.obj
  { setConn s j { c with obj := obj', phase := .serving } with registry := some j, queue := s.queue.tail }

/-- one step; `none` = the action is not enabled in this state -/
def step (p : Program) (s : MState) : Act → Option MState
  | .openConn =>
    match construct p s.disk with
    | some (o, outs) =>
      some { s with conns := s.conns ++ [{ obj := o, outs := outs }], queue := s.queue ++ [s.conns.length] }
    | none =>
      -- the constructor raised: the connection is gone before anything is registered
      some { s with conns := s.conns ++ [{ obj := {}, phase := .done, clientOpen := false, dead := true, outs := [.closed] }] }
  | .enter j =>
    match s.conns[j]? with
    | some c =>
      if c.phase = .queued ∧ s.lockHeld = false then
        if s.registry.isSome ∨ s.queue.head? ≠ some j then
          some (setConn s j { c with phase := .waiting, outs := if c.clientOpen then .control :: c.outs else c.outs })
        else some (registerConn p s j c)
      else none
    | none => none
  | .wake j =>
    match s.conns[j]? with
    | some c =>
      if c.phase = .waiting ∧ s.lockHeld = false ∧ s.registry = none ∧ s.queue.head? = some j then
        some (registerConn p s j c)
      else none
    | none => none
  | .send j m =>
    match s.conns[j]? with
    | some c => if c.clientOpen ∧ c.dead = false then some (setConn s j { c with inbox := c.inbox ++ [m] }) else none
    | none => none
  | .deliver j =>
    match s.conns[j]? with
    | some c =>
      if c.phase = .serving ∧ c.dead = false then
        match c.inbox with
        | [] => none
        | m :: rest =>
          let r := handleMsg p s.disk c.obj m
          -- replies to a client that has already closed its socket are never seen
          some { setConn s j { c with obj := r.2.1, inbox := if r.2.2.1 then rest else [], dead := !r.2.2.1,
                                       outs := if c.clientOpen then r.2.2.2.1.reverse ++ c.outs else c.outs }
                 with disk := r.1 }
      else none
    | none => none
  | .clientClose j =>
    match s.conns[j]? with
    | some c => if c.clientOpen then some (setConn s j { c with clientOpen := false }) else none
    | none => none
  | .finish j =>
    match s.conns[j]? with
    | some c =>
      if c.phase = .serving ∧ (c.dead ∨ (c.clientOpen = false ∧ c.inbox = [])) then
        some (setConn s j { c with phase := .finished })
      else none
    | none => none
  | .cleanupStart j =>
    match s.conns[j]? with
    | some c =>
      if c.phase = .finished ∧ s.lockHeld = false then
        some { setConn s j { c with phase := .cleaning } with lockHeld := true }
      else none
    | none => none
  | .cleanupEnd j =>
    match s.conns[j]? with
    | some c =>
      if c.phase = .cleaning then
        -- `self._service_dict[sid].close_service()`: the REGISTERED object's snapshot is written back
        let d := match s.registry.bind (fun r => s.conns[r]?) with
          | some rc => closeConn p s.disk rc.obj
          | none => s.disk
        some { setConn s j { c with phase := .done } with disk := d, registry := none, lockHeld := false }
      else none
    | none => none

/-- run a schedule, skipping actions that are not enabled -/
def run (p : Program) (s : MState) : List Act → MState
  | [] => s
  | a :: as => run p ((step p s a).getD s) as

/-- a state reachable from the empty one -/
inductive Reachable (p : Program) : MState → Prop where
  | init : Reachable p {}
  | step (s s' : MState) (a : Act) : Reachable p s → step p s a = some s' → Reachable p s'

end SSEPy.Manager
