/-
  frontend/client/commands.py + services/service_name_handler.py: the command layer addresses services by a user-chosen
  NAME.  `create_service(config, name)` creates a service (a folder named by a fresh random sid) and records name ↦ sid in
  `service_mapping.json`; every other command resolves the name to the sid first.

  Names are compared as exact strings (no trimming, no case folding); a name that is taken is refused BEFORE anything is
  written (commit 08cb3ff; before it the new service folder was already on disk when the name was refused).
-/
namespace SSEPy.Cmd

structure World where
  services : List String := []            -- sids whose folder exists, in creation order
  names : List (String × String) := []    -- service_mapping.json, in insertion order
  deriving Repr, DecidableEq

/-- `create_service`: `cfgOk` = the scheme can be instantiated with the configuration (C11: `invalid config = no-op`);
    `sid` = the fresh service id.  Returns the new world and whether the command was accepted. -/
def create (w : World) (cfgOk : Bool) (name sid : String) : World × Bool :=
  if (w.names.lookup name).isSome then (w, false)
  else if !cfgOk then (w, false)
  else ({ services := w.services ++ [sid], names := w.names ++ [(name, sid)] }, true)

/-- `get_service_id_by_sname` -/
def resolve (w : World) (name : String) : Option String := w.names.lookup name

/-- a history of create commands -/
def run (w : World) : List (Bool × String × String) → World
  | [] => w
  | (c, n, s) :: rest => run (create w c n s).1 rest

end SSEPy.Cmd
