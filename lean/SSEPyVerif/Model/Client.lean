/-
  Interpreter for the client program (frontend/client/**, IR in Model/ClientIR.lean).

  A command is what `frontend/client/commands.py` does for one user action: a `Service` object freshly
  loaded from disk, one handler, and — for the three network commands — `close_service()` in a `finally`.
  The server is the three-state reference machine `Spec3` (the real server refines it: C10).
  Abstraction: KeyGen draws a fresh key id; the index built under key `k` has id `k`; a token for key
  `k` is `k`; a search result is the pair (index id, token id) — correct iff they are equal.
-/
import SSEPyVerif.Model.ClientIR
namespace SSEPy.ClientIR
open SSEPy.ServerIR

structure Bits where
  created : Bool := false
  uploaded : Bool := false
  key : Bool := false
  encrypted : Bool := false
  dbUploaded : Bool := false
  deriving DecidableEq, Repr

def Bits.get (b : Bits) : Bit → Bool
  | .created => b.created | .uploaded => b.uploaded | .key => b.key
  | .encrypted => b.encrypted | .dbUploaded => b.dbUploaded

def Bits.set (b : Bits) (x : Bit) (v : Bool) : Bits :=
  match x with
  | .created => { b with created := v } | .uploaded => { b with uploaded := v } | .key => { b with key := v }
  | .encrypted => { b with encrypted := v } | .dbUploaded => { b with dbUploaded := v }

/-- the persisted flag word, with the masks the source defines -/
def Bits.toNat (p : Program) (b : Bits) : Nat :=
  p.bitMasks.foldl (fun acc m => if b.get m.1 then acc + m.2 else acc) 0

def Bits.ofNat (p : Program) (n : Nat) : Bits :=
  p.bitMasks.foldl (fun acc m => acc.set m.1 (n / m.2 % 2 == 1)) {}

/-- the client's directory for this service -/
structure CDisk where
  dir : Bool := false
  config : FileSt Cfg := .absent
  metaSt : FileSt Bits := .absent
  key : FileSt Nat := .absent
  edb : FileSt Nat := .absent
  deriving DecidableEq, Repr

structure World where
  cdisk : CDisk := {}
  server : Spec3 := {}
  nextKey : Nat := 1
  deriving DecidableEq, Repr

inductive Cmd where
  | create (cfg : Cfg) (valid : Bool)   -- `valid`: the chosen scheme can be instantiated with the configuration
  | key | encrypt | uploadConfig | uploadEdb | search
  deriving DecidableEq, Repr

inductive COut where
  | ok
  | refused                              -- the command ended with an error
  | result (index token : Nat)           -- delivered search result: which index answered, whose token
  deriving DecidableEq, Repr

/-- the `Service` object of one command -/
structure Obj where
  bits : Bits := {}
  memCfg : Option Cfg := none
  key : Option Nat := none
  edb : Option Nat := none
  connected : Bool := false
  newKey : Option Nat := none
  argCfg : Option Cfg := none
  argValid : Bool := true
  reply : Option COut := none            -- what the awaited future delivered
  deriving Repr

structure CM where
  w : World
  o : Obj
  deriving Repr

def handlerOfEcho (p : Program) (mt : String) : List Eff :=
  match (p.echoDispatch.find? (·.1 == mt)).map (·.2) with
  | some "handle_upload_config_echo" => p.uploadConfigEcho
  | some "handle_upload_encrypted_database_echo" => p.uploadEdbEcho
  | _ => []

def fileOkToWrite (d : CDisk) : Bool := d.dir   -- `open(<dir>/<f>.tmp, 'wb')` needs the directory

/-- interpret statements; `none` = an exception was raised (the state reached is returned too) -/
def runC (p : Program) : Nat → List Eff → CM → CM × Bool
  | 0, _, m => (m, false)
  | _, [], m => (m, true)
  | fuel + 1, e :: rest, m =>
    let cont := fun (m' : CM) => runC p fuel rest m'
    match e with
    | .guardBit b v => if m.o.bits.get b == v then (m, false) else cont m
    | .requireValidConfig => if m.o.argValid then cont m else (m, false)
    | .checkConfigValidIgnored | .addSalt | .calcSid | .returnSid | .waitSetup | .returnIfNotOk => cont m
    | .mkdirSid =>
      match p.fmCreateSidFolder with
      | [.mkdir] => if m.w.cdisk.dir then (m, false) else cont { m with w := { m.w with cdisk := { m.w.cdisk with dir := true } } }
      | [.mkdirExistOk] => cont { m with w := { m.w with cdisk := { m.w.cdisk with dir := true } } }
      | _ => (m, false)
    | .writeConfig =>
      match m.o.argCfg with
      | some c => if fileOkToWrite m.w.cdisk then cont { m with w := { m.w with cdisk := { m.w.cdisk with config := .full c } } } else (m, false)
      | none => (m, false)
    | .setMemConfig => cont { m with o := { m.o with memCfg := m.o.argCfg } }
    | .setBit b v => cont { m with o := { m.o with bits := m.o.bits.set b v } }
    | .storeMeta =>
      if fileOkToWrite m.w.cdisk then cont { m with w := { m.w with cdisk := { m.w.cdisk with metaSt := .full m.o.bits } } }
      else (m, false)
    | .loadConfigObject | .loadScheme => if m.o.memCfg.isSome then cont m else (m, false)
    | .keyGen => cont { w := { m.w with nextKey := m.w.nextKey + 1 }, o := { m.o with newKey := some m.w.nextKey } }
    | .writeKey =>
      match m.o.newKey with
      | some k => if fileOkToWrite m.w.cdisk then cont { m with w := { m.w with cdisk := { m.w.cdisk with key := .full k } } } else (m, false)
      | none => (m, false)
    | .loadKey =>
      match m.o.memCfg, m.w.cdisk.key with
      | some _, .full k => cont { m with o := { m.o with key := some k } }
      | _, _ => (m, false)
    | .edbSetup =>
      match m.o.key with
      | some k => cont { m with o := { m.o with edb := some k } }
      | none => (m, false)
    | .writeEdb =>
      match m.o.edb with
      | some x => if fileOkToWrite m.w.cdisk then cont { m with w := { m.w with cdisk := { m.w.cdisk with edb := .full x } } } else (m, false)
      | none => (m, false)
    | .loadWebsocket =>
      if m.o.connected then cont m else
      -- connect: the init echo carries the server's state, which overrides two flags in memory
      let st := m.w.server.st
      let upd := (p.updateTable.find? (·.1 == st)).map (·.2) |>.getD []
      let bits' := upd.foldl (fun b e => match e with | .setBit x v => b.set x v | _ => b) m.o.bits
      cont { w := { m.w with server := { m.w.server with alive := true } }, o := { m.o with bits := bits', connected := true } }
    | .loadEdbFile =>
      match m.o.edb with
      | some _ => cont m
      | none =>
        match m.o.memCfg, m.w.cdisk.edb with
        | some _, .full x => cont { m with o := { m.o with edb := some x } }
        | _, _ => (m, false)
    | .tokenGen => if m.o.key.isSome then cont m else (m, false)
    | .sendMsg mt =>
      let msg : Option Msg :=
        if mt == "config" then some (.config m.o.memCfg)
        else if mt == "upload_edb" then m.o.edb.map .upload
        else if mt == "token" then some (.search m.o.key)
        else none
      match msg with
      | none => (m, false)
      | some msg =>
        let r := spec3Msg m.w.server msg
        let m1 : CM := { m with w := { m.w with server := r.1 } }
        match r.2 with
        | [.ok mt'] =>
          -- the acknowledgement handler runs in the receive task, then the awaited future resolves
          let (m2, _) := runC p fuel (handlerOfEcho p mt') m1
          runC p fuel rest { m2 with o := { m2.o with reply := some .ok } }
        | [.result _ e k] => runC p fuel rest { m1 with o := { m1.o with reply := some (.result e k) } }
        | _ => runC p fuel rest { m1 with o := { m1.o with reply := none, connected := false } }   -- refused: the server closed the connection
    | .awaitReply => if m.o.reply.isSome then cont m else (m, false)      -- nothing arrives: `wait_for` times out
    | .deleteEdb => cont { m with w := { m.w with cdisk := { m.w.cdisk with edb := .absent } } }
    | .closeWebsocket => cont { w := { m.w with server := { m.w.server with alive := false } }, o := { m.o with connected := false } }
    | .unknown _ => (m, false)

/-- `Service(sid)`: load the persisted state -/
def loadObj (p : Program) (d : CDisk) : Option Obj :=
  let valid : Bool := match p.fmCheckValid with
    | [.retAllExist fs] => d.dir && fs.all (fun f => if f == "config.json" then d.config != .absent
                                                     else if f == "service_meta" then d.metaSt != .absent else false)
    | _ => false
  if valid then
    match d.config, d.metaSt with
    | .full c, .full b => some { bits := b, memCfg := some c }
    | _, _ => none            -- a truncated file: the constructor raises
  else some {}

/-- one user command -/
def runCmd (p : Program) (w : World) (cmd : Cmd) : World × COut :=
  match loadObj p w.cdisk with
  | none => (w, .refused)
  | some o =>
    let fuel := 200
    let fin (r : CM × Bool) (network : Bool) : World × COut :=
      -- network commands: `finally: await close_service()`
      let m := if network then (runC p fuel p.closeService r.1).1 else r.1
      (m.w, if r.2 then (match r.1.o.reply with | some (.result e k) => .result e k | _ => .ok) else .refused)
    match cmd with
    | .create c v =>
      -- `commands.create_service` always starts from `Service()` (no sid): an object with the empty state; the sid is
      -- then computed from the salted configuration, so re-creating from a configuration that already carries its salt
      -- addresses the existing folder
      fin (runC p fuel p.createConfig { w := w, o := { argCfg := some c, argValid := v } }) false
    | .key => fin (runC p fuel p.createKey { w := w, o := o }) false
    | .encrypt => fin (runC p fuel p.encryptDatabase { w := w, o := o }) false
    | .uploadConfig => fin (runC p fuel p.uploadConfig { w := w, o := o }) true
    | .uploadEdb => fin (runC p fuel p.uploadEdb { w := w, o := o }) true
    | .search => fin (runC p fuel p.keywordSearch { w := w, o := o }) true

def runCmds (p : Program) (w : World) : List Cmd → World × List COut
  | [] => (w, [])
  | c :: cs => let (w1, o) := runCmd p w c; let (w2, os) := runCmds p w1 cs; (w2, o :: os)

end SSEPy.ClientIR
