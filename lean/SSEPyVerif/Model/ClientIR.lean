/-
  The client side of the front end (frontend/client/**) as an intermediate representation.  The IR values
  are regenerated from the source on every run (Generated/ClientIR.lean).
-/
import SSEPyVerif.Model.ServerIR
namespace SSEPy.ClientIR
open SSEPy.ServerIR

/-- the five persisted flags -/
inductive Bit where
  | created | uploaded | key | encrypted | dbUploaded
  deriving DecidableEq, Repr

/-- statements of the client handlers -/
inductive Eff where
  | guardBit (b : Bit) (raiseIfSet : Bool)      -- raise when the flag's value equals `raiseIfSet`
  | requireValidConfig                          -- `if not _check_config_valid(config): raise`
  | checkConfigValidIgnored                     -- `_check_config_valid(config)` with the result dropped
  | addSalt | calcSid | mkdirSid | writeConfig | setMemConfig
  | setBit (b : Bit) (v : Bool)
  | storeMeta | returnSid
  | loadConfigObject | loadScheme | keyGen | writeKey | loadKey
  | edbSetup | writeEdb
  | loadWebsocket | loadEdbFile | waitSetup | sendMsg (mt : String) | awaitReply | tokenGen
  | returnIfNotOk | deleteEdb | closeWebsocket
  | unknown (s : String)
  deriving DecidableEq, Repr

inductive CLeaf where
  | readConfig | readMeta | initMeta (n : Nat) | loadModule | loadConfigObject | unknown (s : String)
  deriving DecidableEq, Repr

inductive CEff where
  | ifLocalValid (t e : List CLeaf)
  | ifCreated (b : List CLeaf)
  | unknown (s : String)
  deriving DecidableEq, Repr

structure Program where
  bitMasks : List (Bit × Nat)
  ctor : List CEff
  createConfig : List Eff
  createKey : List Eff
  encryptDatabase : List Eff
  uploadConfig : List Eff
  uploadEdb : List Eff
  keywordSearch : List Eff
  uploadConfigEcho : List Eff
  uploadEdbEcho : List Eff
  closeService : List Eff
  echoDispatch : List (String × String)
  updateTable : List (Nat × List Eff)
  fmCheckValid : List FsOp
  fmCreateSidFolder : List FsOp
  fmWriteConfig : List FsOp
  fmWriteMeta : List FsOp
  fmWriteEdb : List FsOp
  fmWriteKey : List FsOp
  fmDeleteEdb : List FsOp
  deriving DecidableEq, Repr

/-- the file-system mutations a handler performs, in order (what a crash interposer logs) -/
def fsOfEff (p : Program) : Eff → List FsOp
  | .mkdirSid => p.fmCreateSidFolder
  | .writeConfig => p.fmWriteConfig
  | .storeMeta => p.fmWriteMeta
  | .writeEdb => p.fmWriteEdb
  | .writeKey => p.fmWriteKey
  | .deleteEdb => p.fmDeleteEdb
  | _ => []

def fsOps (p : Program) (effs : List Eff) : List FsOp := effs.flatMap (fsOfEff p)

end SSEPy.ClientIR
