/-
  toolkit/symmetric_encryption/fpe.py (`BitwiseFFX`), toolkit/prp/bitwise_fpe_prp.py,
  toolkit/prp/luby_rackoff_prp.py, toolkit/prp/hmac_luby_rackoff_prp.py.
  The keyed digest (`hmac.new(key, msg, sha1)`) is a parameter.
-/
import SSEPyVerif.Model.Bits
import SSEPyVerif.Model.PHash
namespace SSEPy

/-- `struct.pack('I', n)`: 4 bytes, native (little-endian) order -/
def packI (n : Nat) : Bytes := (toBE 4 (n % 2 ^ 32)).reverse

/-- `struct.pack('I%sI' % len(s), i, *s)` -/
def ffxPre (i : Nat) (s : Bitset) : Bytes :=
  packI i ++ s.toBits.flatMap fun b => packI (if b then 1 else 0)

/-- the expansion loop of `BitwiseFFX.round` — the inner counter is never incremented, so the same
    digest `d` is appended until the result is long enough -/
def ffxRoundLoop (d : Bitset) (outLen : Nat) : Nat → Bitset → Except Err Bitset
  | 0, _ => .error .diverges
  | fuel + 1, result => do
    let result ← result.concat d
    if result.length ≥ outLen then .ok result else ffxRoundLoop d outLen fuel result

/-- `BitwiseFFX.round(key, i, s, output_len)`; `digestBytes` = `digest_size` -/
def ffxRound (hmac : Hmac) (digestBytes : Nat) (key : Bytes) (i : Nat) (s : Bitset) (outputLen : Nat) :
    Except Err Bitset := do
  let outLen := if outputLen == 0 then s.length else outputLen
  let dg := hmac key (ffxPre i s ++ packI 0)
  let d ← Bitset.mk' (fromBE dg) (digestBytes * 8)
  let result ← ffxRoundLoop d outLen (outLen + 1) ⟨0, 0⟩
  result.getHigherBits outLen

/-- round function type: round index, right half, requested length -/
abbrev RoundFn := Nat → Bitset → Nat → Except Err Bitset

/-- `for i in range(rounds): c = a ^ round(key, i, b, len(a)); a, b = b, c` -/
def ffxEncLoop (F : RoundFn) : List Nat → Bitset → Bitset → Except Err (Bitset × Bitset)
  | [], a, b => .ok (a, b)
  | i :: is, a, b => do
    let r ← F i b a.length
    ffxEncLoop F is b (a.xor r)

/-- `for i in range(rounds-1, -1, -1): b, c = a, b; a = c ^ round(key, i, b, len(c))` -/
def ffxDecLoop (F : RoundFn) : List Nat → Bitset → Bitset → Except Err (Bitset × Bitset)
  | [], a, b => .ok (a, b)
  | i :: is, a, b => do
    let r ← F i a b.length
    ffxDecLoop F is (b.xor r) a

def ffxEncrypt (F : RoundFn) (rounds : Nat) (v : Bitset) : Except Err Bitset := do
  let (a, b) ← v.halfNotPadding
  let (a, b) ← ffxEncLoop F (List.range rounds) a b
  a.concat b

def ffxDecrypt (F : RoundFn) (rounds : Nat) (v : Bitset) : Except Err Bitset := do
  let (a, b) ← v.halfNotPadding
  let (a, b) ← ffxDecLoop F (List.range rounds).reverse a b
  a.concat b

def DEFAULT_ROUNDS : Nat := 10

/-- `BitwiseFPEPRP(message_bit_length, key_bit_length).__call__(key: Bitset, message: Bitset)` -/
def bitwiseFpePrp (hmac : Hmac) (digestBytes : Nat) (msgBits keyBits : Int) (key msg : Bitset) : Except Err Bitset := do
  if (key.length : Int) != keyBits then throw .valueError
  if (msg.length : Int) != msgBits then throw .valueError
  let kb ← key.toBytes
  ffxEncrypt (ffxRound hmac digestBytes kb) DEFAULT_ROUNDS msg

/-! ### byte-oriented Luby–Rackoff -/

/-- the underlying PRF as seen by the PRP: its three declared lengths and its call -/
structure PrfView where
  keyLength : Int
  messageLength : Int
  outputLength : Int
  call : Bytes → Bytes → Except Err Bytes

structure LubyRackoff where
  messageLength : Int
  keyLength : Int
  prf : PrfView

/-- `LubyRackoffPRP.__init__` -/
def LubyRackoff.new (messageLength keyLength : Int) (prf : PrfView) : Except Err LubyRackoff :=
  if prf.keyLength * 3 != keyLength then .error .valueError
  else if prf.messageLength != prf.outputLength then .error .valueError
  else if prf.messageLength * 2 != messageLength then .error .valueError
  else .ok { messageLength, keyLength, prf }

/-- one Feistel step on byte halves: `(L, R) ↦ (R, L ⊕ F(k, R))` -/
def lrStep (prf : Bytes → Bytes → Except Err Bytes) (k : Bytes) (lr : Bytes × Bytes) : Except Err (Bytes × Bytes) := do
  let f ← prf k lr.2
  let nr ← bytesXor lr.1 f
  .ok (lr.2, nr)

/-- the three rounds `for i in range(3)` -/
def lr3 (prf : Bytes → Bytes → Except Err Bytes) (k0 k1 k2 : Bytes) (s0 : Bytes × Bytes) :
    Except Err (Bytes × Bytes) := do
  let s1 ← lrStep prf k0 s0
  let s2 ← lrStep prf k1 s1
  lrStep prf k2 s2

/-- split the message, derive `key_list = [key[i: i + kl//3] for i in range(0, kl, kl//3)]`, run the
    rounds, join -/
def lrCore (prf : Bytes → Bytes → Except Err Bytes) (key msg : Bytes) : Except Err Bytes := do
  let half := msg.length / 2
  let third := key.length / 3
  let keyAt (i : Nat) : Bytes := slice key (i * third) (i * third + third)
  let s3 ← lr3 prf (keyAt 0) (keyAt 1) (keyAt 2) (msg.take half, msg.drop half)
  .ok (s3.1 ++ s3.2)

/-- `LubyRackoffPRP.__call__` (lengths are non-negative after the checks; a zero `kl//3` makes the
    `range` step zero, which raises `ValueError`) -/
def LubyRackoff.call (p : LubyRackoff) (key msg : Bytes) : Except Err Bytes :=
  if (key.length : Int) != p.keyLength then .error .valueError
  else if (msg.length : Int) != p.messageLength then .error .valueError
  else if key.length / 3 == 0 then .error .valueError
  else lrCore p.prf.call key msg

/-- `HmacLubyRackoffPRP.__init__`: parity / divisibility checks, then an `HmacPRF` of half width -/
def hmacLubyRackoffNew (hmac : Hmac) (hashLen : Nat) (messageLength keyLength : Int) : Except Err LubyRackoff :=
  if Int.emod messageLength 2 != 0 then .error .valueError
  else if Int.emod keyLength 3 != 0 then .error .valueError
  else
    let prf := HmacPRF.new (Int.fdiv messageLength 2) (Int.fdiv keyLength 3) (Int.fdiv messageLength 2) hashLen
    LubyRackoff.new messageLength keyLength
      { keyLength := prf.keyLength, messageLength := prf.messageLength, outputLength := prf.outputLength,
        call := prf.call hmac }

end SSEPy
