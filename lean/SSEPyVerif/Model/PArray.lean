/-
  data_persistence/persistent_array.py (`SPFLBArray` over `SimpleMultiFilePersistentFixedLengthBytesArray`)
  and the mixin methods of data_persistence/interfaces.py — modelled at *file* level:
  chunk files are byte strings, `seek` past EOF + `write` zero-fills, reads at/after EOF are short.
-/
import SSEPyVerif.Model.Bytes
import SSEPyVerif.Model.PySeq
namespace SSEPy.PArray

abbrev File := Bytes

/-- `f.seek(off); f.read(n)` -/
def readAt (f : File) (off n : Nat) : Bytes := (f.drop off).take n

/-- `f.seek(off); f.write(c)`: a gap between EOF and `off` is filled with zeros -/
def writeAt (f : File) (off : Nat) (c : Bytes) : File :=
  (f ++ zeros (off - f.length)).take off ++ c ++ f.drop (off + c.length)

/-- the state of one array: its meta values, the chunk files on disk, and whether the handle is closed.
    The lazy file cache is not observable beyond the fact that touching a chunk creates its file. -/
structure PArr where
  sz : Nat          -- item_size
  len : Nat         -- array_len
  per : Nat         -- item_num_in_one_file
  files : Nat → Option File
  closed : Bool

/-- `_get_file_by_id`: open, creating an empty file when it does not exist -/
def touch (s : PArr) (fid : Nat) : PArr :=
  { s with files := fun k => if k = fid then some ((s.files fid).getD []) else s.files k }

def fileOf (s : PArr) (fid : Nat) : File := (s.files fid).getD []

/-- `_get_bytes_by_index(index)` for a non-negative index: read, right-pad a short read with zeros -/
def readIdx (s : PArr) (i : Nat) : Bytes :=
  let r := readAt (fileOf s (i / s.per)) (i % s.per * s.sz) s.sz
  r ++ zeros (s.sz - r.length)

/-- `_write_bytes_to_file(index, content)` after the length check: left-pad, seek, write -/
def writeIdx (s : PArr) (i : Nat) (content : Bytes) : PArr :=
  let c := zeros (s.sz - content.length) ++ content
  let fid := i / s.per
  { s with files := fun k => if k = fid then some (writeAt (fileOf s fid) (i % s.per * s.sz) c) else s.files k }

/-- a value handed to the array by the caller -/
inductive Item where
  | bytes (b : Bytes)
  | nonBytes            -- anything that is not a byte string (int, str, None, …)
  deriving Repr, DecidableEq

inductive Op where
  | get (i : Int)
  | getSlice (s e st : Option Int)
  | set (i : Int) (v : Item)
  | setSlice (s e st : Option Int) (vs : List Item)
  | del (i : Int)
  | delSlice (s e st : Option Int)
  | clear | iter | contains (v : Bytes) | len | close
  deriving Repr

inductive Out where
  | item (b : Bytes)
  | items (l : List Bytes)
  | unit
  | bool (b : Bool)
  | nat (n : Nat)
  | err (e : Err)
  deriving Repr, DecidableEq

/-- index check of `__getitem__` / `__setitem__`: `index >= len or index < -len` raises IndexError;
    otherwise the index is normalised with `% len` -/
def normIdx (len : Nat) (i : Int) : Option Nat :=
  if i ≥ (len : Int) ∨ i < -(len : Int) then none else some (i % (len : Int)).toNat

/-- slice assignment loop: returns the state, the positions visited so far with their old values
    (most recent first) and the failure, if any -/
def setSliceLoop (s : PArr) : List Nat → List Item → List (Nat × Bytes) → PArr × List (Nat × Bytes) × Option Err
  | [], _, olds => (s, olds, none)
  | i :: _, [], olds => (touch s (i / s.per), olds, none)   -- the old item is read, then `next()` raises StopIteration
  | i :: is, v :: vs, olds =>
    let s1 := touch s (i / s.per)
    let old := readIdx s1 i
    match v with
    | .nonBytes => (s1, (i, old) :: olds, some .typeError)
    | .bytes b =>
      if b.length > s.sz then (s1, (i, old) :: olds, some .valueError)
      else setSliceLoop (writeIdx s1 i b) is vs ((i, old) :: olds)

/-- the rollback `self[key] = old_items`: the same slice is assigned again with the saved values (in
    visiting order), which itself reads each old item before writing it and, when the range is longer
    than the saved list, reads one further item before `StopIteration` ends it -/
def rollback (s : PArr) (idx : List Nat) (olds : List (Nat × Bytes)) : PArr :=
  (setSliceLoop s idx (olds.reverse.map fun p => Item.bytes p.2) []).1

def zeroRange (s : PArr) (idx : List Nat) : PArr :=
  idx.foldl (fun st i => writeIdx (touch st (i / st.per)) i (zeros st.sz)) s

def natIdx (l : List Int) : List Nat := l.map Int.toNat

def step (s : PArr) (op : Op) : PArr × Out :=
  if s.closed then
    match op with
    | .close => (s, .unit)
    | _ => (s, .err .valueError)
  else
  match op with
  | .get i =>
    match normIdx s.len i with
    | none => (s, .err .indexError)
    | some k => let s1 := touch s (k / s.per); (s1, .item (readIdx s1 k))
  | .getSlice a b c =>
    match sliceRange a b c s.len with
    | .error e => (s, .err e)
    | .ok idx =>
      let idx := natIdx idx
      let s1 := idx.foldl (fun st i => touch st (i / st.per)) s
      (s1, .items (idx.map (readIdx s1)))
  | .set i v =>
    match normIdx s.len i with
    | none => (s, .err .indexError)
    | some k =>
      match v with
      | .nonBytes => (s, .err .typeError)
      | .bytes b =>
        if b.length > s.sz then (s, .err .valueError)
        else (writeIdx (touch s (k / s.per)) k b, .unit)
  | .setSlice a b c vs =>
    match sliceRange a b c s.len with
    | .error e => (s, .err e)
    | .ok idx =>
      match setSliceLoop s (natIdx idx) vs [] with
      | (s1, _, none) => (s1, .unit)
      | (s1, olds, some e) => (rollback s1 (natIdx idx) olds, .err e)
  | .del i =>
    match normIdx s.len i with
    | none => (s, .err .indexError)
    | some k => (writeIdx (touch s (k / s.per)) k (zeros s.sz), .unit)
  | .delSlice a b c =>
    match sliceRange a b c s.len with
    | .error e => (s, .err e)
    | .ok idx => (zeroRange s (natIdx idx), .unit)
  | .clear => (zeroRange s (List.range s.len), .unit)
  | .iter =>
    let s1 := (List.range s.len).foldl (fun st i => touch st (i / st.per)) s
    (s1, .items ((List.range s.len).map (readIdx s1)))
  | .contains v =>
    -- `for x in self: if x == v: return True` stops at the first hit (later chunks stay untouched)
    let rec go (st : PArr) : List Nat → PArr × Bool
      | [] => (st, false)
      | i :: is => let st1 := touch st (i / st.per); if readIdx st1 i == v then (st1, true) else go st1 is
    let (s1, r) := go s (List.range s.len)
    (s1, .bool r)
  | .len => (s, .nat s.len)
  | .close => ({ s with closed := true }, .unit)

/-- `create(path, item_size, array_len, item_num_in_one_file)` on a fresh path -/
def create (sz len per : Nat) : PArr := { sz, len, per, files := fun _ => none, closed := false }

/-- `open(path)`: a new handle on the same files -/
def reopen (s : PArr) : PArr := { s with closed := false }

/-- number of chunk files: `ceil(array_len / item_num_in_one_file)` -/
def fileNum (s : PArr) : Nat := ceilDiv s.len s.per

/-! ### the reference model: a plain list of fixed-size items -/

structure Spec where
  sz : Nat
  items : List Bytes
  closed : Bool

def leftPad (sz : Nat) (b : Bytes) : Bytes := zeros (sz - b.length) ++ b

/-- element-wise slice assignment up to the shorter of slice and values -/
def assignAll (sz : Nat) (items : List Bytes) : List Nat → List Item → Except Err (List Bytes)
  | [], _ => .ok items
  | _, [] => .ok items
  | i :: is, v :: vs =>
    match v with
    | .nonBytes => .error .typeError
    | .bytes b => if b.length > sz then .error .valueError else assignAll sz (items.set i (leftPad sz b)) is vs

def specStep (s : Spec) (op : Op) : Spec × Out :=
  if s.closed then
    match op with
    | .close => (s, .unit)
    | _ => (s, .err .valueError)
  else
  let n := s.items.length
  match op with
  | .get i => match normIdx n i with
    | none => (s, .err .indexError)
    | some k => (s, .item (s.items.getD k []))
  | .getSlice a b c => match sliceRange a b c n with
    | .error e => (s, .err e)
    | .ok idx => (s, .items ((natIdx idx).map fun k => s.items.getD k []))
  | .set i v => match normIdx n i with
    | none => (s, .err .indexError)
    | some k => match v with
      | .nonBytes => (s, .err .typeError)
      | .bytes b => if b.length > s.sz then (s, .err .valueError)
                    else ({ s with items := s.items.set k (leftPad s.sz b) }, .unit)
  | .setSlice a b c vs => match sliceRange a b c n with
    | .error e => (s, .err e)
    | .ok idx => match assignAll s.sz s.items (natIdx idx) vs with
      | .error e => (s, .err e)                         -- a failing assignment changes nothing
      | .ok items => ({ s with items }, .unit)
  | .del i => match normIdx n i with
    | none => (s, .err .indexError)
    | some k => ({ s with items := s.items.set k (zeros s.sz) }, .unit)
  | .delSlice a b c => match sliceRange a b c n with
    | .error e => (s, .err e)
    | .ok idx => ({ s with items := (natIdx idx).foldl (fun l k => l.set k (zeros s.sz)) s.items }, .unit)
  | .clear => ({ s with items := s.items.map fun _ => zeros s.sz }, .unit)
  | .iter => (s, .items s.items)
  | .contains v => (s, .bool (s.items.contains v))
  | .len => (s, .nat n)
  | .close => ({ s with closed := true }, .unit)

/-- abstraction: what a full read of the array returns -/
def abs (s : PArr) : Spec :=
  { sz := s.sz, items := (List.range s.len).map (readIdx s), closed := s.closed }

end SSEPy.PArray
