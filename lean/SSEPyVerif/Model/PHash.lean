/-
  toolkit/prf/hmac_prf.py (`_tls_p_hash`, `HmacPRF`) and toolkit/hash.py
  (`HashlibHashVariableOutputLengthWrapper`).  The HMAC / hash digests are parameters (leaves).
-/
import SSEPyVerif.Model.Bytes
namespace SSEPy

/-- `LENGTH_UNLIMITED = -1`, `LENGTH_NOT_GIVEN = 0` (toolkit/constants.py) -/
def LENGTH_UNLIMITED : Int := -1
def LENGTH_NOT_GIVEN : Int := 0

/-- keyed digest leaf: `hmac.new(key, msg, digestmod).digest()` -/
abbrev Hmac := Bytes → Bytes → Bytes

/-- the countdown loop of `_tls_p_hash`:
    `while n > 0: res += H(key, a + message); a = H(key, a); n -= 1` -/
def pHashLoop (hmac : Hmac) (key msg : Bytes) : Nat → Bytes → Bytes → Bytes
  | 0, _, res => res
  | n + 1, a, res => pHashLoop hmac key msg n (hmac key a) (res ++ hmac key (a ++ msg))

/-- `_tls_p_hash(key, message, output_len)` with digest size `hashLen > 0`.
    `n = (output_len + hash_len - 1) // hash_len`; a non-positive `output_len` gives `b''`. -/
def tlsPHash (hmac : Hmac) (hashLen : Nat) (key msg : Bytes) (outputLen : Int) : Bytes :=
  if outputLen ≤ 0 then [] else
  let n := (outputLen.toNat + hashLen - 1) / hashLen
  (pHashLoop hmac key msg n (hmac key msg) []).take outputLen.toNat

/-! the RFC 5246 definition, written independently:
    `A(0) = seed, A(i) = HMAC(secret, A(i-1))`,
    `P_hash = HMAC(secret, A(1) + seed) + HMAC(secret, A(2) + seed) + ...` -/
def rfcA (hmac : Hmac) (secret seed : Bytes) : Nat → Bytes
  | 0 => seed
  | i + 1 => hmac secret (rfcA hmac secret seed i)

def rfcBlock (hmac : Hmac) (secret seed : Bytes) (i : Nat) : Bytes :=
  hmac secret (rfcA hmac secret seed i ++ seed)

/-- the first `n` blocks of the RFC stream: blocks 1..n -/
def rfcStream (hmac : Hmac) (secret seed : Bytes) (n : Nat) : Bytes :=
  ((List.range n).map fun i => rfcBlock hmac secret seed (i + 1)).flatten

/-- `HmacPRF(output_length, key_length, message_length, hash_func_name)` after `__init__`
    (`output_length == LENGTH_NOT_GIVEN` has been replaced by the digest size). -/
structure HmacPRF where
  outputLength : Int
  keyLength : Int
  messageLength : Int
  hashLen : Nat
  deriving Repr

def HmacPRF.new (outputLength keyLength messageLength : Int) (hashLen : Nat) : HmacPRF :=
  { outputLength := if outputLength == LENGTH_NOT_GIVEN then hashLen else outputLength,
    keyLength, messageLength, hashLen }

/-- `HmacPRF.__call__` -/
def HmacPRF.call (p : HmacPRF) (hmac : Hmac) (key msg : Bytes) : Except Err Bytes :=
  if p.keyLength != LENGTH_UNLIMITED && (key.length : Int) != p.keyLength then .error .valueError
  else if p.messageLength != LENGTH_UNLIMITED && (msg.length : Int) != p.messageLength then .error .valueError
  else .ok (tlsPHash hmac p.hashLen key msg p.outputLength)

/-! ### hash wrapper -/

/-- `_ctr_expand`: `c = 1; while len(result) < output_length: result += H(message + int_to_bytes(c)); c += 1`.
    Fuel bounds the loop; exhaustion is `diverges` (only possible for a zero-length digest). -/
def ctrLoop (hash : Bytes → Bytes) (msg : Bytes) (outLen : Nat) : Nat → Nat → Bytes → Except Err Bytes
  | 0, _, _ => .error .diverges
  | fuel + 1, c, result =>
    if result.length < outLen then
      ctrLoop hash msg outLen fuel (c + 1) (result ++ hash (msg ++ natToBytesMin c))
    else .ok (result.take outLen)

def ctrExpand (hash : Bytes → Bytes) (msg : Bytes) (outputLen : Int) : Except Err Bytes :=
  if outputLen ≤ 0 then .ok [] else ctrLoop hash msg outputLen.toNat (outputLen.toNat + 1) 1 []

/-- the wrapper's `__call__`: XOF algorithms delegate to the leaf `digest(n)`, the others expand in
    counter mode. (`digest(n)` with negative n raises ValueError in hashlib.) -/
def hashWrapperCall (isXof : Bool) (hash : Bytes → Bytes) (xof : Bytes → Nat → Bytes)
    (msg : Bytes) (outputLen : Int) : Except Err Bytes :=
  if isXof then (if outputLen < 0 then .error .valueError else .ok (xof msg outputLen.toNat))
  else ctrExpand hash msg outputLen

/-- `HashlibHashVariableOutputLengthWrapper.__init__`: `LENGTH_NOT_GIVEN` selects the digest size
    (which is 0 for the shake XOFs) -/
def hashWrapperNew (outputLength : Int) (digestSize : Nat) : Int :=
  if outputLength == LENGTH_NOT_GIVEN then digestSize else outputLength

end SSEPy
