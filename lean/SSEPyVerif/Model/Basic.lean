/-
  Shared conventions of the executable model (DESIGN.md section 3).
  Core Lean only: no Mathlib import anywhere under Model/, so that the driver links as an executable.
-/
namespace SSEPy

/-- Python `bytes`. -/
abbrev Bytes := List UInt8

/-- The exception classes the model distinguishes.  `diverges` is the fuel-exhaustion outcome of a
    modelled `while True` loop, `miss` marks a recorded-oracle table miss in the driver. -/
inductive Err where
  | valueError | typeError | indexError | keyError | overflowError | zeroDivision
  | fileExists | fileNotFound | closed | attributeError | stopIteration
  | diverges | miss | other
  deriving DecidableEq, Repr, Inhabited

def Err.name : Err → String
  | .valueError => "ValueError" | .typeError => "TypeError" | .indexError => "IndexError"
  | .keyError => "KeyError" | .overflowError => "OverflowError" | .zeroDivision => "ZeroDivisionError"
  | .fileExists => "FileExistsError" | .fileNotFound => "FileNotFoundError" | .closed => "Closed"
  | .attributeError => "AttributeError" | .stopIteration => "StopIteration"
  | .diverges => "DIVERGES" | .miss => "MISS" | .other => "Other"

instance [DecidableEq ε] [DecidableEq α] : DecidableEq (Except ε α)
  | .ok a, .ok b => if h : a = b then isTrue (by rw [h]) else isFalse (by intro h'; cases h'; exact h rfl)
  | .error a, .error b => if h : a = b then isTrue (by rw [h]) else isFalse (by intro h'; cases h'; exact h rfl)
  | .ok _, .error _ => isFalse (by intro h; cases h)
  | .error _, .ok _ => isFalse (by intro h; cases h)

/-- `n` zero bytes: Python `b'\x00' * n` (a negative multiplier is modelled by the caller as 0). -/
def zeros (n : Nat) : Bytes := List.replicate n 0

/-- Python `x == b'\x00' * len(x)`. -/
def allZero (b : Bytes) : Bool := b.all (· == 0)

/-- `math.ceil(a / b)` for naturals with `b > 0`. -/
def ceilDiv (a b : Nat) : Nat := (a + b - 1) / b

/-- `math.ceil(math.log2 n)` for `n ≥ 1` (exact for the sizes in scope: n < 2^48, DESIGN 3). -/
def clog2 (n : Nat) : Nat := if n ≤ 1 then 0 else Nat.log2 (n - 1) + 1

/-- `int(math.log2 n)` = floor log2 for `n ≥ 1`. -/
def flog2 (n : Nat) : Nat := Nat.log2 n

/-- `int.bit_length()`. -/
def bitLength (n : Nat) : Nat := if n = 0 then 0 else Nat.log2 n + 1

end SSEPy
