/-
  toolkit/bits.py (`Bitset`) and toolkit/bits_utils.py — the code's `(value, length)` pair and each
  operator as written.  Values are non-negative Python ints (`Nat`).
-/
import SSEPyVerif.Model.Basic
import SSEPyVerif.Model.Bytes
import SSEPyVerif.Model.PySeq
namespace SSEPy

structure Bitset where
  value : Nat
  length : Nat
  deriving DecidableEq, Repr, Inhabited

namespace Bitset

/-- the length chosen by `Bitset(value)` when no length is given: `floor(log2 value) + 1`, and 0
    when the logarithm raises (value = 0). -/
def autoLen (v : Nat) : Nat := bitLength v

/-- `Bitset(value, length=0)`. `length == 0` means "not given". -/
def mk' (v : Nat) (len : Nat := 0) : Except Err Bitset :=
  if len ≠ 0 ∧ bitLength v > len then .error .valueError
  else .ok ⟨v, if len ≠ 0 then len else autoLen v⟩

/-- `Bitset(b: bytes, length)`. -/
def ofBytes (b : Bytes) (len : Nat := 0) : Except Err Bitset := mk' (fromBE b) len

def and (a b : Bitset) : Bitset := ⟨a.value &&& b.value, max a.length b.length⟩
def or (a b : Bitset) : Bitset := ⟨a.value ||| b.value, max a.length b.length⟩
def xor (a b : Bitset) : Bitset := ⟨a.value ^^^ b.value, max a.length b.length⟩
/-- `(~v) & ((1 << len) - 1)` -/
def invert (a : Bitset) : Bitset := ⟨2 ^ a.length - 1 - a.value % 2 ^ a.length, a.length⟩
/-- `(v << k) & ((1 << len) - 1)`, length kept -/
def shl (a : Bitset) (k : Nat) : Bitset := ⟨(a.value * 2 ^ k) % 2 ^ a.length, a.length⟩
/-- `v >> k`, length kept -/
def shr (a : Bitset) (k : Nat) : Bitset := ⟨a.value / 2 ^ k, a.length⟩

def toInt (a : Bitset) : Nat := a.value

/-- `bytes(b)`: `value.to_bytes((length+7)//8, 'big')`. -/
def toBytes (a : Bitset) : Except Err Bytes :=
  let w := (a.length + 7) / 8
  if a.value ≥ 256 ^ w then .error .overflowError else .ok (toBE w a.value)

/-- the bit at sequence position `i` (0 = MSB): `bool(value & (1 << (len - i - 1)))`. -/
def bitAt (a : Bitset) (i : Nat) : Bool := a.value.testBit (a.length - i - 1)

/-- `b[i]` for an int index.  `pos = len - i - 1`; a negative `pos` raises `ValueError`
    (negative shift count); a negative `i` reads above the length. -/
def getIdx (a : Bitset) (i : Int) : Except Err Bool :=
  let pos : Int := (a.length : Int) - i - 1
  if pos < 0 then .error .valueError else .ok (a.value.testBit pos.toNat)

/-- `b[start:stop:step]`.  If `slice.indices` raises (zero step) the method's bare `except:` falls
    back to `len(self) - s - 1`, which raises `TypeError`. -/
def getSlice (a : Bitset) (start stop step : Option Int) : Except Err (List Bool) :=
  match sliceRange start stop step a.length with
  | .error _ => .error .typeError
  | .ok idx => .ok (idx.map fun p => a.value.testBit ((a.length : Int) - p - 1).toNat)

/-- `b[:]`, also `list(iter(b))`. -/
def toBits (a : Bitset) : List Bool := (List.range a.length).map a.bitAt

def toStr (a : Bitset) : List Char := a.toBits.map fun b => if b then '1' else '0'

/-- `a.concat(b)` / `a + b`. -/
def concat (a b : Bitset) : Except Err Bitset :=
  mk' (a.value * 2 ^ b.length + b.value) (a.length + b.length)

def getHigherBits (a : Bitset) (k : Int) : Except Err Bitset :=
  if k < 0 then .error .valueError
  else if k > a.length then .error .valueError
  else mk' (a.shr (a.length - k.toNat)).value k.toNat

def getLowerBits (a : Bitset) (k : Int) : Except Err Bitset :=
  if k < 0 then .error .valueError
  else if k > a.length then .error .valueError
  else mk' ((a.shl (a.length - k.toNat)).shr (a.length - k.toNat)).value k.toNat

/-- `Bitset.from_sequence(seq)`: the value of the MSB-first bit list, *auto* length. -/
def fromSequence (s : List Bool) : Except Err Bitset :=
  mk' (s.foldl (fun acc b => 2 * acc + (if b then 1 else 0)) 0)

/-- `__eq__` between two Bitsets. -/
def beq (a b : Bitset) : Bool := a.value == b.value && a.length == b.length

/-- bits_utils.half_bits_not_padding -/
def halfNotPadding (x : Bitset) : Except Err (Bitset × Bitset) := do
  let halfLen := (x.length + 1) / 2
  let right ← x.getLowerBits halfLen
  let left ← x.getHigherBits (x.length - halfLen : Nat)
  .ok (left, right)

/-- bits_utils.half_bits (left half padded to the right half's length) -/
def half (x : Bitset) : Except Err (Bitset × Bitset) := do
  let halfLen := (x.length + 1) / 2
  let (left, right) ← x.halfNotPadding
  let left := if left.length < halfLen then { left with length := halfLen } else left
  .ok (left, right)

/-- well-formedness: the value fits the length. -/
def WF (b : Bitset) : Prop := b.value < 2 ^ b.length

instance (b : Bitset) : Decidable b.WF := by unfold WF; infer_instance

end Bitset
end SSEPy
