/-
  schemes/CJJ14/Pi2Lev (config.py, construction.py): small lists go into the dictionary block itself, medium lists
  into array blocks pointed to from the dictionary block, large lists through two levels of pointers.
  The first plaintext byte of every block is the level mark (00 = identifiers, 01 = pointers).
-/
import SSEPyVerif.Model.Schemes.PiPtr
namespace SSEPy.Sch

structure Pi2LevCfg where
  lambda : Int
  B : Int
  b : Int
  Bp : Int
  bp : Int
  idSize : Int
  idxSize : Int            -- param_index_size_of_A
  prfF : HmacPRF
  ske : AESxCBC

def Pi2Lev.cfgBuild (raw : RawCfg) : Except Err Pi2LevCfg := do
  checkParamPositive raw
  checkParamExist ["param_lambda", "param_B", "param_b", "param_B_prime", "param_b_prime", "prf_f_output_length",
                   "param_identifier_size", "prf_f", "ske"] raw
  let lam ← getInt raw "param_lambda"
  let B ← getInt raw "param_B"
  let b ← getInt raw "param_b"
  let Bp ← getInt raw "param_B_prime"
  let bp ← getInt raw "param_b_prime"
  let out ← getInt raw "prf_f_output_length"
  let ids ← getInt raw "param_identifier_size"
  if Bp = 0 ∨ bp = 0 then throw .zeroDivision
  let idx := Int.fdiv (B * ids) Bp
  if Int.fdiv (b * ids) bp ≠ idx then throw .valueError
  if !isHmacPrfName (getName raw "prf_f") then throw .valueError
  if !isAesCbcName (getName raw "ske") then throw .valueError
  let ske ← AESxCBC.new lam
  pure { lambda := lam, B := B, b := b, Bp := Bp, bp := bp, idSize := ids, idxSize := idx,
         prfF := HmacPRF.new out lam LENGTH_UNLIMITED 20, ske := ske }

namespace Pi2Lev
variable (cfg : Pi2LevCfg) (lv : Leaves)

def keyGen (t : Tape) : Except Err (Bytes × Tape) :=
  if cfg.lambda < 0 then .error .valueError else takeBytes cfg.lambda.toNat t

def token (K w : Bytes) : Except Err (Bytes × Bytes) := do
  let K1 ← cfg.prfF.call lv.hmac K (1 :: w)
  let K2 ← cfg.prfF.call lv.hmac K (2 :: w)
  pure (K1, K2)

def arrayLen (db : DB) : Nat :=
  1 + (db.map fun p =>
    let n : Nat := p.2.length
    (if (n : Int) > cfg.b then ceilDiv n cfg.B.toNat else 0) +
    (if (n : Int) > cfg.bp * cfg.B then ceilDiv n (cfg.B * cfg.Bp).toNat else 0)).sum

/-- encrypt `mark ‖ block` for every block into freshly popped array slots; returns the pointers -/
def placeBlocks (K2 : Bytes) (mark : UInt8) :
    List Bytes → List Nat → List (Option Bytes) → Tape → Except Err (List Bytes × List Nat × List (Option Bytes) × Tape)
  | [], avail, A, t => .ok ([], avail, A, t)
  | blk :: rest, avail, A, t =>
    match avail.getLast? with
    | none => .error .indexError
    | some pos => do
      let ptr ← intToBytes pos cfg.idxSize
      let (d, t1) ← skeEncrypt cfg.ske lv K2 (mark :: blk) t
      if pos ≥ A.length then throw .indexError
      let (ptrs, avail', A', t2) ← placeBlocks K2 mark rest avail.dropLast (A.set pos (some d)) t1
      pure (ptr :: ptrs, avail', A', t2)

/-- the dictionary entry of a keyword: `(F(K1, 00), Enc(K2, mark ‖ content ‖ zero padding up to b·idsize))` -/
def dictEntry (K1 K2 : Bytes) (mark : UInt8) (content : Bytes) (t : Tape) : Except Err ((Bytes × Bytes) × Tape) := do
  let blockSize := (cfg.b * cfg.idSize).toNat
  let padded := content ++ zeros (blockSize - content.length)
  let l ← cfg.prfF.call lv.hmac K1 [0]
  let (d, t1) ← skeEncrypt cfg.ske lv K2 (mark :: padded) t
  pure ((l, d), t1)

/-- the body of the keyword loop of `_Enc`: small / medium / large -/
def storeKeyword (K1 K2 : Bytes) (ids : List Bytes) (avail : List Nat) (A : List (Option Bytes)) (t : Tape) :
    Except Err ((Bytes × Bytes) × List Nat × List (Option Bytes) × Tape) :=
  let n : Int := ids.length
  let arrayBlock := cfg.B * cfg.idSize
  if n ≤ cfg.b then do
    let (e, t1) ← dictEntry cfg lv K1 K2 0 ids.flatten t
    pure (e, avail, A, t1)
  else if n ≤ cfg.B * cfg.bp then do
    let blocks ← partitionBlocks ids cfg.B cfg.idSize arrayBlock
    let (ptrs, avail1, A1, t1) ← placeBlocks cfg lv K2 0 blocks avail A t
    let (e, t2) ← dictEntry cfg lv K1 K2 1 ptrs.flatten t1
    pure (e, avail1, A1, t2)
  else if n < (cfg.B * cfg.Bp) * cfg.bp then do
    let blocks ← partitionBlocks ids cfg.B cfg.idSize arrayBlock
    let (ptrs, avail1, A1, t1) ← placeBlocks cfg lv K2 0 blocks avail A t
    let pblocks ← partitionBlocks ptrs cfg.Bp cfg.idxSize arrayBlock
    let (ptrs2, avail2, A2, t2) ← placeBlocks cfg lv K2 1 pblocks avail1 A1 t1
    let (e, t3) ← dictEntry cfg lv K1 K2 1 ptrs2.flatten t2
    pure (e, avail2, A2, t3)
  else throw .valueError

def encDb (K : Bytes) : DB → List Nat → List (Option Bytes) → Tape →
    Except Err (List (Bytes × Bytes) × List (Option Bytes) × Tape)
  | [], _, A, t => .ok ([], A, t)
  | (w, ids) :: rest, avail, A, t => do
    let (K1, K2) ← token cfg lv K w
    let (entry, avail1, A1, t1) ← storeKeyword cfg lv K1 K2 ids avail A t
    let (qs, A2, t2) ← encDb K rest avail1 A1 t1
    pure (entry :: qs, A2, t2)

def setup (K : Bytes) (db : DB) (t : Tape) : Except Err (PiPtrEDB × Tape) := do
  let alen := arrayLen cfg db
  if cfg.idxSize < 0 then throw .valueError                -- 2 ** negative is a float < 1 ≤ A_len … the comparison refuses
  if alen > 2 ^ (cfg.idxSize * 8).toNat then throw .valueError
  let (avail, t0) ← takeNats t
  if avail.length ≠ alen - 1 then throw .miss
  let (L, A, t1) ← encDb cfg lv K db avail (List.replicate alen none) t0
  pure ({ D := buildTable L, A := A }, t1)

def decAllOpt (K2 : Bytes) : List (Option Bytes) → Except Err (List Bytes)
  | [] => .ok []
  | none :: _ => .error .typeError
  | some c :: rest => do
    let p ← cfg.ske.decrypt lv.D K2 c
    let ps ← decAllOpt K2 rest
    pure (p :: ps)

def parseAll (count : Int) : List Bytes → Except Err (List Bytes)
  | [] => .ok []
  | p :: rest => do
    let xs ← parseByCount (p.drop 1) count
    let more ← parseAll count rest
    pure (xs ++ more)

/-- `D[addr]` at the top level, `A[int(addr)]` below it -/
def readCells (edb : PiPtrEDB) (level : Nat) (prev : List Bytes) : Except Err (List (Option Bytes)) :=
  if level = 0 then
    mapE (fun a => match edb.D.get a with | some c => Except.ok (some c) | none => Except.error Err.keyError) prev
  else
    mapE (fun a => match edb.A[intFromBytes a]? with | some c => Except.ok c | none => Except.error Err.indexError) prev

/-- the level loop of `_Search`; `prev` = the addresses to read at this level -/
def levelLoop (edb : PiPtrEDB) (K2 : Bytes) : Nat → Nat → List Bytes → Except Err (List Bytes)
  | 0, _, _ => .error .diverges
  | fuel + 1, level, prev => do
    let ciphers ← readCells edb level prev
    let pts ← decAllOpt cfg lv K2 ciphers
    let mark ← match pts.head? with
      | some p => pure (p.take 1)
      | none => throw .indexError
    let isFile := mark == [0]
    if level > 2 then throw .indexError
    let count := if level = 0 then (if mark == [1] then cfg.bp else cfg.b) else (if mark == [1] then cfg.Bp else cfg.B)
    let cur ← parseAll count pts
    if isFile then pure cur else levelLoop edb K2 fuel (level + 1) cur

def search (edb : PiPtrEDB) (tk : Bytes × Bytes) : Except Err (List Bytes) := do
  let l0 ← cfg.prfF.call lv.hmac tk.1 [0]
  if (edb.D.get l0).isNone then pure [] else levelLoop cfg lv edb tk.2 4 0 [l0]

/-! the hypotheses of the Pi2Lev theorems as a computation on this run -/

def hypsB (K : Bytes) (db : DB) (t : Tape) (absent : List Bytes) : Bool :=
  decide (0 < cfg.idxSize) &&
  match takeNats t with
  | .error _ => false
  | .ok (avail, t0) =>
    Chain.nodupB (avail.map natToBytesMin) && avail.all (· > 0) &&
    -- `setup_never_raises`: a sample of range(1, |A|), an addressable array, lists within the two-level limit
    avail.all (· < arrayLen cfg db) && decide (arrayLen cfg db ≤ 2 ^ (cfg.idxSize * 8).toNat) &&
    db.all (fun p => decide ((p.2.length : Int) < (cfg.B * cfg.Bp) * cfg.bp)) &&
    db.all (fun p => p.2.all fun x => x.length == cfg.idSize.toNat) &&   -- C05 (`Pi2Lev.shape`): identifiers of the configured size
    match encDb cfg lv K db avail (List.replicate (arrayLen cfg db) none) t0 with
    | .error _ => false
    | .ok (L, _, _) =>
      let labels := L.map (·.1)
      Chain.nodupB labels &&
      absent.all (fun w => match token cfg lv K w with
        | .ok (K1, _) => (match cfg.prfF.call lv.hmac K1 [0] with
           | .ok l => !labels.contains l | .error _ => false)
        | .error _ => false)

end Pi2Lev
end SSEPy.Sch
