/-
  schemes/CGKO06/SSE1 (config.py, construction.py): per keyword a linked list of nodes `id ‖ next key ‖ next address`,
  node `ctr` stored at `A[ψ_K1(ctr)]` encrypted under the previous node's key; the look-up table maps `π_K3(w)` to
  `(first address ‖ first key) ⊕ f_K2(w)`.  Search walks the list until the all-zero terminator.
-/
import SSEPyVerif.Model.Schemes.SSE2
namespace SSEPy.Sch

structure SSE1Cfg where
  k : Int
  l : Int
  s : Int
  dictSize : Int
  idSize : Int
  log2s : Nat
  log2sBytes : Nat
  prfF : HmacPRF
  ske1 : AESxCBC
  deriving Repr

def SSE1.cfgBuild (raw : RawCfg) : Except Err SSE1Cfg := do
  checkParamPositive raw
  checkParamExist ["param_k", "param_l", "param_s", "param_dictionary_size", "param_identifier_size",
                   "prp_pi", "prp_psi", "prf_f", "ske1", "ske2"] raw
  let k ← getInt raw "param_k"
  let l ← getInt raw "param_l"
  let s ← getInt raw "param_s"
  let ids ← getInt raw "param_identifier_size"
  let ds ← getInt raw "param_dictionary_size"
  if s ≤ 0 then throw .valueError
  let log2s := clog2 s.toNat
  let lb := ceilDiv log2s 8
  checkBitPrp (getName raw "prp_pi")
  checkBitPrp (getName raw "prp_psi")
  if !isHmacPrfName (getName raw "prf_f") then throw .valueError
  if !isAesCbcName (getName raw "ske1") then throw .valueError
  let ske1 ← AESxCBC.new k
  if !isAesCbcName (getName raw "ske2") then throw .valueError
  pure { k := k, l := l, s := s, dictSize := ds, idSize := ids, log2s := log2s, log2sBytes := lb,
         prfF := HmacPRF.new (k + lb) k l 20, ske1 := ske1 }

structure SSE1EDB where
  A : List Bytes
  T : Table
  deriving Repr

namespace SSE1
variable (cfg : SSE1Cfg) (lv : Leaves)

def keyGen (t : Tape) : Except Err (List Bytes × Tape) :=
  if cfg.k < 0 then .error .valueError else takeBytesN cfg.k.toNat 4 t

/-- `prp_psi(Bitset(K1, k_bits), Bitset(ctr, log2_s))` -/
def psi (K1 : Bytes) (ctr : Nat) : Except Err Bitset := do
  let key ← Bitset.ofBytes K1 (cfg.k * 8).toNat
  let m ← Bitset.mk' ctr cfg.log2s
  bitwiseFpePrp lv.hmac 20 cfg.log2s (cfg.k * 8) key m

/-- `prp_pi(Bitset(K3, k_bits), Bitset(keyword, l_bits))` as bytes -/
def piBytes (K3 w : Bytes) : Except Err Bytes := do
  let key ← Bitset.ofBytes K3 (cfg.k * 8).toNat
  let m ← Bitset.ofBytes w (cfg.l * 8).toNat
  let out ← bitwiseFpePrp lv.hmac 20 (cfg.l * 8) (cfg.k * 8) key m
  out.toBytes

def setCell (A : List Bytes) (i : Nat) (v : Bytes) : Except Err (List Bytes) :=
  if i < A.length then .ok (A.set i v) else .error .indexError

/-- the non-final nodes of one list: `prevKey` encrypts the node being written -/
def innerNodes (K1 : Bytes) : List Bytes → Bytes → Nat → Option Bitset → List Bytes → Tape →
    Except Err (Bytes × Nat × Option Bitset × List Bytes × Tape)
  | [], prevKey, ctr, first, A, t => .ok (prevKey, ctr, first, A, t)
  | [_], prevKey, ctr, first, A, t => .ok (prevKey, ctr, first, A, t)          -- the last node is handled by the caller
  | id :: rest, prevKey, ctr, first, A, t => do
    let (kj, t1) ← takeBytes cfg.k.toNat t                                    -- ske1.KeyGen()
    let nxt ← psi cfg lv K1 (ctr + 1)
    let node := id ++ kj ++ (← nxt.toBytes)
    let addr ← psi cfg lv K1 ctr
    let (c, t2) ← skeEncrypt cfg.ske1 lv prevKey node t1
    let A' ← setCell A addr.value c
    innerNodes K1 rest kj (ctr + 1) (first.or (some addr)) A' t2

def encDb (K1 K2 K3 : Bytes) : DB → Nat → List Bytes → Table → Tape → Except Err (List Bytes × Table × Tape)
  | [], _, A, T, t => .ok (A, T, t)
  | (w, ids) :: rest, ctr, A, T, t => do
    let (k0, t1) ← takeBytes cfg.k.toNat t
    let (lastKey, ctr1, first, A1, t2) ← innerNodes cfg lv K1 ids k0 ctr none A t1
    let lastId ← (match ids.getLast? with | some x => Except.ok x | none => Except.error Err.indexError)
    let lastNode := lastId ++ zeros cfg.k.toNat ++ zeros cfg.log2sBytes
    let lastAddr ← psi cfg lv K1 ctr1
    let (c, t3) ← skeEncrypt cfg.ske1 lv lastKey lastNode t2
    let A2 ← setCell A1 lastAddr.value c
    let firstAddr := first.getD lastAddr
    let gamma ← piBytes cfg lv K3 w
    let eta ← cfg.prfF.call lv.hmac K2 (addLeadingZeros w cfg.l)
    let fb ← firstAddr.toBytes
    let theta ← bytesXor (fb ++ k0) eta                  -- IndexError when the mask is longer
    encDb K1 K2 K3 rest (ctr1 + 1) A2 (tinsert T gamma theta) t3

def fillA (size : Nat) : List Bytes → Tape → Except Err (List Bytes × Tape)
  | [], t => .ok ([], t)
  | c :: rest, t =>
    if c = [0] then do
      let (r, t1) ← takeBytes size t
      let (more, t2) ← fillA size rest t1
      pure (r :: more, t2)
    else do
      let (more, t2) ← fillA size rest t
      pure (c :: more, t2)

/-- `T[os.urandom(l)] = os.urandom(out)`: the value is drawn first -/
def fillT (l out : Nat) : Nat → Table → Tape → Except Err (Table × Tape)
  | 0, T, t => .ok (T, t)
  | n + 1, T, t => do
    let (v, t1) ← takeBytes out t
    let (k, t2) ← takeBytes l t1
    fillT l out n (tinsert T k v) t2

def setup (key : List Bytes) (db : DB) (t : Tape) : Except Err (SSE1EDB × Tape) :=
  match key with
  | [K1, K2, K3, _] => do
    let (A, T, t1) ← encDb cfg lv K1 K2 K3 db 1 (List.replicate cfg.s.toNat [0]) [] t
    let (probe, t2) ← skeEncrypt cfg.ske1 lv (zeros cfg.k.toNat) (zeros (cfg.idSize + cfg.k + cfg.log2sBytes).toNat) t1
    let (A', t3) ← fillA probe.length A t2
    let (T', t4) ← fillT cfg.l.toNat cfg.prfF.outputLength.toNat (cfg.dictSize.toNat - T.length) T t3
    pure ({ A := A', T := T' }, t4)
  | _ => .error .typeError

def token (key : List Bytes) (w : Bytes) : Except Err (Bytes × Bytes) :=
  match key with
  | [_, K2, K3, _] => do
    let gamma ← piBytes cfg lv K3 w
    let eta ← cfg.prfF.call lv.hmac K2 (addLeadingZeros w cfg.l)
    pure (gamma, eta)
  | _ => .error .typeError

def walk (A : List Bytes) : Nat → Bytes → Bytes → List Bytes → Except Err (List Bytes)
  | 0, _, _, _ => .error .diverges
  | fuel + 1, addr, key, acc => do
    let c ← match A[intFromBytes addr]? with
      | some c => pure c
      | none => throw .indexError
    let node ← cfg.ske1.decrypt lv.D key c
    match ← splitBytes node [cfg.idSize.toNat, cfg.k.toNat, cfg.log2sBytes] with
    | [id, nk, na] =>
      if allZero nk && allZero na then pure (acc ++ [id]) else walk A fuel na nk (acc ++ [id])
    | _ => throw .valueError

def search (edb : SSE1EDB) (tk : Bytes × Bytes) : Except Err (List Bytes) :=
  match edb.T.get tk.1 with
  | none => .ok []
  | some theta => do
    let x ← bytesXor theta tk.2
    match ← splitBytes x [cfg.log2sBytes, cfg.k.toNat] with
    | [addr, key] => walk cfg lv edb.A (edb.A.length + 1) addr key []
    | _ => throw .valueError

/-! the hypotheses of the SSE-1 theorems as a computation on this run -/

def nodupBy : List Bytes → Bool
  | [] => true
  | a :: as => !as.contains a && nodupBy as

def hypsB (key : List Bytes) (db : DB) (t : Tape) (absent : List Bytes) : Bool :=
  match key with
  | [_, _, K3, _] =>
    let tapeBytes := t.filterMap fun d => match d with | .bytes b => some b | _ => none
    let labels := db.map fun p => piBytes cfg lv K3 p.1
    decide (2 ≤ cfg.log2s) &&
    -- `SSE1.setup_never_raises`: the array size is a power of two, keys of `param_k` bytes, keywords of at most `param_l`
    -- bytes, no empty list, fewer than `param_s` postings
    decide (cfg.s.toNat = 2 ^ cfg.log2s) && key.all (fun k => k.length == cfg.k.toNat) &&
    db.all (fun p => decide (p.1.length ≤ cfg.l.toNat) && !p.2.isEmpty) && decide (db.total < cfg.s.toNat) &&
    -- C05 (`SSE1.shape`): no random filler label of the table repeats a label
    nodupBy (drawsLen cfg.l.toNat t) && decide (db.length ≤ cfg.dictSize.toNat) &&
    labels.all (fun l => match l with | .ok g => !(drawsLen cfg.l.toNat t).contains g | .error _ => false) &&
    tapeBytes.all (fun b => !(b.length == cfg.k.toNat && allZero b)) &&
    labels.all (fun l => match l with | .ok g => !tapeBytes.contains g | .error _ => false) &&
    nodupBy (labels.map fun l => match l with | .ok g => g | .error _ => []) &&
    db.all (fun p => p.2.length ≤ cfg.s.toNat && p.2.all (fun x => x.length == cfg.idSize.toNat)) &&
    (match setup cfg lv key db t with
     | .ok (e, _) => absent.all (fun w => match piBytes cfg lv K3 w with
        | .ok g => (e.T.get g).isNone | .error _ => false)
     | .error _ => false)
  | _ => false

end SSE1
end SSEPy.Sch
