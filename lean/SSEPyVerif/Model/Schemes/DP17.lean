/-
  schemes/DP17/Pi (config.py, construction.py): tunable locality.  Lists are cut into chunks of 2^i (i = the level
  adjacent to the list length), every chunk goes to a randomly chosen bucket of level i that still has room; a hash
  table maps H(F_k1(w) ‖ count) to (level ‖ bucket) ⊕ H(F_k2(w) ‖ count); buckets are shuffled, padded and encrypted
  entry by entry under F_k3(w); search decrypts whole buckets and keeps what decrypts to `id ‖ 0^λ`.
-/
import SSEPyVerif.Model.Schemes.Common
namespace SSEPy.Sch

/-- digest sizes of the hashlib algorithms the wrapper can expand in counter mode -/
def digestSize (name : String) : Option Nat :=
  match name.toLower with
  | "sha1" => some 20 | "sha256" => some 32 | "sha224" => some 28 | "sha384" => some 48 | "sha512" => some 64
  | "md5" => some 16 | _ => none

/-- `math.ceil(l * ratio)` in IEEE double arithmetic (ratio = num/den exactly, as `float.as_integer_ratio`) -/
def ceilMulFloat (l : Nat) (num den : Int) : Int :=
  let r : Float := Float.ofInt num / Float.ofInt den
  let x := (Float.ofNat l * r).ceil
  if x < 0 then -((-x).toUInt64.toNat : Int) else (x.toUInt64.toNat : Int)

structure DP17Cfg where
  lambda : Int
  ratioNum : Int
  ratioDen : Int
  L : Int
  idSize : Int
  rnd : AESxCBC
  prfF : HmacPRF
  dsz : Nat                  -- digest size of hash_h
  cipherLen : Nat            -- param_identifier_cipher_len

def DP17.cfgBuild (raw : RawCfg) : Except Err DP17Cfg := do
  checkParamPositive raw
  checkParamExist ["param_lambda", "param_actual_storage_level_ratio", "param_L", "param_identifier_size", "rnd", "prf_f", "hash_h"] raw
  let lam ← getInt raw "param_lambda"
  let (rn, rd) ← match raw.get "param_actual_storage_level_ratio" with
    | some (.float n d) => pure (n, d)
    | some (.int z) => pure (z, 1)
    | _ => throw .typeError
  let L ← getInt raw "param_L"
  let ids ← getInt raw "param_identifier_size"
  if !isAesCbcName (getName raw "rnd") then throw .valueError
  let rnd ← AESxCBC.new lam
  if !isHmacPrfName (getName raw "prf_f") then throw .valueError
  let dsz ← match digestSize (getName raw "hash_h") with
    | some d => pure d
    | none => throw .valueError
  -- `len(rnd.Encrypt(zeros(λ), zeros(idsize + λ)))` = 16 + 16·(len // 16 + 1)   (C14.enc_len)
  pure { lambda := lam, ratioNum := rn, ratioDen := rd, L := L, idSize := ids, rnd := rnd,
         prfF := HmacPRF.new lam lam LENGTH_UNLIMITED 20, dsz := dsz,
         cipherLen := 16 + 16 * ((ids + lam).toNat / 16 + 1) }

abbrev Entry := Option (Bytes × Bytes)            -- (keyword, identifier) or a padding slot

structure Level where
  lev : Int
  remaining : List Nat
  buckets : List (List Entry)
  deriving Repr

structure DP17EDB where
  HT : Table
  A : List (Int × List Bytes)                     -- A_dict in insertion order
  deriving Repr

namespace DP17
variable (cfg : DP17Cfg) (lv : Leaves)

/-- `hash_h(m)`: one counter-mode block `H(m ‖ 01)` truncated to the digest size -/
def hashH (m : Bytes) : Except Err Bytes := ctrExpand lv.sha m cfg.dsz

def keyGen (t : Tape) : Except Err (List Bytes × Tape) :=
  if cfg.lambda < 0 then .error .valueError else takeBytesN cfg.lambda.toNat 3 t

/-- `L * 2 ** lev >= n` (a negative level makes the left side a fraction) -/
def fits (lev : Int) (n : Nat) : Bool :=
  if lev ≥ 0 then cfg.L * (2 ^ lev.toNat : Nat) ≥ n else cfg.L ≥ (n : Int) * (2 ^ (-lev).toNat : Nat)

/-- `_find_adjacent_i`: the binary search as written (`while lo <= hi`) -/
def findLoop (levels : List Int) (n : Nat) : Nat → Int → Int → Except Err Int
  | 0, _, _ => .error .diverges
  | fuel + 1, lo, hi =>
    if lo ≤ hi then
      let mid := (lo + hi) / 2
      match levels[mid.toNat]? with
      | none => .error .indexError
      | some lev => if fits cfg lev n then findLoop levels n fuel lo (mid - 1) else findLoop levels n fuel (mid + 1) hi
    else
      match (if lo < 0 then none else levels[lo.toNat]?) with
      | some lev => .ok lev
      | none => .error .indexError

def findAdjacent (levels : List Int) (n : Nat) : Except Err Int :=
  findLoop cfg levels n (levels.length + 2) 0 levels.length

/-- `_divide_to_buckets(2N + 2^(i+1), 2^(i+1))` -/
def divideToBuckets (size bs : Nat) : List Nat × List (List Entry) :=
  let starts := (List.range (ceilDiv size bs)).map (· * bs)
  (starts.map fun b => min bs (size - b), starts.map fun _ => [])

def levelsOf (N : Nat) : Except Err (List Int) := do
  let l := clog2 N
  let s := max 1 (ceilMulFloat l cfg.ratioNum cfg.ratioDen)
  let p : Int := ceilDiv l s.toNat
  let base := (List.range s.toNat).map fun (i : Nat) => (l : Int) - (i : Int) * p
  let lvls := if cfg.L > 1 then base ++ [0] else base
  pure lvls.reverse

def getLevel (ls : List Level) (i : Int) : Option Level := ls.find? (·.lev == i)
def setLevel (ls : List Level) (lvl : Level) : List Level := ls.map fun x => if x.lev == lvl.lev then lvl else x

/-- `maps[i]` (KeyError when the level does not exist) -/
def getLevelE (ls : List Level) (i : Int) : Except Err Level :=
  match getLevel ls i with
  | some l => .ok l
  | none => .error .keyError

/-- `for i in levels: maps[i] = _divide_to_buckets(...)` (a repeated level is simply assigned again) -/
def initLevels (N : Nat) : List Int → List Level → Except Err (List Level)
  | [], acc => .ok acc
  | i :: rest, acc =>
    if i + 1 < 0 then .error .typeError                  -- 2 ** (negative) is a float: range() refuses it
    else
      let bs := 2 ^ (i + 1).toNat
      let (rem, bk) := divideToBuckets (2 * N + bs) bs
      let lvl : Level := { lev := i, remaining := rem, buckets := bk }
      initLevels N rest (if (getLevel acc i).isSome then setLevel acc lvl else acc ++ [lvl])

def addTo (l : List (List Entry)) (x : Nat) (es : List Entry) : List (List Entry) :=
  l.mapIdx fun j b => if j = x then b ++ es else b

/-- `H(F_k1(w) ‖ count)`: the hash-table key of chunk `count` of keyword `w` -/
def htKey (k1 w : Bytes) (count : Nat) : Except Err Bytes := do
  let tag ← cfg.prfF.call lv.hmac k1 w
  hashH cfg lv (tag ++ natToBytesMin count)

/-- `[i ‖ x] ⊕ H(F_k2(w) ‖ count)` -/
def htVal (k2 w : Bytes) (count i x : Nat) : Except Err Bytes := do
  let half := cfg.dsz / 2
  let ib ← intToBytesNat i half
  let xb ← intToBytesNat x (cfg.dsz - half)
  let vtag ← cfg.prfF.call lv.hmac k2 w
  let mask ← hashH cfg lv (vtag ++ natToBytesMin count)
  bytesXor (ib ++ xb) mask

/-- the hash-table update for one chunk (nothing for an empty chunk: the inner loop does not run) -/
def htInsert (k1 k2 w : Bytes) (count i x : Nat) (c : List Bytes) (HT : Table) : Except Err Table :=
  if c.isEmpty then .ok HT else do
    let key ← htKey cfg lv k1 w count
    let v ← htVal cfg lv k2 w count i x
    pure (tinsert HT key v)

/-- one keyword: place its chunks -/
def placeChunks (k1 k2 : Bytes) (w : Bytes) (i : Nat) : List (List Bytes) → Nat → Level → Table → Tape →
    Except Err (Level × Table × Tape)
  | [], _, lvl, HT, t => .ok (lvl, HT, t)
  | c :: rest, count, lvl, HT, t => do
    let count := count + 1
    let cands := (lvl.remaining.zipIdx.filter fun p => p.1 ≥ 2 ^ i).map (·.2)
    if cands.isEmpty then throw .indexError             -- random.choice([])
    let (x, t1) ← takeNat t
    if !cands.contains x then throw .miss
    let lvl1 : Level := { lvl with buckets := addTo lvl.buckets x (c.map fun id => some (w, id)) }
    let HT1 ← htInsert cfg lv k1 k2 w count i x c HT
    let lvl2 : Level := { lvl1 with remaining := lvl1.remaining.mapIdx fun j r => if j = x then r - c.length else r }
    placeChunks k1 k2 w i rest count lvl2 HT1 t1

def encDb (k1 k2 : Bytes) (levels : List Int) : DB → List Level → Table → Tape → Except Err (List Level × Table × Tape)
  | [], ls, HT, t => .ok (ls, HT, t)
  | (w, ids) :: rest, ls, HT, t => do
    let i ← findAdjacent cfg levels ids.length
    if i < 0 then throw .typeError                       -- chunks(lst, 2 ** negative): range() refuses a float step
    let lvl ← getLevelE ls i
    let cw ← chunks ids (2 ^ i.toNat)
    let (lvl', HT', t') ← placeChunks cfg lv k1 k2 w i.toNat cw 0 lvl HT t
    encDb k1 k2 levels rest (setLevel ls lvl') HT' t'

/-- `HT[os.urandom(d)] = os.urandom(d)`: the value is drawn first -/
def fillHT (d : Nat) : Nat → Table → Tape → Except Err (Table × Tape)
  | 0, T, t => .ok (T, t)
  | n + 1, T, t => do
    let (v, t1) ← takeBytes d t
    let (k, t2) ← takeBytes d t1
    fillHT d n (tinsert T k v) t2

def permute (l : List α) (perm : List Nat) : Except Err (List α) :=
  if perm.length ≠ l.length then .error .miss else
  perm.mapM fun i => match l[i]? with | some x => .ok x | none => .error .miss

def encBucket (k3 : Bytes) : List Entry → Tape → Except Err (List Bytes × Tape)
  | [], t => .ok ([], t)
  | none :: rest, t => do
    let (r, t1) ← takeBytes cfg.cipherLen t
    let (more, t2) ← encBucket k3 rest t1
    pure (r :: more, t2)
  | some (w, id) :: rest, t => do
    let etag ← cfg.prfF.call lv.hmac k3 w
    let (c, t1) ← skeEncrypt cfg.rnd lv etag (id ++ zeros cfg.lambda.toNat) t
    let (more, t2) ← encBucket k3 rest t1
    pure (c :: more, t2)

/-- one level: pad every bucket, shuffle, encrypt; returns the level with its (mutated) buckets and the array A_i -/
def finishBuckets (k3 : Bytes) : List (List Entry) → List Nat → Tape → Except Err (List (List Entry) × List Bytes × Tape)
  | [], _, t => .ok ([], [], t)
  | b :: rest, rems, t => do
    let r := rems.headD 0
    let padded := b ++ List.replicate r none
    let (perm, t1) ← takeNats t
    let shuffled ← permute padded perm
    let (cs, t2) ← encBucket cfg lv k3 shuffled t1
    let (bs, arr, t3) ← finishBuckets k3 rest rems.tail t2
    pure (shuffled :: bs, cs.flatten :: arr, t3)

def finishLevels (k3 : Bytes) : List Int → List Level → List (Int × List Bytes) → Tape → Except Err (List (Int × List Bytes) × Tape)
  | [], _, A, t => .ok (A, t)
  | i :: rest, ls, A, t => do
    let lvl ← getLevelE ls i
    let (bs, arr, t1) ← finishBuckets cfg lv k3 lvl.buckets lvl.remaining t
    let A' := if (A.lookup i).isSome then A.map fun p => if p.1 == i then (i, arr) else p else A ++ [(i, arr)]
    finishLevels k3 rest (setLevel ls { lvl with buckets := bs }) A' t1

def setup (key : List Bytes) (db : DB) (t : Tape) : Except Err (DP17EDB × Tape) :=
  match key with
  | [k1, k2, k3] => do
    let N := db.total
    if N = 0 then throw .valueError
    let levels ← levelsOf cfg N
    let ls ← initLevels N levels []
    let (ls1, HT, t1) ← encDb cfg lv k1 k2 levels db ls [] t
    let (HT', t2) ← fillHT cfg.dsz (N - HT.length) HT t1
    let (A, t3) ← finishLevels cfg lv k3 levels ls1 [] t2
    pure ({ HT := HT', A := A }, t3)
  | _ => .error .typeError

def token (key : List Bytes) (w : Bytes) : Except Err (List Bytes) :=
  match key with
  | [k1, k2, k3] => do
    pure [← cfg.prfF.call lv.hmac k1 w, ← cfg.prfF.call lv.hmac k2 w, ← cfg.prfF.call lv.hmac k3 w]
  | _ => .error .typeError

/-- trial decryption of one bucket: keep `id` when the plaintext is `id ‖ 0^λ`; a padding error is skipped -/
def scanBucket (etag : Bytes) : List Bytes → List Bytes
  | [] => []
  | e :: rest =>
    match cfg.rnd.decrypt lv.D etag e with
    | .ok p =>
      let lam := cfg.lambda.toNat
      -- `plaintext[-λ:] == zeros(λ)`; `plaintext[:-λ]`
      if p.drop (p.length - lam) == zeros lam then p.take (p.length - lam) :: scanBucket etag rest
      else scanBucket etag rest
    | .error _ => scanBucket etag rest

/-- `[i, offset] ← evalue ⊕ H(vtag ‖ count)` -/
def decodeVal (vtag : Bytes) (count : Nat) (ev : Bytes) : Except Err (Nat × Nat) := do
  let mask ← hashH cfg lv (vtag ++ natToBytesMin count)
  let io ← bytesXor ev mask
  pure (intFromBytes (io.take (cfg.dsz / 2)), intFromBytes (io.drop (cfg.dsz / 2)))

/-- `A_dict[i][offset]` (KeyError for an unknown level, IndexError past the last bucket) -/
def lookupBucket (edb : DP17EDB) (i off : Nat) : Except Err Bytes :=
  match edb.A.lookup (i : Int) with
  | none => .error .keyError
  | some arr =>
    match arr[off]? with
    | none => .error .indexError
    | some bucket => .ok bucket

/-- one probe of the hash table: nothing when the key is absent, else the identifiers found in the bucket it names -/
def searchOne (edb : DP17EDB) (vtag etag : Bytes) (count : Nat) (key : Bytes) : Except Err (List Bytes) :=
  match edb.HT.get key with
  | none => .ok []
  | some ev => do
    let (i, off) ← decodeVal cfg lv vtag count ev
    let bucket ← lookupBucket edb i off
    let es ← chunks bucket cfg.cipherLen
    pure (scanBucket cfg lv etag es)

def searchCounts (edb : DP17EDB) (tag vtag etag : Bytes) : Nat → Nat → Except Err (List Bytes)
  | 0, _ => .ok []
  | more + 1, count => do
    let key ← hashH cfg lv (tag ++ natToBytesMin count)
    let here ← searchOne cfg lv edb vtag etag count key
    let rest ← searchCounts edb tag vtag etag more (count + 1)
    pure (here ++ rest)

def search (edb : DP17EDB) (tk : List Bytes) : Except Err (List Bytes) :=
  match tk with
  | [tag, vtag, etag] => searchCounts cfg lv edb tag vtag etag cfg.L.toNat 1
  | _ => .error .typeError

/-- the number of chunks `Setup` cuts a list into: `ceil(n / 2^i)` for the level `i` adjacent to its length -/
def nChunks (levels : List Int) (ids : List Bytes) : Nat :=
  match findAdjacent cfg levels ids.length with
  | .ok i => ceilDiv ids.length (2 ^ i.toNat)
  | .error _ => 0

def nodupBy : List Bytes → Bool
  | [] => true
  | a :: as => !as.contains a && nodupBy as

/-- the hypotheses of `Props/C01: DP17.search_stored` / `search_stored_partial`, as a computation the driver runs on every recorded case: distinct
    keywords, identifiers of the configured size, the hash-table keys `H(F_k1(w) ‖ c)` of all chunks pairwise different and
    different from every random filler, every recorded shuffle a permutation; and of `Props/C02: DP17.search_absent_empty` -/
def hypsB (key : List Bytes) (db : DB) (t : Tape) (absent : List Bytes) : Bool :=
  match key with
  | [k1, _, _] =>
    match levelsOf cfg db.total with
    | .error _ => false
    | .ok levels =>
      let tapeBytes := t.filterMap fun d => match d with | .bytes b => some b | _ => none
      let perms := t.filterMap fun d => match d with | .nats p => some p | _ => none
      let keys := db.flatMap fun p => (List.range (nChunks cfg levels p.2)).map fun c => htKey cfg lv k1 p.1 (c + 1)
      nodupBy (db.map (·.1)) &&
      -- `setup_never_raises`: the level list ascends, has no negative level, holds every list, and the fields are wide enough
      (levels.zip levels.tail).all (fun p => decide (p.1 ≤ p.2)) && levels.all (fun a => decide (0 ≤ a)) &&
      db.all (fun p => levels.any fun a => fits cfg a p.2.length) &&
      levels.all (fun a => decide (a.toNat < 256 ^ (cfg.dsz / 2)) &&
        decide ((divideToBuckets (2 * db.total + 2 ^ (a + 1).toNat) (2 ^ (a + 1).toNat)).1.length ≤ 256 ^ (cfg.dsz - cfg.dsz / 2))) &&
      db.all (fun p => p.2.all fun x => (x.length : Int) == cfg.idSize) &&
      keys.all (fun k => match k with | .ok g => !tapeBytes.contains g | .error _ => false) &&
      nodupBy (keys.map fun k => match k with | .ok g => g | .error _ => []) &&
      nodupBy (drawsLen cfg.dsz t) &&        -- C05 (`DP17.ht_shape`): no random filler key of the hash table repeats
      perms.all (fun p => p.isPerm (List.range p.length)) &&
      -- C01 (`DP17.search_stored`): every probe of a stored keyword's token yields only identifiers of that keyword
      -- (`ProbesClean`), and the probes beyond its last chunk miss the hash table
      (match setup cfg lv key db t with
       | .ok (e, _) => db.all fun p => match token cfg lv key p.1 with
          | .ok [tag, vtag, etag] => (List.range cfg.L.toNat).all fun c0 =>
              match hashH cfg lv (tag ++ natToBytesMin (c0 + 1)) with
              | .ok g =>
                if c0 + 1 ≤ nChunks cfg levels p.2 then
                  match searchOne cfg lv e vtag etag (c0 + 1) g with
                  | .ok here => here.all fun id => p.2.contains id
                  | .error _ => false
                else (e.HT.get g).isNone
              | .error _ => false
          | _ => false
       | .error _ => false) &&
      -- C02: no probe of an absent keyword is in the hash table
      (match setup cfg lv key db t with
       | .ok (e, _) => absent.all fun w => match cfg.prfF.call lv.hmac k1 w with
          | .ok tag => (List.range cfg.L.toNat).all fun c => match hashH cfg lv (tag ++ natToBytesMin (c + 1)) with
            | .ok g => (e.HT.get g).isNone | .error _ => false
          | .error _ => false
       | .error _ => false)
  | _ => false

end DP17
end SSEPy.Sch
