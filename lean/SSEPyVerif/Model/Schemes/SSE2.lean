/-
  schemes/CGKO06/SSE2 (config.py, construction.py): the index maps `π_K1(w ‖ j)` (j = 1.. for the j-th posting of w)
  to the identifier in clear; a token is the list `π_K1(w ‖ i)` for i = 1..n; search stops at the first miss.
-/
import SSEPyVerif.Model.Schemes.Common
import SSEPyVerif.Model.Feistel
namespace SSEPy.Sch

/-- `determine_param_max(max_document_size)` -/
def paramMaxLoop (maxSize : Nat) : Nat → Nat → Nat → Nat → Nat
  | 0, result, _, _ => result
  | fuel + 1, result, kwSize, docSize =>
    if docSize + 2 ^ (kwSize * 8) * kwSize > maxSize then result + (maxSize - docSize) / kwSize
    else paramMaxLoop maxSize fuel (result + 2 ^ (kwSize * 8)) (kwSize + 1) (docSize + 2 ^ (kwSize * 8) * kwSize)

def determineParamMax (maxSize : Nat) : Nat := paramMaxLoop maxSize (maxSize + 2) 0 1 0

abbrev ITable := List (Nat × Bytes)

def iinsert (t : ITable) (k : Nat) (v : Bytes) : ITable :=
  match t with
  | [] => [(k, v)]
  | (k', v') :: rest => if k' = k then (k', v) :: rest else (k', v') :: iinsert rest k v

structure SSE2Cfg where
  k : Int
  l : Int
  n : Int
  max : Nat
  bitsNM : Nat            -- param_log2_n_plus_max
  bytesNM : Nat           -- param_log2_n_plus_max_bytes
  s : Int                 -- param_s = max * n
  deriving Repr

def isBitwisePrpName (s : String) : Bool := ["bitwise_fpe_prp", "bitwise-fpe-prp", "bitwisefpeprp"].contains s.toLower
def isBytePrpName (s : String) : Bool :=
  ["lubyrackoffprp", "luby-rackoff-prp", "luby_rackoff_prp", "hmaclubyrackoffprp", "hmac-luby-rackoff-prp",
   "hmac_luby_rackoff_prp"].contains s.toLower

/-- `get_prp_implementation(name)(key_bit_length=…, message_bit_length=…)`: the byte-oriented PRPs do not take these
    keyword arguments (TypeError); an unknown name is a ValueError -/
def checkBitPrp (name : String) : Except Err Unit :=
  if isBitwisePrpName name then .ok () else if isBytePrpName name then .error .typeError else .error .valueError

def SSE2.cfgBuild (raw : RawCfg) : Except Err SSE2Cfg := do
  checkParamPositive raw
  checkParamExist ["param_k", "param_l", "param_n", "param_max_file_size"] raw
  let k ← getInt raw "param_k"
  let l ← getInt raw "param_l"
  let n ← getInt raw "param_n"
  let mfs ← getInt raw "param_max_file_size"
  let mx := determineParamMax mfs.toNat
  if n ≤ 0 then throw .valueError                    -- math.log2
  let bitsNM := clog2 (n.toNat + mx)
  checkBitPrp (getName raw "prp_pi")
  if !isAesCbcName (getName raw "ske") then throw .valueError
  let _ ← AESxCBC.new k
  pure { k := k, l := l, n := n, max := mx, bitsNM := bitsNM, bytesNM := ceilDiv bitsNM 8, s := mx * n }

namespace SSE2
variable (cfg : SSE2Cfg) (lv : Leaves)

def keyGen (t : Tape) : Except Err (Bytes × Bytes × Tape) := do
  if cfg.k < 0 then throw .valueError
  let (a, t1) ← takeBytes cfg.k.toNat t
  let (b, t2) ← takeBytes cfg.k.toNat t1
  pure (a, b, t2)

/-- `int(prp_pi(Bitset(K1, k_bits), Bitset(word, l_bits) + Bitset(int_to_bytes(j, bytes), bits)))` -/
def addr (K1 word : Bytes) (j : Int) : Except Err Nat := do
  let key ← Bitset.ofBytes K1 (cfg.k * 8).toNat
  let wb ← Bitset.ofBytes word (cfg.l * 8).toNat
  let jb ← intToBytes j cfg.bytesNM
  let cb ← Bitset.ofBytes jb cfg.bitsNM
  let msg ← wb.concat cb
  let out ← bitwiseFpePrp lv.hmac 20 (cfg.l * 8 + cfg.bitsNM) (cfg.k * 8) key msg
  pure out.value

def encList (K1 w : Bytes) : Nat → List Bytes → ITable → List (Bytes × Nat) → Except Err (ITable × List (Bytes × Nat))
  | _, [], I, cnt => .ok (I, cnt)
  | j, id :: rest, I, cnt => do
    let a ← addr cfg lv K1 w j
    let cnt' := match cnt.lookup id with
      | some c => cnt.map fun p => if p.1 = id then (p.1, c + 1) else p
      | none => cnt ++ [(id, 1)]
    encList K1 w (j + 1) rest (iinsert I a id) cnt'

def encDb (K1 : Bytes) : DB → ITable → List (Bytes × Nat) → Except Err (ITable × List (Bytes × Nat))
  | [], I, cnt => .ok (I, cnt)
  | (w, ids) :: rest, I, cnt => do
    let (I1, cnt1) ← encList cfg lv K1 w 1 ids I cnt
    encDb K1 rest I1 cnt1

/-- the filler loop: `for l in range(count - max): I[π(0^l ‖ n + l)] = id` -/
def fillOne (K1 id : Bytes) (n : Int) : Nat → Nat → ITable → Except Err ITable
  | 0, _, I => .ok I
  | more + 1, l, I => do
    let a ← addr cfg lv K1 (zeros cfg.l.toNat) (n + l)
    fillOne K1 id n more (l + 1) (iinsert I a id)

def fillAll (K1 : Bytes) : List (Bytes × Nat) → Int → ITable → Except Err ITable
  | [], _, I => .ok I
  | (id, c) :: rest, n, I => do
    let I1 ← fillOne cfg lv K1 id n (c - cfg.max) 0 I
    fillAll K1 rest (n + (c : Int) - cfg.max) I1

def setup (K1 : Bytes) (db : DB) : Except Err ITable := do
  let (I, cnt) ← encDb cfg lv K1 db [] []
  if (db.total : Int) < cfg.s then fillAll cfg lv K1 cnt cfg.n I else pure I

def tokenLoop (K1 w : Bytes) : Nat → Nat → Except Err (List Nat)
  | 0, _ => .ok []
  | more + 1, i => do
    let a ← addr cfg lv K1 w i
    let rest ← tokenLoop K1 w more (i + 1)
    pure (a :: rest)

def token (K1 w : Bytes) : Except Err (List Nat) := tokenLoop cfg lv K1 w cfg.n.toNat 1

def search (I : ITable) : List Nat → List Bytes
  | [] => []
  | ti :: rest =>
    match I.lookup ti with
    | none => []
    | some id => id :: search I rest

/-! the hypotheses of the SSE-2 theorems as a computation on this run -/

def storedAddrs (K1 : Bytes) (db : DB) : List (Option Nat) :=
  db.flatMap fun p => (List.range p.2.length).map fun i =>
    match addr cfg lv K1 p.1 ((1 + i : Nat) : Int) with | .ok a => some a | .error _ => none

def nodupO : List (Option Nat) → Bool
  | [] => true
  | a :: as => a.isSome && !as.contains a && nodupO as

def nodupW : List Bytes → Bool
  | [] => true
  | a :: as => !as.contains a && nodupW as

def hypsB (K1 : Bytes) (db : DB) (absent : List Bytes) : Bool :=
  let st := storedAddrs cfg lv K1 db
  let fresh := fun (w : Bytes) (j : Nat) => match addr cfg lv K1 w (j : Int) with
    | .ok a => !st.contains (some a) | .error _ => false
  nodupO st &&
  -- `SSE2.correct`: the validity conditions of the database and the key
  K1.length == cfg.k.toNat && nodupW (db.map (·.1)) &&
  db.all (fun p => p.1.length ≤ cfg.l.toNat && (match p.1 with | x :: _ => x != 0 | [] => false)) &&
  db.all (fun p => p.2.all fun id => (db.flatMap (·.2)).count id ≤ cfg.max) &&
  db.all (fun p => p.2.length ≤ cfg.n.toNat && (p.2.length == cfg.n.toNat || fresh p.1 (1 + p.2.length))) &&
  absent.all (fun w => fresh w 1) &&
  -- `SSE2.absent_correct`: an absent keyword is a valid keyword that is not in the database
  absent.all (fun w => w.length ≤ cfg.l.toNat && (match w with | x :: _ => x != 0 | [] => false) &&
    !(db.map (·.1)).contains w) &&
  (match encDb cfg lv K1 db [] [] with | .ok (_, cnt) => cnt.all (fun p => p.2 ≤ cfg.max) | .error _ => false)

end SSE2
end SSEPy.Sch
