/-
  schemes/CJJ14/PiPtr (config.py, construction.py): identifier blocks of `param_B` entries live in an array `A` at
  randomly chosen positions (`random.sample(range(1, |A|), |A|-1)`, popped from the end); the dictionary holds, per
  keyword, a counter chain of encrypted blocks of `param_b` pointers into `A`.
-/
import SSEPyVerif.Model.Schemes.Chain
namespace SSEPy.Sch

structure PiPtrCfg where
  lambda : Int
  B : Int
  b : Int
  idSize : Int
  prfF : HmacPRF
  ske : AESxCBC

def PiPtr.cfgBuild (raw : RawCfg) : Except Err PiPtrCfg := do
  checkParamPositive raw
  checkParamExist ["param_lambda", "param_B", "param_b", "prf_f_output_length", "param_identifier_size", "prf_f", "ske"] raw
  let lam ← getInt raw "param_lambda"
  let B ← getInt raw "param_B"
  let b ← getInt raw "param_b"
  let out ← getInt raw "prf_f_output_length"
  let ids ← getInt raw "param_identifier_size"
  if !isHmacPrfName (getName raw "prf_f") then throw .valueError
  if !isAesCbcName (getName raw "ske") then throw .valueError
  let ske ← AESxCBC.new lam
  pure { lambda := lam, B := B, b := b, idSize := ids, prfF := HmacPRF.new out lam LENGTH_UNLIMITED 20, ske := ske }

/-- the dictionary half of PiPtr is a counter chain whose chunks are pointer blocks -/
def PiPtrCfg.chain (cfg : PiPtrCfg) : ChainCfg :=
  { lambda := cfg.lambda, prfF := cfg.prfF, ske := cfg.ske, pack := .ok, unpack := fun p => parseByCount p cfg.b }

/-- `math.ceil(math.log2(n) / 8)`: the least `k` with `256^k ≥ n` (n ≥ 1) -/
def bytesFor (n : Nat) : Nat := ceilDiv (clog2 n) 8

structure PiPtrEDB where
  D : Table
  A : List (Option Bytes)
  deriving Repr

namespace PiPtr
variable (cfg : PiPtrCfg) (lv : Leaves)

def keyGen (t : Tape) : Except Err (Bytes × Tape) :=
  if cfg.lambda < 0 then .error .valueError else takeBytes cfg.lambda.toNat t

def token (K w : Bytes) : Except Err (Bytes × Bytes) := do
  let K1 ← cfg.prfF.call lv.hmac K (1 :: w)
  let K2 ← cfg.prfF.call lv.hmac K (2 :: w)
  pure (K1, K2)

/-- `sum(math.ceil(len(DB[w]) / B)) + 1` (B > 0 after the configuration check) -/
def arrayLen (db : DB) : Nat := (db.map fun p => ceilDiv p.2.length cfg.B.toNat).sum + 1

/-- store the identifier blocks of one keyword: pop a free slot (from the END of the sample), encrypt, place -/
def placeBlocks (K2 : Bytes) (idxSize : Nat) :
    List Bytes → List Nat → List (Option Bytes) → Tape → Except Err (List Bytes × List Nat × List (Option Bytes) × Tape)
  | [], avail, A, t => .ok ([], avail, A, t)
  | blk :: rest, avail, A, t =>
    match avail.getLast? with
    | none => .error .indexError                        -- pop from empty list
    | some pos => do
      let ptr ← intToBytesNat pos idxSize
      let (d, t1) ← skeEncrypt cfg.ske lv K2 blk t
      if pos ≥ A.length then throw .indexError
      let (ptrs, avail', A', t2) ← placeBlocks K2 idxSize rest avail.dropLast (A.set pos (some d)) t1
      pure (ptr :: ptrs, avail', A', t2)

def encDb (K : Bytes) (idxSize : Nat) :
    DB → List Nat → List (Option Bytes) → Tape → Except Err (List (Bytes × Bytes) × List (Option Bytes) × Tape)
  | [], _, A, t => .ok ([], A, t)
  | (w, ids) :: rest, avail, A, t => do
    let (K1, K2) ← token cfg lv K w
    let blocks ← partitionBlocks ids cfg.B cfg.idSize
    let (ptrs, avail1, A1, t1) ← placeBlocks cfg lv K2 idxSize blocks avail A t
    let pblocks ← partitionBlocks ptrs cfg.b idxSize
    let (ps, t2) ← Chain.encChunks cfg.chain lv K1 K2 0 pblocks t1
    let (qs, A2, t3) ← encDb K idxSize rest avail1 A1 t2
    pure (ps ++ qs, A2, t3)

def setup (K : Bytes) (db : DB) (t : Tape) : Except Err (PiPtrEDB × Tape) := do
  let alen := arrayLen cfg db
  let idxSize := bytesFor alen
  -- `random.sample(range(1, A_len), A_len - 1)`
  let (avail, t0) ← takeNats t
  if avail.length ≠ alen - 1 then throw .miss
  let (L, A, t1) ← encDb cfg lv K idxSize db avail (List.replicate alen none) t0
  pure ({ D := buildTable L, A := A }, t1)

/-- first loop of `_Search`: collect the pointers — the probe loop of the counter chain -/
def ptrLoop (D : Table) (K1 K2 : Bytes) (fuel c : Nat) (acc : List Bytes) : Except Err (List Bytes) :=
  Chain.searchLoop cfg.chain lv D K1 K2 fuel c acc

/-- second loop: fetch, decrypt and parse the identifier blocks -/
def fetch (A : List (Option Bytes)) (K2 : Bytes) : List Bytes → Except Err (List Bytes)
  | [] => .ok []
  | p :: rest => do
    let i := intFromBytes p
    match A[i]? with
    | none => throw .indexError
    | some none => throw .typeError                 -- Decrypt(K2, None)
    | some (some c) =>
      let blk ← cfg.ske.decrypt lv.D K2 c
      let ids ← parseBySize blk cfg.idSize
      let more ← fetch A K2 rest
      pure (ids ++ more)

def search (edb : PiPtrEDB) (tk : Bytes × Bytes) : Except Err (List Bytes) := do
  let ptrs ← ptrLoop cfg lv edb.D tk.1 tk.2 (edb.D.length + 1) 0 []
  fetch cfg lv edb.A tk.2 ptrs

/-! the hypotheses of the PiPtr theorems as a computation on this run -/

def hypsB (K : Bytes) (db : DB) (t : Tape) (absent : List Bytes) : Bool :=
  match takeNats t with
  | .error _ => false
  | .ok (avail, t0) =>
    Chain.nodupB (avail.map natToBytesMin) && avail.all (· > 0) &&
    avail.all (· < arrayLen cfg db) &&                 -- `setup_never_raises`: a sample of range(1, |A|)
    db.all (fun p => p.2.all fun x => x.length == cfg.idSize.toNat) &&   -- C05 (`PiPtr.shape`): identifiers of the configured size
    match encDb cfg lv K (bytesFor (arrayLen cfg db)) db avail (List.replicate (arrayLen cfg db) none) t0 with
    | .error _ => false
    | .ok (L, _, _) =>
      let labels := L.map (·.1)
      Chain.nodupB labels &&
      db.all (fun p => match token cfg lv K p.1 with
        | .ok (K1, _) =>
          (match cfg.prfF.call lv.hmac K1 (natToBytesMin (ceilDiv (ceilDiv p.2.length cfg.B.toNat) cfg.b.toNat)) with
           | .ok l => !labels.contains l | .error _ => false)
        | .error _ => false) &&
      absent.all (fun w => match token cfg lv K w with
        | .ok (K1, _) => (match cfg.prfF.call lv.hmac K1 (natToBytesMin 0) with
           | .ok l => !labels.contains l | .error _ => false)
        | .error _ => false)

end PiPtr
end SSEPy.Sch
