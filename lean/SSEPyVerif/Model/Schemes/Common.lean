/-
  Shared vocabulary of the scheme models (schemes/**/construction.py, structures.py, config.py).

  * a database is Python's insertion-ordered dict `keyword -> [identifier]`;
  * a table (`dict` built by `build_from_list` / `create_hash_table` / `create_dictionary_from_list`):
    the pair list is sorted by key (stable) and turned into a dict (a repeated key keeps its first position
    and takes the last value);
  * randomness is a TAPE of recorded draws consumed in call order (`os.urandom`, `random.randint`,
    `random.sample`, `random.choice`, `random.shuffle`), so that the model rebuilds the implementation's index
    cell by cell; theorems quantify over every tape;
  * the primitives are the wrapper models of C14–C16 over the leaves `hmac` (HMAC-SHA1 digest), `E`/`D`
    (AES block function) and `sha` (hash digest).
-/
import SSEPyVerif.Model.Bytes
import SSEPyVerif.Model.PHash
import SSEPyVerif.Model.Cbc
namespace SSEPy.Sch

abbrev DB := List (Bytes × List Bytes)

/-- `get_total_size` -/
def DB.total (db : DB) : Nat := (db.map (·.2.length)).sum

def DB.get (db : DB) (w : Bytes) : List Bytes := (db.lookup w).getD []

/-- the leaves -/
structure Leaves where
  hmac : Hmac
  E : BlockFn
  D : BlockFn
  sha : Bytes → Bytes := fun _ => []

/-! ### randomness tape -/

inductive Draw where
  | bytes (b : Bytes)         -- os.urandom(n)
  | nat (n : Nat)             -- random.randint / random.choice (the chosen value)
  | nats (l : List Nat)       -- random.sample (the sample) / random.shuffle (new[i] = old[l[i]])
  deriving DecidableEq, Repr

abbrev Tape := List Draw

/-- `os.urandom(n)`: the next draw must be `n` bytes -/
def takeBytes (n : Nat) : Tape → Except Err (Bytes × Tape)
  | .bytes b :: t => if b.length = n then .ok (b, t) else .error .miss
  | _ => .error .miss

/-- the `n`-byte draws of a tape, in order -/
def drawsLen (n : Nat) (t : Tape) : List Bytes :=
  t.filterMap fun d => match d with
    | .bytes b => if b.length = n then some b else none
    | _ => none

/-- `k` successive `os.urandom(n)` -/
def takeBytesN (n : Nat) : Nat → Tape → Except Err (List Bytes × Tape)
  | 0, t => .ok ([], t)
  | k + 1, t => do
    let (b, t1) ← takeBytes n t
    let (bs, t2) ← takeBytesN n k t1
    pure (b :: bs, t2)

def takeNat : Tape → Except Err (Nat × Tape)
  | .nat n :: t => .ok (n, t)
  | _ => .error .miss

def takeNats : Tape → Except Err (List Nat × Tape)
  | .nats l :: t => .ok (l, t)
  | _ => .error .miss

/-- `ske.Encrypt(key, msg)` with its draw: the wrapper checks the message and key lengths BEFORE it calls
    `os.urandom(16)`, so a refused call consumes nothing from the tape -/
def skeEncrypt (ske : AESxCBC) (lv : Leaves) (key msg : Bytes) (t : Tape) : Except Err (Bytes × Tape) :=
  match ske.encrypt lv.E key (zeros 16) msg with
  | .error e => .error e
  | .ok _ => do
    let (iv, t1) ← takeBytes 16 t
    let c ← ske.encrypt lv.E key iv msg
    pure (c, t1)

/-! ### tables -/

/-- Python's `bytes` ordering: lexicographic, a proper prefix is smaller -/
def bytesLe : Bytes → Bytes → Bool
  | [], _ => true
  | _ :: _, [] => false
  | a :: as, b :: bs => if a < b then true else if b < a then false else bytesLe as bs

abbrev Table := List (Bytes × Bytes)

/-- `dict[k] = v` on an insertion-ordered dict -/
def tinsert (t : Table) (k v : Bytes) : Table :=
  match t with
  | [] => [(k, v)]
  | (k', v') :: rest => if k' = k then (k', v) :: rest else (k', v') :: tinsert rest k v

def tableOfList (ps : List (Bytes × Bytes)) : Table := ps.foldl (fun t p => tinsert t p.1 p.2) []

/-- `kv_pairs.sort(key=lambda pair: pair[0]); {key: value for key, value in kv_pairs}` -/
def buildTable (ps : List (Bytes × Bytes)) : Table :=
  tableOfList (ps.mergeSort fun a b => bytesLe a.1 b.1)

def Table.get (t : Table) (k : Bytes) : Option Bytes := t.lookup k

/-- `mapM` in `Except`, written out so that its equations are the obvious ones -/
def mapE (f : α → Except Err β) : List α → Except Err (List β)
  | [] => .ok []
  | a :: as => do
    let b ← f a
    let bs ← mapE f as
    pure (b :: bs)

def enumFrom (n : Nat) : List α → List (Nat × α)
  | [] => []
  | a :: as => (n, a) :: enumFrom (n + 1) as

/-- raw configuration values, as a user can write them in the JSON configuration -/
inductive RawVal where
  | int (z : Int)
  | str (s : String)
  | float (num den : Int)     -- only DP17's level ratio is a float: num/den
  | other                      -- None, lists, … (everything else)
  deriving DecidableEq, Repr

abbrev RawCfg := List (String × RawVal)

def RawCfg.get (c : RawCfg) (f : String) : Option RawVal := c.lookup f

/-- `SSEConfig.check_param_exist`: `config_dict.get(f, -1) == -1` -/
def checkParamExist (fields : List String) (c : RawCfg) : Except Err Unit :=
  if fields.all (fun f => match c.get f with | none => false | some (.int (-1)) => false | some (.float n d) => !(n == -d) | _ => true)
  then .ok () else .error .valueError

/-- `SSEConfig.check_param_positive` (every `param_*` number must be positive; -1 = not given) -/
def checkParamPositive (c : RawCfg) : Except Err Unit :=
  if c.all (fun (f, v) => !(f.startsWith "param_") ||
      (match v with
       | .int z => z > 0 || z == -1
       | .float n d => (n > 0 && d > 0) || (n == -d)
       | _ => true))
  then .ok () else .error .valueError

def getInt (c : RawCfg) (f : String) : Except Err Int :=
  match c.get f with
  | some (.int z) => .ok z
  | _ => .error .typeError

/-- `get_prf_implementation(name)`: the accepted spellings -/
def isHmacPrfName (s : String) : Bool := ["hmacprf", "hmac-prf", "hmac_prf"].contains s.toLower
def isAesCbcName (s : String) : Bool := ["aes-cbc", "aes_cbc", "aescbc"].contains s.toLower

def getName (c : RawCfg) (f : String) : String :=
  match c.get f with
  | some (.str s) => s
  | _ => ""

end SSEPy.Sch
