/-
  schemes/CJJ14/PiBas and schemes/CJJ14/PiPack (config.py, construction.py): the "counter chain".

  For every keyword: `K1 = F(K, 1‖w)`, `K2 = F(K, 2‖w)`; the posting list is cut into chunks (PiBas: one
  identifier per chunk; PiPack: blocks of `param_B` identifiers, zero padded); chunk `c` is stored under the
  label `F(K1, int_to_bytes(c))` as `Enc(K2, chunk)`.  Search probes c = 0, 1, 2, … until a label is missing.
-/
import SSEPyVerif.Model.Schemes.Common
namespace SSEPy.Sch

structure ChainCfg where
  lambda : Int                                     -- `param_lambda`
  prfF : HmacPRF
  ske : AESxCBC
  /-- posting list ↦ plaintext chunks -/
  pack : List Bytes → Except Err (List Bytes)
  /-- decrypted chunk ↦ identifiers -/
  unpack : Bytes → Except Err (List Bytes)

/-- `SSEConfig.__init__` + `_parse_config` of PiBas -/
def PiBas.cfgBuild (raw : RawCfg) : Except Err ChainCfg := do
  checkParamPositive raw
  checkParamExist ["param_lambda", "prf_f_output_length", "prf_f", "ske"] raw
  let lam ← getInt raw "param_lambda"
  let out ← getInt raw "prf_f_output_length"
  if !isHmacPrfName (getName raw "prf_f") then throw .valueError
  if !isAesCbcName (getName raw "ske") then throw .valueError
  let ske ← AESxCBC.new lam
  pure { lambda := lam, prfF := HmacPRF.new out lam LENGTH_UNLIMITED 20, ske := ske,
         pack := fun ids => .ok ids, unpack := fun p => .ok [p] }

/-- `_parse_config` of PiPack -/
def PiPack.cfgBuild (raw : RawCfg) : Except Err ChainCfg := do
  checkParamPositive raw
  checkParamExist ["param_lambda", "param_B", "prf_f_output_length", "param_identifier_size", "prf_f", "ske"] raw
  let lam ← getInt raw "param_lambda"
  let B ← getInt raw "param_B"
  let out ← getInt raw "prf_f_output_length"
  let ids ← getInt raw "param_identifier_size"
  if !isHmacPrfName (getName raw "prf_f") then throw .valueError
  if !isAesCbcName (getName raw "ske") then throw .valueError
  let ske ← AESxCBC.new lam
  pure { lambda := lam, prfF := HmacPRF.new out lam LENGTH_UNLIMITED 20, ske := ske,
         pack := fun l => partitionBlocks l B ids, unpack := fun p => parseBySize p ids }

namespace Chain
variable (cfg : ChainCfg) (lv : Leaves)

/-- `_Gen`: `os.urandom(param_lambda)` (a negative length is a ValueError of `os.urandom`) -/
def keyGen (t : Tape) : Except Err (Bytes × Tape) :=
  if cfg.lambda < 0 then .error .valueError else takeBytes cfg.lambda.toNat t

/-- `_Trap` -/
def token (K w : Bytes) : Except Err (Bytes × Bytes) := do
  let K1 ← cfg.prfF.call lv.hmac K (1 :: w)
  let K2 ← cfg.prfF.call lv.hmac K (2 :: w)
  pure (K1, K2)

/-- the inner loop of `_Enc`: `for c, chunk in enumerate(chunks)` -/
def encChunks (K1 K2 : Bytes) : Nat → List Bytes → Tape → Except Err (List (Bytes × Bytes) × Tape)
  | _, [], t => .ok ([], t)
  | c, ch :: rest, t => do
    let l ← cfg.prfF.call lv.hmac K1 (natToBytesMin c)
    let (d, t1) ← skeEncrypt cfg.ske lv K2 ch t
    let (ps, t2) ← encChunks K1 K2 (c + 1) rest t1
    pure ((l, d) :: ps, t2)

/-- the outer loop of `_Enc`: `for keyword in database` -/
def encDb (K : Bytes) : DB → Tape → Except Err (List (Bytes × Bytes) × Tape)
  | [], t => .ok ([], t)
  | (w, ids) :: rest, t => do
    let (K1, K2) ← token cfg lv K w
    let chunks ← cfg.pack ids
    let (ps, t1) ← encChunks cfg lv K1 K2 0 chunks t
    let (qs, t2) ← encDb K rest t1
    pure (ps ++ qs, t2)

/-- `_Enc` -/
def setup (K : Bytes) (db : DB) (t : Tape) : Except Err (Table × Tape) := do
  let (L, t1) ← encDb cfg lv K db t
  pure (buildTable L, t1)

/-- `_Search`: `while True` with fuel; more probes than the table has entries cannot all hit distinct cells, and a
    chain that revisits a cell would never end: `diverges` -/
def searchLoop (D : Table) (K1 K2 : Bytes) : Nat → Nat → List Bytes → Except Err (List Bytes)
  | 0, _, _ => .error .diverges
  | fuel + 1, c, acc => do
    let addr ← cfg.prfF.call lv.hmac K1 (natToBytesMin c)
    match D.get addr with
    | none => pure acc
    | some cipher =>
      let p ← cfg.ske.decrypt lv.D K2 cipher
      let ids ← cfg.unpack p
      searchLoop D K1 K2 fuel (c + 1) (acc ++ ids)

def searchFuel (D : Table) : Nat := D.length + 1

def search (D : Table) (tk : Bytes × Bytes) : Except Err (List Bytes) :=
  searchLoop cfg lv D tk.1 tk.2 (searchFuel D) 0 []

end Chain
end SSEPy.Sch

namespace SSEPy.Sch.Chain
variable (cfg : ChainCfg) (lv : Leaves)

/-! ### the no-collision hypotheses of the theorems, as a computation the driver runs on every recorded case -/

def nodupB : List Bytes → Bool
  | [] => true
  | a :: as => !as.contains a && nodupB as

def endFreshB (K : Bytes) (L : List (Bytes × Bytes)) (w : Bytes) (ids : List Bytes) : Bool :=
  match token cfg lv K w, cfg.pack ids with
  | .ok (K1, _), .ok chs =>
    match cfg.prfF.call lv.hmac K1 (natToBytesMin chs.length) with
    | .ok l => !(L.map (·.1)).contains l
    | .error _ => false
  | _, _ => false

def firstFreshB (K : Bytes) (L : List (Bytes × Bytes)) (w : Bytes) : Bool :=
  match token cfg lv K w with
  | .ok (K1, _) =>
    match cfg.prfF.call lv.hmac K1 (natToBytesMin 0) with
    | .ok l => !(L.map (·.1)).contains l
    | .error _ => false
  | .error _ => false

/-- all hypotheses of C01/C02 for this run: stored labels distinct, every chain's end label fresh, every absent
    keyword's first label fresh -/
def hypsB (K : Bytes) (db : DB) (t : Tape) (absent : List Bytes) : Bool :=
  match encDb cfg lv K db t with
  | .ok (L, _) => nodupB (L.map (·.1)) && db.all (fun p => endFreshB cfg lv K L p.1 p.2) &&
                  absent.all (fun w => firstFreshB cfg lv K L w)
  | .error _ => false

end SSEPy.Sch.Chain
