/-
  schemes/CT14/Pi and schemes/ANSS16/Scheme3 (config.py, construction.py): level tables.

  Both pad the database with dummy keywords up to N = 2^t postings and keep one hash table per level.
  CT14: every list is cut greedily into power-of-two chunks, chunk of size 2^j goes to level j under the label
  `F'(Kw0, j)`.  ANSS16: every list is padded to 2^p entries and stored whole at level p; a second table HT(S) holds
  the encrypted true length.
-/
import SSEPyVerif.Model.Schemes.Common
namespace SSEPy.Sch

/-- `dict[k] = v` on the (insertion-ordered) database copy -/
def dbInsert (db : DB) (k : Bytes) (v : List Bytes) : DB :=
  match db with
  | [] => [(k, v)]
  | (k', v') :: rest => if k' = k then (k', v) :: rest else (k', v') :: dbInsert rest k v

/-- the padding loop shared by CT14 and ANSS16:
    `while N < 2**t: kw = urandom(32); n = randint(1, 2**t - N); ids = [urandom(idsize)]*n; db[kw] = ids; N += n` -/
def padLoop (idSize : Nat) (cap : Nat) : Nat → DB → Nat → Tape → Except Err (DB × Tape)
  | 0, _, _, _ => .error .diverges
  | fuel + 1, db, N, t =>
    if N < cap then do
      let (kw, t1) ← takeBytes 32 t
      let (n, t2) ← takeNat t1
      if n < 1 ∨ n > cap - N then throw .miss          -- not a value `randint(1, cap - N)` can return
      let (ids, t3) ← takeBytesN idSize n t2
      padLoop idSize cap fuel (dbInsert db kw ids) (N + n) t3
    else .ok (db, t)

/-- the 32-byte draws of a tape (the dummy keywords of the padding loop are among them) -/
def draws32 (t : Tape) : List Bytes :=
  t.filterMap fun d => match d with
    | .bytes b => if b.length = 32 then some b else none
    | _ => none

/-- `[ske.Encrypt(key, x) for x in xs]`, joined -/
def encAll (ske : AESxCBC) (lv : Leaves) (key : Bytes) : List Bytes → Tape → Except Err (List Bytes × Tape)
  | [], t => .ok ([], t)
  | x :: xs, t => do
    let (c, t1) ← skeEncrypt ske lv key x t
    let (cs, t2) ← encAll ske lv key xs t1
    pure (c :: cs, t2)

/-- `k` filler pairs `(urandom(a), urandom(b))` -/
def fillers (a b : Nat) : Nat → Tape → Except Err (List (Bytes × Bytes) × Tape)
  | 0, t => .ok ([], t)
  | k + 1, t => do
    let (x, t1) ← takeBytes a t
    let (y, t2) ← takeBytes b t1
    let (ps, t3) ← fillers a b k t2
    pure ((x, y) :: ps, t3)

def decAll (ske : AESxCBC) (lv : Leaves) (key : Bytes) : List Bytes → Except Err (List Bytes)
  | [] => .ok []
  | c :: cs => do
    let p ← ske.decrypt lv.D key c
    let ps ← decAll ske lv key cs
    pure (p :: ps)

/-- append `x` to the `j`-th list -/
def pushAt (ls : List (List α)) (j : Nat) (x : α) : Except Err (List (List α)) :=
  match ls[j]? with
  | none => .error .indexError
  | some l => .ok (ls.set j (l ++ [x]))

/-! ## CT14 -/

structure CT14Cfg where
  k : Int
  kPrime : Int
  l : Int
  idSize : Int
  prfF : HmacPRF
  prfFPrime : HmacPRF
  ske : AESxCBC

def CT14.cfgBuild (raw : RawCfg) : Except Err CT14Cfg := do
  checkParamPositive raw
  checkParamExist ["param_k", "param_k_prime", "param_l", "param_identifier_size", "prf_f", "prf_f_prime", "ske"] raw
  let k ← getInt raw "param_k"
  let kp ← getInt raw "param_k_prime"
  let l ← getInt raw "param_l"
  let ids ← getInt raw "param_identifier_size"
  if !isHmacPrfName (getName raw "prf_f") then throw .valueError
  if !isHmacPrfName (getName raw "prf_f_prime") then throw .valueError
  if !isAesCbcName (getName raw "ske") then throw .valueError
  let ske ← AESxCBC.new kp
  pure { k := k, kPrime := kp, l := l, idSize := ids,
         prfF := HmacPRF.new (k + kp) k LENGTH_UNLIMITED 20,
         prfFPrime := HmacPRF.new l k LENGTH_UNLIMITED 20, ske := ske }

namespace CT14
variable (cfg : CT14Cfg) (lv : Leaves)

def keyGen (t : Tape) : Except Err (Bytes × Tape) :=
  if cfg.k < 0 then .error .valueError else takeBytes cfg.k.toNat t

/-- `_Trap`: `F(K, w)` split at `param_k` -/
def token (K w : Bytes) : Except Err (Bytes × Bytes) := do
  let x ← cfg.prfF.call lv.hmac K w
  pure (x.take cfg.k.toNat, x.drop cfg.k.toNat)

/-- the chunk loop of one keyword: `for j in range(int(log2(len)), -1, -1)`; `c` = identifiers already placed -/
def chunkLoop (Kw0 Kw1 : Bytes) (ids : List Bytes) :
    Nat → Nat → List (List (Bytes × Bytes)) → Tape → Except Err (List (List (Bytes × Bytes)) × Tape)
  | 0, _, Ls, t => .ok (Ls, t)
  | j1 + 1, c, Ls, t =>
    let j := j1
    if 2 ^ j > ids.length - c then chunkLoop Kw0 Kw1 ids j1 c Ls t
    else do
      let (cs, t1) ← encAll cfg.ske lv Kw1 ((ids.drop c).take (2 ^ j)) t
      let l ← cfg.prfFPrime.call lv.hmac Kw0 (natToBytesMin j)
      let Ls' ← pushAt Ls j (l, cs.flatten)
      chunkLoop Kw0 Kw1 ids j1 (c + 2 ^ j) Ls' t1

def encDb (K : Bytes) : DB → List (List (Bytes × Bytes)) → Tape → Except Err (List (List (Bytes × Bytes)) × Tape)
  | [], Ls, t => .ok (Ls, t)
  | (w, ids) :: rest, Ls, t => do
    let (Kw0, Kw1) ← token cfg lv K w
    if ids.length = 0 then throw .valueError           -- math.log2(0)
    let (Ls1, t1) ← chunkLoop cfg lv Kw0 Kw1 ids (Nat.log2 ids.length + 1) 0 Ls t
    encDb K rest Ls1 t1

/-- `len(ske.Encrypt(zeros(k'), zeros(idsize)))` — a real call, it draws an IV -/
def cipherLen (ske : AESxCBC) (lv : Leaves) (keyLen idSize : Int) (t : Tape) : Except Err (Nat × Tape) := do
  let (c, t1) ← skeEncrypt ske lv (zeros keyLen.toNat) (zeros idSize.toNat) t
  pure (c.length, t1)

/-- pad level `i` to `2^(t-i)` entries -/
def padLevels (tt : Nat) : Nat → List (List (Bytes × Bytes)) → Tape → Except Err (List (List (Bytes × Bytes)) × Tape)
  | _, [], t => .ok ([], t)
  | i, L :: rest, t => do
    let (clen, t1) ← cipherLen cfg.ske lv cfg.kPrime cfg.idSize t
    let (fs, t2) ← fillers cfg.l.toNat (2 ^ i * clen) (2 ^ (tt - i) - L.length) t1
    let (more, t3) ← padLevels tt (i + 1) rest t2
    pure ((L ++ fs) :: more, t3)

/-- the padded level lists of `_Enc`, before they are turned into hash tables -/
def setupLists (K : Bytes) (db : DB) (t : Tape) : Except Err (List (List (Bytes × Bytes)) × Tape) := do
  let N := db.total
  if N = 0 then throw .valueError                       -- math.log2(0)
  let tt := clog2 N
  let (pdb, t1) ← padLoop cfg.idSize.toNat (2 ^ tt) (2 ^ tt + 1) db N t
  let (Ls, t2) ← encDb cfg lv K pdb (List.replicate (tt + 1) []) t1
  padLevels cfg lv tt 0 Ls t2

def setup (K : Bytes) (db : DB) (t : Tape) : Except Err (List Table × Tape) := do
  let (TL, t') ← setupLists cfg lv K db t
  pure (TL.map buildTable, t')

/-- `_Search`: levels from the top down -/
def searchLevels (K0 K1 : Bytes) (HT : List Table) : Nat → Except Err (List Bytes)
  | 0 => .ok []
  | i1 + 1 => do
    let i := i1
    let l ← cfg.prfFPrime.call lv.hmac K0 (natToBytesMin i)
    let here ← match (HT[i]?).bind (·.get l) with
      | none => pure []
      | some d => do
        let cs ← parseByCount d (2 ^ i : Nat)
        decAll cfg.ske lv K1 cs
    let lower ← searchLevels K0 K1 HT i1
    pure (here ++ lower)

def search (HT : List Table) (tk : Bytes × Bytes) : Except Err (List Bytes) :=
  searchLevels cfg lv tk.1 tk.2 HT HT.length

/-! the hypotheses of the CT14 theorems as a computation on this run -/

def nodupL (l : List Bytes) : Bool :=
  match l with
  | [] => true
  | a :: as => !as.contains a && nodupL as

def hypsB (K : Bytes) (db : DB) (t : Tape) (absent : List Bytes) : Bool :=
  (t.all fun d => match d with | .bytes b => !(b.length == 16 && allZero b) | _ => true) &&
  -- C05 (`CT14.shape`): identifiers of the configured size; no dummy keyword repeats a keyword or another dummy
  db.all (fun p => p.2.all fun x => x.length == cfg.idSize.toNat) &&
  nodupL (db.map (·.1) ++ draws32 t) &&
  (match padLoop cfg.idSize.toNat (2 ^ clog2 db.total) (2 ^ clog2 db.total + 1) db db.total t with
   | .ok (pdb, _) => db.all (fun p => pdb.contains p)
   | .error _ => false) &&
  (match setupLists cfg lv K db t with
   | .ok (TL, _) =>
     TL.all (fun l => nodupL (l.map (·.1))) &&
     (db.map (·.1) ++ absent).all (fun w =>
       let n := if absent.contains w then 0 else (db.lookup w).getD [] |>.length
       match token cfg lv K w with
       | .ok (Kw0, _) => (List.range TL.length).all (fun j =>
           if n % 2 ^ (j + 1) < 2 ^ j then
             match cfg.prfFPrime.call lv.hmac Kw0 (natToBytesMin j) with
             | .ok l => !((TL[j]?).getD [] |>.map (·.1)).contains l
             | .error _ => false
           else true)
       | .error _ => false)
   | .error _ => false)

end CT14

/-! ## ANSS16 Scheme 3 -/

structure ANSSCfg where
  lambda : Int
  k : Int
  kPrime : Int
  l : Int
  lPrime : Int
  idSize : Int
  prf : HmacPRF
  ske : AESxCBC

def ANSS16.cfgBuild (raw : RawCfg) : Except Err ANSSCfg := do
  checkParamPositive raw
  checkParamExist ["param_lambda", "param_k", "param_k_prime", "param_l", "param_l_prime", "param_identifier_size", "prf", "ske"] raw
  let lam ← getInt raw "param_lambda"
  let k ← getInt raw "param_k"
  let kp ← getInt raw "param_k_prime"
  let l ← getInt raw "param_l"
  let lp ← getInt raw "param_l_prime"
  let ids ← getInt raw "param_identifier_size"
  if !isHmacPrfName (getName raw "prf") then throw .valueError
  if !isAesCbcName (getName raw "ske") then throw .valueError
  let ske ← AESxCBC.new k
  pure { lambda := lam, k := k, kPrime := kp, l := l, lPrime := lp, idSize := ids,
         prf := HmacPRF.new (k + kp + l + lp) LENGTH_UNLIMITED LENGTH_UNLIMITED 20, ske := ske }

structure ANSSEDB where
  HTS : Table
  HTL : List Table
  deriving Repr

structure ANSSToken where
  li : Bytes
  Ki : Bytes
  liP : Bytes
  KiP : Bytes
  deriving Repr, DecidableEq

namespace ANSS16
variable (cfg : ANSSCfg) (lv : Leaves)

def keyGen (t : Tape) : Except Err (Bytes × Tape) :=
  if cfg.lambda < 0 then .error .valueError else takeBytes cfg.lambda.toNat t

/-- `_Trap`: `prf(K, w)` split into `[l, k, l', k']` -/
def token (K w : Bytes) : Except Err ANSSToken := do
  let x ← cfg.prf.call lv.hmac K w
  match ← splitBytes x [cfg.l.toNat, cfg.k.toNat, cfg.lPrime.toNat, cfg.kPrime.toNat] with
  | [a, b, c, d] => pure { li := a, Ki := b, liP := c, KiP := d }
  | _ => throw .valueError

def encDb (K : Bytes) (niSize : Nat) :
    DB → List (List (Bytes × Bytes)) → List (Bytes × Bytes) → Tape →
    Except Err (List (List (Bytes × Bytes)) × List (Bytes × Bytes) × Tape)
  | [], Ts, S, t => .ok (Ts, S, t)
  | (w, ids) :: rest, Ts, S, t => do
    let ni := ids.length
    if ni = 0 then throw .valueError                  -- math.log2(0)
    let p := clog2 ni
    let (dummies, t1) ← takeBytesN cfg.idSize.toNat (2 ^ p - ni) t
    let tk ← token cfg lv K w
    let (cs, t2) ← encAll cfg.ske lv tk.Ki (ids ++ dummies) t1
    let nb ← intToBytesNat ni niSize                   -- OverflowError when the length does not fit
    let (niP, t3) ← skeEncrypt cfg.ske lv tk.KiP nb t2
    let Ts' ← pushAt Ts p (tk.li, cs.flatten)
    encDb K niSize rest Ts' (S ++ [(tk.liP, niP)]) t3

/-- pad level `i` to `2^(t+1-i)` entries -/
def padLevels (tt : Nat) : Nat → List (List (Bytes × Bytes)) → Tape → Except Err (List (List (Bytes × Bytes)) × Tape)
  | _, [], t => .ok ([], t)
  | i, L :: rest, t => do
    let (clen, t1) ← CT14.cipherLen cfg.ske lv cfg.kPrime cfg.idSize t
    let (fs, t2) ← fillers cfg.l.toNat (2 ^ i * clen) (2 ^ (tt + 1 - i) - L.length) t1
    let (more, t3) ← padLevels tt (i + 1) rest t2
    pure ((L ++ fs) :: more, t3)

/-- the pair lists of `_Enc`, before they are turned into hash tables: (S with its padding, the padded level lists) -/
def setupLists (K : Bytes) (db : DB) (t : Tape) :
    Except Err (List (Bytes × Bytes) × List (List (Bytes × Bytes)) × Tape) := do
  let N := db.total
  if N = 0 then throw .valueError
  let tt := clog2 N
  let (pdb, t1) ← padLoop cfg.idSize.toNat (2 ^ tt) (2 ^ tt + 1) db N t
  let niSize := ceilDiv (tt + 1) 8
  let (Ts, S, t2) ← encDb cfg lv K niSize pdb (List.replicate (tt + 1) []) [] t1
  let (Ts', t3) ← padLevels cfg lv tt 0 Ts t2
  let (nlen, t4) ← CT14.cipherLen cfg.ske lv cfg.kPrime niSize t3
  let (fs, t5) ← fillers cfg.lPrime.toNat nlen (2 ^ tt - S.length) t4
  pure (S ++ fs, Ts', t5)

def setup (K : Bytes) (db : DB) (t : Tape) : Except Err (ANSSEDB × Tape) := do
  let (SL, TL, t') ← setupLists cfg lv K db t
  pure ({ HTS := buildTable SL, HTL := TL.map buildTable }, t')

def search (edb : ANSSEDB) (tk : ANSSToken) : Except Err (List Bytes) :=
  match edb.HTS.get tk.liP with
  | none => .ok []
  | some niP => do
    let nb ← cfg.ske.decrypt lv.D tk.KiP niP
    let ni := intFromBytes nb
    if ni = 0 then throw .valueError                  -- math.log2(0)
    let p := clog2 ni
    if p ≥ edb.HTL.length then pure [] else
    match (edb.HTL[p]?).bind (·.get tk.li) with
    | none => pure []
    | some d => do
      let cs ← parseByCount d (2 ^ p : Nat)
      decAll cfg.ske lv tk.Ki (cs.take ni)

/-! the hypotheses of the ANSS16 theorems as a computation on this run -/

def nodupBy (l : List Bytes) : Bool :=
  match l with
  | [] => true
  | a :: as => !as.contains a && nodupBy as

def goodTapeB (t : Tape) : Bool :=
  t.all fun d => match d with
    | .bytes b => !(b.length == 16 && allZero b)
    | _ => true

def hypsB (K : Bytes) (db : DB) (t : Tape) (absent : List Bytes) : Bool :=
  goodTapeB t &&
  -- C05 (`ANSS16.shape`): identifiers of the configured size; no dummy keyword repeats a keyword or another dummy
  db.all (fun p => p.2.all fun x => x.length == cfg.idSize.toNat) &&
  nodupBy (db.map (·.1) ++ draws32 t) &&
  (match padLoop cfg.idSize.toNat (2 ^ clog2 db.total) (2 ^ clog2 db.total + 1) db db.total t with
   | .ok (pdb, _) => db.all (fun p => pdb.contains p)
   | .error _ => false) &&
  (match setupLists cfg lv K db t with
   | .ok (SL, TL, _) =>
     nodupBy (SL.map (·.1)) && TL.all (fun l => nodupBy (l.map (·.1))) &&
     absent.all (fun w => match token cfg lv K w with
       | .ok tk => !(SL.map (·.1)).contains tk.liP
       | .error _ => false)
   | .error _ => false)

end ANSS16
end SSEPy.Sch
