/-
  schemes/**/structures.py — the wire formats of keys and tokens that are plain concatenations:
  `serialize` joins the fields; `deserialize` checks the total length against the configuration and cuts at the
  configured widths.  (Encrypted databases, results, and the tokens of SSE-2 and DP17 are pickled: not modelled.)
-/
import SSEPyVerif.Model.Schemes.Chain
import SSEPyVerif.Model.Schemes.PiPtr
import SSEPyVerif.Model.Schemes.Levels
import SSEPyVerif.Model.Schemes.SSE1
import SSEPyVerif.Model.Schemes.DP17
import SSEPyVerif.Model.Schemes.Pi2Lev
namespace SSEPy.Sch

def wireSer (parts : List Bytes) : Bytes := parts.flatten

/-- length check + cut -/
def wireDeser (widths : List Nat) (x : Bytes) : Except Err (List Bytes) := splitBytes x widths

structure WireFmt where
  key : List Nat
  token : Option (List Nat)       -- `none`: pickled

def ChainCfg.wire (c : ChainCfg) : WireFmt := { key := [c.lambda.toNat], token := some [c.lambda.toNat, c.lambda.toNat] }
def PiPtrCfg.wire (c : PiPtrCfg) : WireFmt := { key := [c.lambda.toNat], token := some [c.lambda.toNat, c.lambda.toNat] }
def Pi2LevCfg.wire (c : Pi2LevCfg) : WireFmt := { key := [c.lambda.toNat], token := some [c.lambda.toNat, c.lambda.toNat] }
def CT14Cfg.wire (c : CT14Cfg) : WireFmt := { key := [c.k.toNat], token := some [c.k.toNat, c.kPrime.toNat] }
def ANSSCfg.wire (c : ANSSCfg) : WireFmt :=
  { key := [c.lambda.toNat], token := some [c.l.toNat, c.k.toNat, c.lPrime.toNat, c.kPrime.toNat] }
def SSE1Cfg.wire (c : SSE1Cfg) : WireFmt :=
  { key := List.replicate 4 c.k.toNat, token := some [c.l.toNat, c.k.toNat + c.log2sBytes] }
def SSE2Cfg.wire (c : SSE2Cfg) : WireFmt := { key := [c.k.toNat, c.k.toNat], token := none }
def DP17Cfg.wire (c : DP17Cfg) : WireFmt := { key := List.replicate 3 c.lambda.toNat, token := none }

end SSEPy.Sch
