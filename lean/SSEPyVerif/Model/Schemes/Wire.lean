/-
  schemes/**/structures.py — the wire formats of keys and tokens that are plain concatenations:
  `serialize` joins the fields; `deserialize` checks the total length against the configuration and cuts at the
  configured widths.  (Encrypted databases, results, and the tokens of SSE-2 and DP17 are pickled: not modelled.)
-/
import SSEPyVerif.Model.Schemes.Chain
import SSEPyVerif.Model.Schemes.PiPtr
import SSEPyVerif.Model.Schemes.Levels
import SSEPyVerif.Model.Schemes.SSE1
import SSEPyVerif.Model.Schemes.DP17
import SSEPyVerif.Model.Schemes.Pi2Lev
namespace SSEPy.Sch

def wireSer (parts : List Bytes) : Bytes := parts.flatten

/-- length check + cut -/
def wireDeser (widths : List Nat) (x : Bytes) : Except Err (List Bytes) := splitBytes x widths

structure WireFmt where
  key : List Nat
  token : Option (List Nat)       -- `none`: pickled

def ChainCfg.wire (c : ChainCfg) : WireFmt := { key := [c.lambda.toNat], token := some [c.lambda.toNat, c.lambda.toNat] }
def PiPtrCfg.wire (c : PiPtrCfg) : WireFmt := { key := [c.lambda.toNat], token := some [c.lambda.toNat, c.lambda.toNat] }
def Pi2LevCfg.wire (c : Pi2LevCfg) : WireFmt := { key := [c.lambda.toNat], token := some [c.lambda.toNat, c.lambda.toNat] }
def CT14Cfg.wire (c : CT14Cfg) : WireFmt := { key := [c.k.toNat], token := some [c.k.toNat, c.kPrime.toNat] }
def ANSSCfg.wire (c : ANSSCfg) : WireFmt :=
  { key := [c.lambda.toNat], token := some [c.l.toNat, c.k.toNat, c.lPrime.toNat, c.kPrime.toNat] }
def SSE1Cfg.wire (c : SSE1Cfg) : WireFmt :=
  { key := List.replicate 4 c.k.toNat, token := some [c.l.toNat, c.k.toNat + c.log2sBytes] }
def SSE2Cfg.wire (c : SSE2Cfg) : WireFmt := { key := [c.k.toNat, c.k.toNat], token := none }
def DP17Cfg.wire (c : DP17Cfg) : WireFmt := { key := List.replicate 3 c.lambda.toNat, token := none }


/-! the configuration fields the wire formats read, by the names the source uses (`config.param_*`) — the valuation at which
    the layouts extracted from `structures.py` (`Generated/WireLayout.lean`) are evaluated -/
def ChainCfg.field (c : ChainCfg) : String → Int
  | "param_lambda" => c.lambda | _ => 0
def PiPtrCfg.field (c : PiPtrCfg) : String → Int
  | "param_lambda" => c.lambda | _ => 0
def Pi2LevCfg.field (c : Pi2LevCfg) : String → Int
  | "param_lambda" => c.lambda | _ => 0
def CT14Cfg.field (c : CT14Cfg) : String → Int
  | "param_k" => c.k | "param_k_prime" => c.kPrime | "param_l" => c.l | _ => 0
def ANSSCfg.field (c : ANSSCfg) : String → Int
  | "param_lambda" => c.lambda | "param_k" => c.k | "param_k_prime" => c.kPrime | "param_l" => c.l | "param_l_prime" => c.lPrime | _ => 0
def SSE1Cfg.field (c : SSE1Cfg) : String → Int
  | "param_k" => c.k | "param_l" => c.l | "param_log2_s_bytes" => (c.log2sBytes : Int) | _ => 0
def SSE2Cfg.field (c : SSE2Cfg) : String → Int
  | "param_k" => c.k | _ => 0
def DP17Cfg.field (c : DP17Cfg) : String → Int
  | "param_lambda" => c.lambda | _ => 0


/-! the envelope of an encrypted database: `HEADER ‖ pickle.dumps(parts)`; `deserialize` refuses another header and unpickles the
    rest.  `pickle` is an abstract codec (`dumps`, `loads`); what is modelled is the envelope around it. -/
def edbSer (hdr payload : Bytes) : Bytes := hdr ++ payload

def edbDeser (hdr x : Bytes) : Except Err Bytes :=
  if x.take hdr.length == hdr then .ok (x.drop hdr.length) else .error .valueError

end SSEPy.Sch
