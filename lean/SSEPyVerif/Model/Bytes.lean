/-
  toolkit/bytes_utils.py, toolkit/list_utils.py, toolkit/database_utils.py — line-for-line model.
-/
import SSEPyVerif.Model.Basic
namespace SSEPy

/-! ## bytes_utils -/

/-- `bytes_xor(a, b)`: `result = bytearray(a); for i, x in enumerate(b): result[i] ^= x`.
    Raises `IndexError` when `b` is longer than `a`; otherwise the result has the length of `a`
    (the tail of `a` beyond `len(b)` is kept). -/
def xorPrefix : Bytes → Bytes → Bytes
  | a, [] => a
  | [], _ :: _ => []
  | x :: a, y :: b => (x ^^^ y) :: xorPrefix a b

def bytesXor (a b : Bytes) : Except Err Bytes :=
  if b.length > a.length then .error .indexError else .ok (xorPrefix a b)

/-- big-endian digits of `x`, exactly `w` of them (the low `w` bytes; callers check the range). -/
def toBE : Nat → Nat → Bytes
  | 0, _ => []
  | w + 1, x => toBE w (x / 256) ++ [UInt8.ofNat (x % 256)]

/-- `int.from_bytes(b, 'big')`. -/
def fromBE (b : Bytes) : Nat := b.foldl (fun acc d => acc * 256 + d.toNat) 0

/-- `int_to_bytes(x, output_len=-1)`.
    `output_len == -1` selects the minimal width `(bit_length+7)//8`; a negative `x` or a value that
    does not fit raises `OverflowError`; any other negative `output_len` raises `ValueError`. -/
def intToBytesNat (x w : Nat) : Except Err Bytes :=
  if x ≥ 256 ^ w then .error .overflowError else .ok (toBE w x)

/-- minimal-width encoding: `int_to_bytes(x)` -/
def natToBytesMin (x : Nat) : Bytes := toBE ((bitLength x + 7) / 8) x

def intToBytes (x : Int) (outputLen : Int := -1) : Except Err Bytes :=
  if outputLen == -1 then
    -- (x.bit_length() + 7) // 8; a negative x cannot be converted (OverflowError)
    if x < 0 then .error .overflowError else .ok (natToBytesMin x.toNat)
  else if outputLen < 0 then .error .valueError
  else if x < 0 then .error .overflowError
  else intToBytesNat x.toNat outputLen.toNat

def intFromBytes (b : Bytes) : Nat := fromBE b

/-- `add_leading_zeros(x, n) = b'\0' * max(n - len(x), 0) + x`. -/
def addLeadingZeros (x : Bytes) (n : Int) : Bytes :=
  zeros (n - x.length).toNat ++ x

/-- Python `xs[a:b]` for `0 ≤ a`, `0 ≤ b` (clamped as CPython does). -/
def slice (xs : List α) (a b : Nat) : List α := (xs.take b).drop a

/-- `split_bytes_given_slice_len(x, lens)` for non-negative lengths:
    `for next_c in itertools.accumulate(lens): result.append(x[c:next_c]); c = next_c`. -/
def splitLoop (x : Bytes) : List Nat → Nat → List Bytes
  | [], _ => []
  | n :: rest, c => slice x c (c + n) :: splitLoop x rest (c + n)

def splitBytes (x : Bytes) (lens : List Nat) : Except Err (List Bytes) :=
  if x.length != lens.sum then .error .valueError else .ok (splitLoop x lens 0)

/-! ## list_utils.chunks and the identifier blocks of database_utils -/

/-- `chunks(lst, n)` for `n > 0` (`range(0, len, 0)` raises `ValueError`). -/
def chunksFuel : Nat → List α → Nat → List (List α)
  | 0, _, _ => []
  | fuel + 1, l, n => if l.isEmpty then [] else l.take n :: chunksFuel fuel (l.drop n) n

def chunks (l : List α) (n : Nat) : Except Err (List (List α)) :=
  if n == 0 then .error .valueError else .ok (chunksFuel l.length l n)

/-- `partition_identifiers_to_blocks(ids, cap, size, block_size_bytes=0)` as a list (the generator is
    always consumed by its callers).  Integer arguments are Python ints: a negative capacity makes
    `range(0, n, cap)` empty, capacity 0 raises `ValueError` (range step 0) — but only when the
    generator is first advanced, which every caller does. -/
def padBlock (blk : Bytes) (bs : Nat) : Bytes :=
  if blk.length < bs then blk ++ zeros (bs - blk.length) else blk

/-- the packer on its natural domain (non-negative capacity, size and block size) -/
def partitionBlocksNat (ids : List Bytes) (cap size blockSize : Nat) : Except Err (List Bytes) :=
  let bs := if blockSize = 0 then cap * size else blockSize
  if bs < cap * size then .error .valueError
  else if cap = 0 then .error .valueError
  else .ok ((chunksFuel ids.length ids cap).map fun grp => padBlock grp.flatten bs)

def partitionBlocks (ids : List Bytes) (cap : Int) (size : Int) (blockSize : Int := 0) :
    Except Err (List Bytes) :=
  if 0 ≤ cap ∧ 0 ≤ size ∧ 0 ≤ blockSize then
    partitionBlocksNat ids cap.toNat size.toNat blockSize.toNat
  else
    let bs : Int := if blockSize == 0 then cap * size else blockSize
    if bs < cap * size then .error .valueError
    else if cap == 0 then .error .valueError
    else if cap < 0 then .ok []          -- range(0, len, negative) is empty
    else
      -- cap > 0, so size < 0 or blockSize < 0: blocks are the joined groups, padded up to bs if bs > 0
      .ok ((chunksFuel ids.length ids cap.toNat).map fun grp => padBlock grp.flatten bs.toNat)

/-- `parse_identifiers_from_block_given_identifier_size(block, size)`:
    walk `range(0, len(block), size)`, stop at the first all-zero piece.
    `size == 0` raises `ValueError` (range step 0); a negative size gives an empty range. -/
def parseLoop : Nat → Bytes → Nat → List Bytes
  | 0, _, _ => []
  | fuel + 1, blk, size =>
    if blk.isEmpty then [] else
    let piece := blk.take size
    if allZero piece then [] else piece :: parseLoop fuel (blk.drop size) size

def parseBySizeNat (blk : Bytes) (size : Nat) : Except Err (List Bytes) :=
  if size = 0 then .error .valueError else .ok (parseLoop blk.length blk size)

def parseBySize (blk : Bytes) (size : Int) : Except Err (List Bytes) :=
  if size < 0 then .ok [] else parseBySizeNat blk size.toNat

/-- `parse_identifiers_from_block_given_entry_count_in_one_block(block, count)`:
    `size = len(block) // count` (ZeroDivisionError for count 0; floor division for negatives). -/
def parseByCountNat (blk : Bytes) (count : Nat) : Except Err (List Bytes) :=
  if count = 0 then .error .zeroDivision else parseBySizeNat blk (blk.length / count)

def parseByCount (blk : Bytes) (count : Int) : Except Err (List Bytes) :=
  if count < 0 then parseBySize blk (Int.fdiv blk.length count)
  else parseByCountNat blk count.toNat

/-! ## hex / BytesConverter -/

def hexDigit (n : Nat) : Char :=
  if n < 10 then Char.ofNat (48 + n) else Char.ofNat (87 + n)

/-- `bytes.hex()`. -/
def toHex (b : Bytes) : List Char :=
  b.flatMap fun x => [hexDigit (x.toNat / 16), hexDigit (x.toNat % 16)]

def hexVal (c : Char) : Option Nat :=
  if '0' ≤ c ∧ c ≤ '9' then some (c.toNat - 48)
  else if 'a' ≤ c ∧ c ≤ 'f' then some (c.toNat - 87)
  else if 'A' ≤ c ∧ c ≤ 'F' then some (c.toNat - 55)
  else none

/-- `bytes.fromhex(h)` restricted to strings without whitespace (the identifier strings of a JSON
    database); odd length or a non-hex digit raises `ValueError`. -/
def fromHex : List Char → Except Err Bytes
  | [] => .ok []
  | [_] => .error .valueError
  | a :: b :: rest =>
    match hexVal a, hexVal b with
    | some x, some y => do
      let tl ← fromHex rest
      .ok (UInt8.ofNat (x * 16 + y) :: tl)
    | _, _ => .error .valueError

def lowerHexChar (c : Char) : Char :=
  if 'A' ≤ c ∧ c ≤ 'F' then Char.ofNat (c.toNat + 32) else c

end SSEPy
