/-
  Python's `slice.indices(len)` and `range(start, stop, step)` (CPython semantics), shared by the
  Bitset and persistent-array models.
-/
import SSEPyVerif.Model.Basic
namespace SSEPy

/-- CPython's clamping of an explicit slice bound: negative values count from the end -/
def clampIdx (v n lower upper : Int) : Int :=
  if v < 0 then max (v + n) lower else min v upper

/-- `slice(start, stop, step).indices(len)`; `none` stands for Python's `None`. -/
def sliceIndices (start stop step : Option Int) (len : Nat) : Except Err (Int × Int × Int) :=
  let step := step.getD 1
  if step == 0 then .error .valueError else
  let n : Int := len
  let lower : Int := if step < 0 then -1 else 0
  let upper : Int := if step < 0 then n - 1 else n
  let s := match start with
    | none => if step < 0 then upper else lower
    | some v => clampIdx v n lower upper
  let e := match stop with
    | none => if step < 0 then lower else upper
    | some v => clampIdx v n lower upper
  .ok (s, e, step)

/-- number of elements of `range(start, stop, step)`, `step ≠ 0`. -/
def rangeLen (start stop step : Int) : Nat :=
  if step > 0 then
    if start < stop then ((stop - start + step - 1) / step).toNat else 0
  else
    if start > stop then ((start - stop - step - 1) / (-step)).toNat else 0

/-- `list(range(start, stop, step))`, `step ≠ 0`. -/
def pyRange (start stop step : Int) : List Int :=
  (List.range (rangeLen start stop step)).map fun (i : Nat) => start + (i : Int) * step

/-- `range(*slice(start, stop, step).indices(len))` -/
def sliceRange (start stop step : Option Int) (len : Nat) : Except Err (List Int) := do
  let (s, e, st) ← sliceIndices start stop step len
  .ok (pyRange s e st)

end SSEPy
