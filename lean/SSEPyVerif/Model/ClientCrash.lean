/-
  The client interpreter with a CRASH BUDGET: the process dies when it is about to perform its (k+1)-th mutation of the
  service directory.  Each such mutation is one effect of the extracted program (create the folder, put the configuration /
  key / local index / flag word in place, remove the local index); `Props/C13: client_writes_are_atomic` shows on the
  extracted file-manager code that each of them is a write to a temporary file followed by one atomic rename (or a single
  mkdir / unlink), so "between two effects" are exactly the observably different crash points.  `runCB` is `runC` (Model/Client.lean)
  with the budget threaded through; what dies with the process is the in-memory object, what survives is the world.
-/
import SSEPyVerif.Model.Client
namespace SSEPy.ClientIR
open SSEPy.ServerIR

structure CMB where
  w : World
  o : Obj
  budget : Nat
  dead : Bool := false
  deriving Repr

def runCB (p : Program) : Nat → List Eff → CMB → CMB × Bool
  | 0, _, m => (m, false)
  | _, [], m => (m, true)
  | fuel + 1, e :: rest, m =>
    let cont := fun (m' : CMB) => runCB p fuel rest m'
    match e with
    | .guardBit b v => if m.o.bits.get b == v then (m, false) else cont m
    | .requireValidConfig => if m.o.argValid then cont m else (m, false)
    | .checkConfigValidIgnored | .addSalt | .calcSid | .returnSid | .waitSetup | .returnIfNotOk => cont m
    | .mkdirSid =>
      if m.budget = 0 then ({ m with dead := true }, false) else
      let m : CMB := { m with budget := m.budget - 1 }
      let cont := fun (m' : CMB) => runCB p fuel rest m'
      match p.fmCreateSidFolder with
      | [.mkdir] => if m.w.cdisk.dir then (m, false) else cont { m with w := { m.w with cdisk := { m.w.cdisk with dir := true } } }
      | [.mkdirExistOk] => cont { m with w := { m.w with cdisk := { m.w.cdisk with dir := true } } }
      | _ => (m, false)
    | .writeConfig =>
      if m.budget = 0 then ({ m with dead := true }, false) else
      let m : CMB := { m with budget := m.budget - 1 }
      let cont := fun (m' : CMB) => runCB p fuel rest m'
      match m.o.argCfg with
      | some c => if fileOkToWrite m.w.cdisk then cont { m with w := { m.w with cdisk := { m.w.cdisk with config := .full c } } } else (m, false)
      | none => (m, false)
    | .setMemConfig => cont { m with o := { m.o with memCfg := m.o.argCfg } }
    | .setBit b v => cont { m with o := { m.o with bits := m.o.bits.set b v } }
    | .storeMeta =>
      if m.budget = 0 then ({ m with dead := true }, false) else
      let m : CMB := { m with budget := m.budget - 1 }
      let cont := fun (m' : CMB) => runCB p fuel rest m'
      if fileOkToWrite m.w.cdisk then cont { m with w := { m.w with cdisk := { m.w.cdisk with metaSt := .full m.o.bits } } }
      else (m, false)
    | .loadConfigObject | .loadScheme => if m.o.memCfg.isSome then cont m else (m, false)
    | .keyGen => cont { m with w := { m.w with nextKey := m.w.nextKey + 1 }, o := { m.o with newKey := some m.w.nextKey } }
    | .writeKey =>
      if m.budget = 0 then ({ m with dead := true }, false) else
      let m : CMB := { m with budget := m.budget - 1 }
      let cont := fun (m' : CMB) => runCB p fuel rest m'
      match m.o.newKey with
      | some k => if fileOkToWrite m.w.cdisk then cont { m with w := { m.w with cdisk := { m.w.cdisk with key := .full k } } } else (m, false)
      | none => (m, false)
    | .loadKey =>
      match m.o.memCfg, m.w.cdisk.key with
      | some _, .full k => cont { m with o := { m.o with key := some k } }
      | _, _ => (m, false)
    | .edbSetup =>
      match m.o.key with
      | some k => cont { m with o := { m.o with edb := some k } }
      | none => (m, false)
    | .writeEdb =>
      if m.budget = 0 then ({ m with dead := true }, false) else
      let m : CMB := { m with budget := m.budget - 1 }
      let cont := fun (m' : CMB) => runCB p fuel rest m'
      match m.o.edb with
      | some x => if fileOkToWrite m.w.cdisk then cont { m with w := { m.w with cdisk := { m.w.cdisk with edb := .full x } } } else (m, false)
      | none => (m, false)
    | .loadWebsocket =>
      if m.o.connected then cont m else
      -- connect: the init echo carries the server's state, which overrides two flags in memory
      let st := m.w.server.st
      let upd := (p.updateTable.find? (·.1 == st)).map (·.2) |>.getD []
      let bits' := upd.foldl (fun b e => match e with | .setBit x v => b.set x v | _ => b) m.o.bits
      cont { m with w := { m.w with server := { m.w.server with alive := true } }, o := { m.o with bits := bits', connected := true } }
    | .loadEdbFile =>
      match m.o.edb with
      | some _ => cont m
      | none =>
        match m.o.memCfg, m.w.cdisk.edb with
        | some _, .full x => cont { m with o := { m.o with edb := some x } }
        | _, _ => (m, false)
    | .tokenGen => if m.o.key.isSome then cont m else (m, false)
    | .sendMsg mt =>
      let msg : Option Msg :=
        if mt == "config" then some (.config m.o.memCfg)
        else if mt == "upload_edb" then m.o.edb.map .upload
        else if mt == "token" then some (.search m.o.key)
        else none
      match msg with
      | none => (m, false)
      | some msg =>
        let r := spec3Msg m.w.server msg
        let m1 : CMB := { m with w := { m.w with server := r.1 } }
        match r.2 with
        | [.ok mt'] =>
          -- the acknowledgement handler runs in the receive task, then the awaited future resolves
          let (m2, _) := runCB p fuel (handlerOfEcho p mt') m1
          if m2.dead then (m2, false) else
          runCB p fuel rest { m2 with o := { m2.o with reply := some .ok } }
        | [.result _ e k] => runCB p fuel rest { m1 with o := { m1.o with reply := some (.result e k) } }
        | _ => runCB p fuel rest { m1 with o := { m1.o with reply := none, connected := false } }   -- refused: the server closed the connection
    | .awaitReply => if m.o.reply.isSome then cont m else (m, false)      -- nothing arrives: `wait_for` times out
    | .deleteEdb =>
      if m.budget = 0 then ({ m with dead := true }, false) else
      let m : CMB := { m with budget := m.budget - 1 }
      let cont := fun (m' : CMB) => runCB p fuel rest m'
      cont { m with w := { m.w with cdisk := { m.w.cdisk with edb := .absent } } }
    | .closeWebsocket => cont { m with w := { m.w with server := { m.w.server with alive := false } }, o := { m.o with connected := false } }
    | .unknown _ => (m, false)


/-- one user command under a crash budget; a dead process runs no `finally`, the server just sees the connection go -/
def runCmdB (p : Program) (w : World) (cmd : Cmd) (budget : Nat) : World × COut × Bool :=
  match loadObj p w.cdisk with
  | none => (w, .refused, false)
  | some o =>
    let fuel := 200
    let fin (r : CMB × Bool) (network : Bool) : World × COut × Bool :=
      if r.1.dead then ({ r.1.w with server := { r.1.w.server with alive := false } }, .refused, true) else
      let m := if network then (runCB p fuel p.closeService r.1).1 else r.1
      if m.dead then ({ m.w with server := { m.w.server with alive := false } }, .refused, true) else
      (m.w, (if r.2 then (match r.1.o.reply with | some (.result e k) => .result e k | _ => .ok) else .refused), false)
    match cmd with
    | .create c v => fin (runCB p fuel p.createConfig { w := w, o := { argCfg := some c, argValid := v }, budget := budget }) false
    | .key => fin (runCB p fuel p.createKey { w := w, o := o, budget := budget }) false
    | .encrypt => fin (runCB p fuel p.encryptDatabase { w := w, o := o, budget := budget }) false
    | .uploadConfig => fin (runCB p fuel p.uploadConfig { w := w, o := o, budget := budget }) true
    | .uploadEdb => fin (runCB p fuel p.uploadEdb { w := w, o := o, budget := budget }) true
    | .search => fin (runCB p fuel p.keywordSearch { w := w, o := o, budget := budget }) true

/-- the documented workflow -/
def workflow (c : Cfg) : List Cmd := [.create c true, .key, .encrypt, .uploadConfig, .uploadEdb]

/-- what the user does after a crash: if the service folder does not hold a created service (the create step itself was
    interrupted) a NEW service is created (fresh salt, fresh folder: the interrupted one is an orphan the client never
    addresses again); otherwise every step of the workflow is issued again — completed ones are refused, the interrupted one
    is redone — and then a search is made -/
def recover (p : Program) (c : Cfg) (w : World) : World × COut :=
  let created := match loadObj p w.cdisk with | some o => o.bits.created | none => false
  let w0 : World := if created then w else { w with cdisk := {} }
  let w1 := (runCmds p w0 (workflow c)).1
  runCmd p w1 .search

/-- steps `0 … i-1` of the workflow run to the end, step `i` dies after `k` mutations, then the user recovers -/
def crashThenRecover (p : Program) (c : Cfg) (i k : Nat) : Option (Bool × COut) :=
  let w := (runCmds p {} ((workflow c).take i)).1
  match (workflow c)[i]? with
  | none => none
  | some cmd =>
    let r := runCmdB p w cmd k
    some (r.2.2, (recover p c r.1).2)


/-- a recovery that is itself interrupted: the user issues the workflow again and the process dies once more, in step `i2` after
    `k2` mutations; then the user recovers again -/
def recoverTwice (p : Program) (c : Cfg) (w : World) (i2 k2 : Nat) : COut :=
  let created := match loadObj p w.cdisk with | some o => o.bits.created | none => false
  let w0 : World := if created then w else { w with cdisk := {} }
  let w1 := (runCmds p w0 ((workflow c).take i2)).1
  match (workflow c)[i2]? with
  | none => .refused
  | some cmd => (recover p c (runCmdB p w1 cmd k2).1).2

/-- crash in step `i` (budget `k`), crash again while recovering (step `i2`, budget `k2`), recover -/
def crashTwiceThenRecover (p : Program) (c : Cfg) (i k i2 k2 : Nat) : COut :=
  let w := (runCmds p {} ((workflow c).take i)).1
  match (workflow c)[i]? with
  | none => .refused
  | some cmd => recoverTwice p c (runCmdB p w cmd k).1 i2 k2

end SSEPy.ClientIR
